// Prints reference values on a fixed table (for the mpmath cross-check in lib/mpref_check.py) and
// compares the 200-digit evaluation with the 100-digit one (internal consistency).
#include "mpref.h"
#include <cstdio>
#include <cmath>
#include <vector>
int main() {
   const char* names[] = {"F1C","F2C","F3C","F4C","F1N","F2N","F3N","F4N","G3","G4","fPS","fS","fsferm","fCSl","F1","F1t","F2","F3","dilog","Cl2"};
   std::vector<double> xs = {1e-14, 3.3e-9, 1e-4, 0.013, 0.1, 0.2, 0.24, 0.2499999, 0.25, 0.2500001, 0.3, 0.5, 0.9, 0.97, 0.999, 0.9999999,
                             1.0000001, 1.001, 1.03, 1.08, 1.5, 2, 3.7, 10, 12.6, 99, 101, 1e3, 1e5, 1e8, 1e12};
   int bad = 0;
   for (int fn = 0; fn < MPREF_N1; ++fn) {
      for (double x : xs) {
         for (int sgn = 1; sgn >= -1; sgn -= 2) {
            if (sgn < 0 && fn < MPREF_dilog) continue;
            double xx = sgn * x;
            long double h = mpref_eval1(fn, xx), l = mpref_eval1_lo(fn, xx);
            if (!(fabsl(h - l) <= 1e-18L * fabsl(h) + 1e-300L)) { std::printf("SELFTEST-MISMATCH %s %.17g %.21Lg %.21Lg\n", names[fn], xx, h, l); ++bad; }
            std::printf("T1 %s %.17g %.21Lg\n", names[fn], xx, h);
         }
      }
   }
   // complex dilog
   double zs[][2] = {{0.3, 0.4}, {-0.7, 0.2}, {0.5, 0.8660254037844386}, {0.5, -0.9}, {2.5, 1e-3}, {2.5, -1e-3}, {-30, 12}, {1e5, 3e4}, {0.999, 1e-6}, {1.001, -1e-6},
                     {0.6, 0.1}, {0.0, 1.0}, {1e-9, 1e-9}, {3.0, 0.0}, {-1e8, 1.0}, {0.5, 1e-12}};
   for (auto& z : zs) { long double re, im; mpref_cdilog(z[0], z[1], &re, &im); std::printf("TC %.17g %.17g %.21Lg %.21Lg\n", z[0], z[1], re, im); }
   // multi-variable
   struct MV { int fn; const char* name; int n; double a[6]; };
   const double qu = 2.0 / 3, qd = -1.0 / 3;
   std::vector<MV> mv = {
      {MPREF_Fa, "Fa", 2, {0.3, 2.1}}, {MPREF_Fa, "Fa", 2, {1.5, 1.5}}, {MPREF_Fa, "Fa", 2, {0.9999, 1.0002}}, {MPREF_Fb, "Fb", 2, {0.3, 2.1}}, {MPREF_Fb, "Fb", 2, {7.0, 7.0}},
      {MPREF_Iabc, "Iabc", 3, {1, 2, 3}}, {MPREF_Iabc, "Iabc", 3, {2, 2, 3}}, {MPREF_Iabc, "Iabc", 3, {5, 5, 5}}, {MPREF_Iabc, "Iabc", 3, {0, 2, 3}}, {MPREF_Iabc, "Iabc", 3, {100, 0.1, 7}},
      {MPREF_Phi, "Phi", 3, {0.1, 0.2, 1}}, {MPREF_Phi, "Phi", 3, {0.5, 0.5, 1}}, {MPREF_Phi, "Phi", 3, {0.01, 0.3, 1}}, {MPREF_Phi, "Phi", 3, {0.9, 0.8, 1}}, {MPREF_Phi, "Phi", 3, {1, 1, 1}},
      {MPREF_Phi, "Phi", 3, {3, 5, 1}}, {MPREF_Phi, "Phi", 3, {1e-5, 0.3, 2}}, {MPREF_Phi, "Phi", 3, {1e-5, 2e-5, 2}}, {MPREF_Phi, "Phi", 3, {0.25, 0.2500001, 1}}, {MPREF_Phi, "Phi", 3, {40, 2, 2.5}},
      {MPREF_lambda2, "lambda2", 3, {0.1, 0.2, 1}}, {MPREF_lambda2, "lambda2", 3, {3, 5, 1}},
      {MPREF_FPZ, "FPZ", 2, {0.3, 2.1}}, {MPREF_FPZ, "FPZ", 2, {0.7, 0.7}}, {MPREF_FSZ, "FSZ", 2, {0.3, 2.1}}, {MPREF_FSZ, "FSZ", 2, {0.7, 0.7}}, {MPREF_FSZ, "FSZ", 2, {2e3, 2e3}},
      {MPREF_FCWl, "FCWl", 2, {0.3, 2.1}}, {MPREF_FCWl, "FCWl", 2, {0.02, 0.02}},
      {MPREF_fCSd, "fCSd", 4, {0.3, 0.001, qu, qd}}, {MPREF_fCSu, "fCSu", 4, {0.3, 0.001, qu, qd}}, {MPREF_fCSd, "fCSd", 4, {4.0, 0.01, qu, qd}}, {MPREF_fCSu, "fCSu", 4, {4.0, 0.01, qu, qd}},
      {MPREF_FCWu, "FCWu", 6, {0.3, 0.001, 4.6, 0.0153333333333333, qu, qd}}, {MPREF_FCWd, "FCWd", 6, {0.3, 0.001, 4.6, 0.0153333333333333, qu, qd}},
   };
   for (auto& m : mv) {
      long double h = mpref_evaln(m.fn, m.a), l = mpref_evaln_lo(m.fn, m.a);
      if (!(fabsl(h - l) <= 1e-18L * fabsl(h) + 1e-300L)) { std::printf("SELFTEST-MISMATCH %s %.21Lg %.21Lg\n", m.name, h, l); ++bad; }
      std::printf("TN %s %d", m.name, m.n);
      for (int i = 0; i < m.n; ++i) std::printf(" %.17g", m.a[i]);
      std::printf(" %.21Lg\n", h);
   }
   std::printf("SELFTEST-INTERNAL %s\n", bad ? "FAIL" : "OK");
   return bad ? 1 : 0;
}
