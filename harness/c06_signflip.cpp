// C06: invariance of all MSSM results under the joint sign flip of mu, M1, M2, M3 and all A_f.
#include "gen.hpp"
#include "gm2calc/gm2_1loop.hpp"
#include "gm2calc/gm2_2loop.hpp"
#include "gm2calc/gm2_uncertainty.hpp"
#include "MSSMNoFV/gm2_1loop_helpers.hpp"
#include "MSSMNoFV/gm2_2loop_helpers.hpp"
#include "gm2_ffunctions.hpp"

using namespace gm2calc;
using vh::J;
static vh::Out* out;

struct Q { std::string name; double v; int kind; };   // kind 0: a_mu-like (1L scale), 1: 1L sums (S1), 2: dimensionless, 3: mass

static std::vector<Q> observe(const MSSMNoFV_onshell& m, double& S1) {
   std::vector<Q> q;
   // sum of absolute one-loop terms (scale S1), from the library's own coupling arrays
   {
      const auto aan = AAN(m), bbn = BBN(m); const auto aac = AAC(m), bbc = BBC(m); const auto xim = x_im(m); const auto xk = x_k(m);
      const double mm = m.get_MM(), pre = mm * mm / (16 * M_PI * M_PI);
      double s = 0;
      for (int i = 0; i < 4; ++i) for (int k = 0; k < 2; ++k) {
         const double ms2 = m.get_MSm(k) * m.get_MSm(k);
         s += std::fabs(aan(i, k) * F1N(xim(i, k)) / (12 * ms2)) + std::fabs(m.get_MChi(i) * bbn(i, k) * F2N(xim(i, k)) / (6 * mm * ms2));
      }
      const double msv2 = m.get_MSvmL() * m.get_MSvmL();
      for (int k = 0; k < 2; ++k) s += (std::fabs(aac(k) * F1C(xk(k)) / 12) + std::fabs(m.get_MCha(k) * bbc(k) * F2C(xk(k)) / (3 * mm))) / msv2;
      S1 = s * pre;
      for (int i = 0; i < 4; ++i) for (int k = 0; k < 2; ++k) { q.push_back({"AAN(" + std::to_string(i) + "," + std::to_string(k) + ")", aan(i, k), 4}); q.push_back({"BBN(" + std::to_string(i) + "," + std::to_string(k) + ")", bbn(i, k), 4}); q.push_back({"x_im(" + std::to_string(i) + "," + std::to_string(k) + ")", xim(i, k), 3}); }
      for (int k = 0; k < 2; ++k) { q.push_back({"AAC(" + std::to_string(k) + ")", aac(k), 4}); q.push_back({"BBC(" + std::to_string(k) + ")", bbc(k), 4}); q.push_back({"x_k(" + std::to_string(k) + ")", xk(k), 3}); }
   }
#define A(n, e, k) q.push_back({n, e, k})
   A("amu_1loop", calculate_amu_1loop(m), 1); A("amu_1loop_non_tb_resummed", calculate_amu_1loop_non_tan_beta_resummed(m), 1);
   A("amu1LChi0", amu1LChi0(m), 1); A("amu1LChipm", amu1LChipm(m), 1);
   A("amu_2loop", calculate_amu_2loop(m), 0); A("amu_2loop_non_tb_resummed", calculate_amu_2loop_non_tan_beta_resummed(m), 0);
   A("amu2LFSfapprox", amu2LFSfapprox(m), 0); A("amu2LFSfapprox_non_tb_resummed", amu2LFSfapprox_non_tan_beta_resummed(m), 0);
   A("amu2LChipmPhotonic", amu2LChipmPhotonic(m), 1); A("amu2LChi0Photonic", amu2LChi0Photonic(m), 1);
   A("amu2LaSferm", amu2LaSferm(m), 0); A("amu2LaCha", amu2LaCha(m), 0);
   A("uncertainty_0loop", calculate_uncertainty_amu_0loop(m), 1); A("uncertainty_1loop", calculate_uncertainty_amu_1loop(m), 0); A("uncertainty_2loop", calculate_uncertainty_amu_2loop(m), 0);
   A("amu1Lapprox", amu1Lapprox(m), 1); A("amu1Lapprox_non_tb_resummed", amu1Lapprox_non_tan_beta_resummed(m), 1);
   A("amu1LWHnu", amu1LWHnu(m), 0); A("amu1LWHmuL", amu1LWHmuL(m), 0); A("amu1LBHmuL", amu1LBHmuL(m), 0); A("amu1LBHmuR", amu1LBHmuR(m), 0); A("amu1LBmuLmuR", amu1LBmuLmuR(m), 0);
   A("amu2LWHnu", amu2LWHnu(m), 0); A("amu2LWHmuL", amu2LWHmuL(m), 0); A("amu2LBHmuL", amu2LBHmuL(m), 0); A("amu2LBHmuR", amu2LBHmuR(m), 0); A("amu2LBmuLmuR", amu2LBmuLmuR(m), 0);
   A("delta_mu_correction", delta_mu_correction(m), 2); A("delta_tau_correction", delta_tau_correction(m), 2); A("delta_bottom_correction", delta_bottom_correction(m), 2);
   A("tan_beta_cor", tan_beta_cor(m), 2);
   A("log_scale", log_scale(m), 2); A("delta_g1", delta_g1(m), 2); A("delta_g2", delta_g2(m), 2); A("delta_yuk_higgsino", delta_yuk_higgsino(m), 2);
   A("delta_yuk_bino_higgsino", delta_yuk_bino_higgsino(m), 2); A("delta_yuk_wino_higgsino", delta_yuk_wino_higgsino(m), 2); A("delta_tan_beta", delta_tan_beta(m), 2);
   A("tan_alpha", tan_alpha(m), 2);
   for (int i = 0; i < 4; ++i) A("MChi(" + std::to_string(i) + ")", m.get_MChi(i), 3);
   for (int i = 0; i < 2; ++i) {
      const std::string s = "(" + std::to_string(i) + ")";
      A("MCha" + s, m.get_MCha(i), 3); A("MSm" + s, m.get_MSm(i), 3); A("MSe" + s, m.get_MSe(i), 3); A("MStau" + s, m.get_MStau(i), 3);
      A("MSu" + s, m.get_MSu(i), 3); A("MSd" + s, m.get_MSd(i), 3); A("MSc" + s, m.get_MSc(i), 3); A("MSs" + s, m.get_MSs(i), 3); A("MSt" + s, m.get_MSt(i), 3); A("MSb" + s, m.get_MSb(i), 3);
      A("Mhh" + s, m.get_Mhh(i), 3); A("MAh" + s, m.get_MAh(i), 3); A("MHpm" + s, m.get_MHpm(i), 3);
   }
   A("MSveL", m.get_MSveL(), 3); A("MSvmL", m.get_MSvmL(), 3); A("MSvtL", m.get_MSvtL(), 3); A("MGlu", m.get_MGlu(), 3);
   A("Ye(1,1)", m.get_Ye(1, 1), 3); A("Ye(2,2)", m.get_Ye(2, 2), 3); A("Yd(2,2)", m.get_Yd(2, 2), 3);
#undef A
   return q;
}

int main(int argc, char** argv) {
   vh::Args a(argc, argv);
   vh::Out o(a); out = &o;
   gen::CerrCapture cap;
   for (long i = a.first(); i < a.last(); ++i) {
      o.cur = i;
      vh::Rng r(a.seed, a.worker, i);
      ++o.evaluations;
      const bool lightsq = r.chance(0.3);
      gen::MssmPoint p = gen::rand_mssm(r, 100, r.chance(0.5) ? 1000 : 4000, 1.5, 80, lightsq ? 1.0 : 3.0);
      if (r.chance(0.2)) { p.Au[2] *= 3; p.Ad[2] *= 3; p.Ae[2] *= 3; }   // large third-generation mixing
      // extreme hierarchies: one to three mass parameters moved by up to 4 decades (decoupled gluino/squarks/higgsino, very light states)
      const bool hier = r.chance(0.3);
      if (hier) {
         double* q[] = {&p.mu, &p.m1, &p.m2, &p.m3, &p.ma, &p.ml[0], &p.ml[1], &p.ml[2], &p.me[0], &p.me[1], &p.me[2], &p.mq[0], &p.mq[1], &p.mq[2], &p.mU[0], &p.mU[1], &p.mU[2], &p.mD[0], &p.mD[1], &p.mD[2], &p.Ae[1], &p.Ae[2], &p.Au[2], &p.Ad[2], &p.Q};
         const int n = 1 + r.range(3);
         // (each parameter moved at most once and by at most 4 decades: the lightest eigenvalue of a mass matrix is determined to eps x (largest/smallest entry) only,
         //  which has to stay well below the 1e-9 of the property)
         bool used[25] = {false};
         for (int k = 0; k < n; ++k) { const int j = r.chance(0.3) ? 3 : r.range(25); if (used[j]) continue; used[j] = true; *q[j] *= r.chance(0.8) ? std::pow(10.0, r.U(1, 4)) : std::pow(10.0, -r.U(0.5, 1.5)); }
      }
      if (hier) {   // neutralino/chargino sector: eigenvalues are determined to eps x (largest/smallest parameter); keep that below 3e4 (3e-12 x O(10) against the 1e-9 of the property)
         double* g3[] = {&p.mu, &p.m1, &p.m2};
         double lo = 1e300; for (double* q : g3) lo = std::min(lo, std::fabs(*q));
         for (double* q : g3) if (std::fabs(*q) > 3e4 * lo) *q *= r.U(0.1, 1) * 3e4 * lo / std::fabs(*q);   // (each with its own factor: two parameters capped to the same value would be exactly degenerate, and the couplings of a degenerate pair are not defined)
      }
      // uniformly heavy spectra (all dimensionful parameters scaled by a common factor up to 30: multi-TeV gauginos and higgsinos with multi-TeV sfermions) -
      // the region where 'decoupled' / 'gaugeless' shortcuts of the resummation factors would be taken
      const bool heavy = !hier && r.chance(0.2);
      if (heavy) {
         const double k = r.LU(2, 30);
         double* q[] = {&p.mu, &p.m1, &p.m2, &p.m3, &p.ma, &p.Q, &p.ml[0], &p.ml[1], &p.ml[2], &p.me[0], &p.me[1], &p.me[2], &p.mq[0], &p.mq[1], &p.mq[2], &p.mU[0], &p.mU[1], &p.mU[2], &p.mD[0], &p.mD[1], &p.mD[2],
                        &p.Ae[0], &p.Ae[1], &p.Ae[2], &p.Au[0], &p.Au[1], &p.Au[2], &p.Ad[0], &p.Ad[1], &p.Ad[2]};
         for (double* x : q) *x *= k;
         o.count("pairs with a uniformly heavy spectrum (common factor 2..30)");
      }
      J c = p.json(); c.i("hierarchy", hier).i("heavy", heavy);
      try {
         // the flipped twin: a fresh object, a copy of the calculated original re-filled through the setters, or a long-lived object re-filled for every case (scan loop)
         const int twin = static_cast<int>(i % 3);
         static const char* const TWIN[3] = {"", "|twin=refilled-copy-of-original", "|twin=long-lived-object"};
         // the light fermion masses are zero by default and may be supplied (SMINPUTS 21-24, 11, 13 of an input file): half of the cases carry them, which
         // switches on the left-right mixing of the first two squark and slepton generations
         const bool lightm = r.chance(0.5);
         const double lm[5] = {0.0047 * r.U(0.5, 2), 0.0022 * r.U(0.5, 2), 0.096 * r.U(0.5, 2), 1.28 * r.U(0.5, 2), 0.000510998928 * r.U(0.5, 2)};
         auto sm_in = [&](MSSMNoFV_onshell& m) { if (lightm) { m.get_physical().MFd = lm[0]; m.get_physical().MFu = lm[1]; m.get_physical().MFs = lm[2]; m.get_physical().MFc = lm[3]; m.get_physical().MFe = lm[4]; } };
         auto make = [&](int flip) { MSSMNoFV_onshell m; sm_in(m); gen::fill_mssm(m, p, 1, flip); m.calculate_masses(); return m; };
         c.i("light_fermion_masses_given", lightm); o.count(lightm ? "pairs with light fermion masses given" : "pairs with default (zero) light quark masses");
         MSSMNoFV_onshell m1 = make(+1);
         static thread_local MSSMNoFV_onshell longlived;
         if (twin == 2) { sm_in(longlived); if (!lightm) { const MSSMNoFV_onshell def; longlived.get_physical().MFd = def.get_physical().MFd; longlived.get_physical().MFu = def.get_physical().MFu; longlived.get_physical().MFs = def.get_physical().MFs; longlived.get_physical().MFc = def.get_physical().MFc; longlived.get_physical().MFe = def.get_physical().MFe; } gen::fill_mssm(longlived, p, 1, +1); longlived.calculate_masses(); }   // (it holds the original point first, as a scan over sign choices would)
         MSSMNoFV_onshell m2 = twin == 0 ? make(-1) : (twin == 1 ? m1 : longlived);
         if (twin != 0) { m2.get_problems().clear(); gen::fill_mssm(m2, p, 1, -1); m2.calculate_masses(); if (twin == 2) longlived = m2; }
         c.str("twin", twin == 0 ? "fresh" : TWIN[twin] + 6);
         if (m1.get_problems().have_problem() || m2.get_problems().have_problem()) { ++o.inconclusive; o.count("problem-flagged"); continue; }
         double S1a = 0, S1b = 0;
         const std::vector<Q> q1 = observe(m1, S1a), q2 = observe(m2, S1b);
         const double S1 = std::max(S1a, S1b);
         ++o.conclusive;
         const std::string sg = std::string("sgn") + (p.mu > 0 ? "+" : "-") + (p.m1 > 0 ? "+" : "-") + (p.m2 > 0 ? "+" : "-") + (p.m3 > 0 ? "+" : "-") + (hier ? "|hierarchy" : "") + TWIN[twin];
         // arrays of couplings are compared on the scale of their largest entry
         double smax_aan = 0, smax_bbn = 0;
         for (size_t k = 0; k < q1.size(); ++k) if (q1[k].kind == 4) { double& s = (q1[k].name[0] == 'A') ? smax_aan : smax_bbn; s = std::max({s, std::fabs(q1[k].v), std::fabs(q2[k].v)}); }
         for (size_t k = 0; k < q1.size(); ++k) {
            const double x = q1[k].v, y = q2[k].v;
            double den = std::max(std::fabs(x), std::fabs(y));
            if (q1[k].kind == 1) den = std::max(den, S1);
            // the two-loop totals contain the photonic corrections, sum_i c_i x (one-loop term i) with |c_i| ~ 0.07: they inherit the rounding error of the one-loop terms
            // (observed up to 3e-11 S1 on ordinary points - loop-function branch borders - and eps x condition of the mass matrices x S1 on hierarchical ones), so their
            // error scale is 0.1 S1; the other two-loop pieces are compared on 1e-3 S1 (0.1 S1 for hierarchical points)
            else if (q1[k].kind == 0) den = std::max(den, ((hier || q1[k].name.compare(0, 9, "amu_2loop") == 0) ? 1e-1 : 1e-3) * S1);
            else if (q1[k].kind == 2) den = std::max(den, 1e-6);
            else if (q1[k].kind == 4) den = std::max(den, (q1[k].name[0] == 'A') ? smax_aan : smax_bbn);
            double e = vh::same_bits(x, y) ? 0 : std::fabs(x - y) / std::max(den, 1e-300);
            if (std::isnan(x) != std::isnan(y) || std::isinf(x) != std::isinf(y)) e = std::numeric_limits<double>::quiet_NaN();
            if (!std::isfinite(x) && vh::same_bits(x, y)) { o.count("nonfinite:" + q1[k].name); }
            const std::string base = q1[k].name.substr(0, q1[k].name.find('('));
            J w = c; w.str("quantity", q1[k].name).d("original", x).d("flipped", y).d("scale", den).d("err", e);
            o.cell(base + "|" + sg, e, &w);
            if (!(e <= 1e-9)) o.fail("C06:" + base, q1[k].name + " differs between original and sign-flipped point: " + vh::num(x) + " vs " + vh::num(y) + " (" + vh::num(e) + ")", w);
         }
         o.sample(c, 2);
      } catch (const Error&) { ++o.inconclusive; o.count("spectrum-failed"); }
   }
   o.finish();
   return 0;
}
