// Reads an input file with the library's own reader, builds the model exactly as the documented API sequence does
// and prints (as hex doubles) the filled parameters and every public calculate_* value and sub-contribution,
// for each (force-output, running-couplings) setting.  Used by C13 (reader reference model), C15 and C16.
// usage: api_dump --format slha|gm2calc|thdm --file F [--params 1] [--preload F0]
#include "vh.hpp"
#include "gm2_slha_io.hpp"
#include "gm2_config_options.hpp"
#include "gm2calc/MSSMNoFV_onshell.hpp"
#include "gm2calc/THDM.hpp"
#include "gm2calc/gm2_1loop.hpp"
#include "gm2calc/gm2_2loop.hpp"
#include "gm2calc/gm2_uncertainty.hpp"
#include "gm2calc/gm2_error.hpp"
#include "MSSMNoFV/gm2_1loop_helpers.hpp"
#include "MSSMNoFV/gm2_2loop_helpers.hpp"
#include "thdm_terms.hpp"
#include <cstdio>
#include <iostream>
#include <sstream>

using namespace gm2calc;

static void P(const std::string& n, double v) { std::printf("P %s %a\n", n.c_str(), v); }
static void V(const std::string& cfg, const std::string& n, double v) { std::printf("V %s %s %a\n", cfg.c_str(), n.c_str(), v); }
static std::string one_line(std::string s) { for (char& c : s) if (c == '\n') c = ' '; return s; }
static const char* err_class(const std::exception& e) {
   if (dynamic_cast<const EInvalidInput*>(&e)) return "EInvalidInput";
   if (dynamic_cast<const EPhysicalProblem*>(&e)) return "EPhysicalProblem";
   if (dynamic_cast<const EReadError*>(&e)) return "EReadError";
   if (dynamic_cast<const ESetupError*>(&e)) return "ESetupError";
   if (dynamic_cast<const Error*>(&e)) return "Error";
   return "std::exception";
}

static void dump_mssm_params(const MSSMNoFV_onshell& m) {
   P("scale", m.get_scale()); P("TB_vu/vd", m.get_vd() != 0 ? m.get_vu() / m.get_vd() : 0); P("Mu", m.get_Mu()); P("BMu", m.get_BMu()); P("MassB", m.get_MassB()); P("MassWB", m.get_MassWB()); P("MassG", m.get_MassG());
   P("mHd2", m.get_mHd2()); P("mHu2", m.get_mHu2()); P("g3", m.get_g3()); P("EL", m.get_EL()); P("EL0", m.get_EL0());
   for (int i = 0; i < 3; ++i) { const std::string k = "(" + std::to_string(i) + ")"; P("ml2" + k, m.get_ml2(i, i)); P("me2" + k, m.get_me2(i, i)); P("mq2" + k, m.get_mq2(i, i)); P("mu2" + k, m.get_mu2(i, i)); P("md2" + k, m.get_md2(i, i)); }
   for (int i = 0; i < 3; ++i) for (int j = 0; j < 3; ++j) { const std::string k = "(" + std::to_string(i) + "," + std::to_string(j) + ")"; P("Ae" + k, m.get_Ae(i, j)); P("Au" + k, m.get_Au(i, j)); P("Ad" + k, m.get_Ad(i, j)); }
   const auto& ph = m.get_physical();
   P("MVZ", ph.MVZ); P("MVWm", ph.MVWm); P("MFb", ph.MFb); P("MFt", ph.MFt); P("MFtau", ph.MFtau); P("MFe", ph.MFe); P("MFm", ph.MFm); P("MFd", ph.MFd); P("MFs", ph.MFs); P("MFu", ph.MFu); P("MFc", ph.MFc);
   P("MSveL", ph.MSveL); P("MSvmL", ph.MSvmL); P("MSvtL", ph.MSvtL); P("MGlu", ph.MGlu); P("MAh(1)", ph.MAh(1)); P("Mhh(0)", ph.Mhh(0)); P("Mhh(1)", ph.Mhh(1)); P("MHpm(1)", ph.MHpm(1));
   for (int i = 0; i < 2; ++i) { const std::string k = "(" + std::to_string(i) + ")"; P("MSd" + k, ph.MSd(i)); P("MSu" + k, ph.MSu(i)); P("MSe" + k, ph.MSe(i)); P("MSm" + k, ph.MSm(i)); P("MStau" + k, ph.MStau(i)); P("MSs" + k, ph.MSs(i)); P("MSc" + k, ph.MSc(i)); P("MSb" + k, ph.MSb(i)); P("MSt" + k, ph.MSt(i)); P("MCha" + k, ph.MCha(i)); }
   for (int i = 0; i < 4; ++i) P("MChi(" + std::to_string(i) + ")", ph.MChi(i));
   for (int i = 0; i < 4; ++i) for (int j = 0; j < 4; ++j) { P("ZN_re(" + std::to_string(i) + "," + std::to_string(j) + ")", ph.ZN(i, j).real()); P("ZN_im(" + std::to_string(i) + "," + std::to_string(j) + ")", ph.ZN(i, j).imag()); }
   for (int i = 0; i < 2; ++i) for (int j = 0; j < 2; ++j) P("ZM(" + std::to_string(i) + "," + std::to_string(j) + ")", ph.ZM(i, j));
}

static void dump_mssm_values(const std::string& cfg, const MSSMNoFV_onshell& m) {
   V(cfg, "amu1L", calculate_amu_1loop(m)); V(cfg, "amu2L", calculate_amu_2loop(m));
   V(cfg, "unc0", calculate_uncertainty_amu_0loop(m)); V(cfg, "unc1", calculate_uncertainty_amu_1loop(m)); V(cfg, "unc2", calculate_uncertainty_amu_2loop(m));
   V(cfg, "amu1LChi0", amu1LChi0(m)); V(cfg, "amu1LChipm", amu1LChipm(m)); V(cfg, "amu2LFSfapprox", amu2LFSfapprox(m)); V(cfg, "amu2LChipmPhotonic", amu2LChipmPhotonic(m)); V(cfg, "amu2LChi0Photonic", amu2LChi0Photonic(m));
   V(cfg, "amu2LaSferm", amu2LaSferm(m)); V(cfg, "amu2LaCha", amu2LaCha(m)); V(cfg, "tan_beta_cor", tan_beta_cor(m)); V(cfg, "amu1Lapprox", amu1Lapprox(m));
   V(cfg, "amu1LWHnu", amu1LWHnu(m)); V(cfg, "amu1LWHmuL", amu1LWHmuL(m)); V(cfg, "amu1LBHmuL", amu1LBHmuL(m)); V(cfg, "amu1LBHmuR", amu1LBHmuR(m)); V(cfg, "amu1LBmuLmuR", amu1LBmuLmuR(m));
   V(cfg, "amu2LWHnu", amu2LWHnu(m)); V(cfg, "amu2LWHmuL", amu2LWHmuL(m)); V(cfg, "amu2LBHmuL", amu2LBHmuL(m)); V(cfg, "amu2LBHmuR", amu2LBHmuR(m)); V(cfg, "amu2LBmuLmuR", amu2LBmuLmuR(m));
   // the non-resummed values can throw (spectrum with tree-level Yukawa): report how the detailed writer would see them
   try { MSSMNoFV_onshell t(m); t.do_force_output(false); V(cfg, "amu1L_non_tb_resummed", calculate_amu_1loop_non_tan_beta_resummed(t)); V(cfg, "amu2L_non_tb_resummed", calculate_amu_2loop_non_tan_beta_resummed(t)); }
   catch (const Error& e) { std::printf("X %s non_tb_resummed %s %s\n", cfg.c_str(), err_class(e), one_line(e.what()).c_str());
      MSSMNoFV_onshell t(m); t.do_force_output(true); V(cfg, "amu1L_non_tb_resummed_forced", calculate_amu_1loop_non_tan_beta_resummed(t)); V(cfg, "amu2L_non_tb_resummed_forced", calculate_amu_2loop_non_tan_beta_resummed(t)); }
   // as the minimal/SLHA writers call them (model's own force flag)
   try { V(cfg, "amu1L_non_tb_resummed_asis", calculate_amu_1loop_non_tan_beta_resummed(m)); V(cfg, "amu2L_non_tb_resummed_asis", calculate_amu_2loop_non_tan_beta_resummed(m)); }
   catch (const Error& e) { std::printf("X %s non_tb_resummed_asis %s %s\n", cfg.c_str(), err_class(e), one_line(e.what()).c_str()); }
   std::printf("F %s have_problem %d\nF %s have_warning %d\n", cfg.c_str(), m.get_problems().have_problem(), cfg.c_str(), m.get_problems().have_warning());
   std::printf("S %s problems %s\nS %s warnings %s\n", cfg.c_str(), one_line(m.get_problems().get_problems()).c_str(), cfg.c_str(), one_line(m.get_problems().get_warnings()).c_str());
}

static void dump_thdm_values(const std::string& cfg, const THDM& m) {
   V(cfg, "amu1L", calculate_amu_1loop(m)); V(cfg, "amu2L", calculate_amu_2loop(m)); V(cfg, "amu2L_B", calculate_amu_2loop_bosonic(m)); V(cfg, "amu2L_F", calculate_amu_2loop_fermionic(m));
   V(cfg, "unc0", calculate_uncertainty_amu_0loop(m)); V(cfg, "unc1", calculate_uncertainty_amu_1loop(m)); V(cfg, "unc2", calculate_uncertainty_amu_2loop(m));
   // sub-parts of the bosonic and fermionic two-loop contributions (helper boundary)
   const auto pb = tt::fill_B(m); const auto pf = tt::fill_F(m);
   V(cfg, "amu2L_B_EWadd", thdm::amu2L_B_EWadd(pb)); V(cfg, "amu2L_B_nonYuk", thdm::amu2L_B_nonYuk(pb)); V(cfg, "amu2L_B_Yuk", thdm::amu2L_B_Yuk(pb));
   V(cfg, "amu2L_F_neutral", thdm::amu2L_F_neutral(pf)); V(cfg, "amu2L_F_charged", thdm::amu2L_F_charged(pf));
   std::printf("F %s have_problem %d\nF %s have_warning %d\n", cfg.c_str(), m.get_problems().have_problem(), cfg.c_str(), m.get_problems().have_warning());
}

int main(int argc, char** argv) {
   vh::Args a(argc, argv);
   const std::string fmt = a.get("format"), file = a.get("file");
   const bool params = a.getd("params", 0) != 0;
   // library warnings/errors go to stderr: keep them out of stdout, but report them per configuration
   GM2_slha_io io;
   // --preload F0: the same reader object has read another file before (a driver looping over files)
   const std::string preload = a.get("preload", "");
   if (!preload.empty()) { try { io.read_from_source(preload); MSSMNoFV_onshell tmp; if (fmt == "slha") io.fill_slha(tmp); else if (fmt == "gm2calc") io.fill_gm2calc(tmp); } catch (const std::exception&) {} }
   try { io.read_from_source(file); } catch (const std::exception& e) { std::printf("E read %s %s\n", err_class(e), one_line(e.what()).c_str()); return 0; }
   if (fmt == "slha" || fmt == "gm2calc") {
      if (params) {
         try { MSSMNoFV_onshell m; if (fmt == "slha") io.fill_slha(m); else io.fill_gm2calc(m); dump_mssm_params(m); }
         catch (const std::exception& e) { std::printf("E params %s %s\n", err_class(e), one_line(e.what()).c_str()); }
      }
      for (int force = 0; force < 2; ++force) {
         const std::string cfg = "force=" + std::to_string(force);
         std::stringstream err; std::streambuf* old = std::cerr.rdbuf(err.rdbuf());
         try {
            MSSMNoFV_onshell m; m.do_force_output(force); m.set_verbose_output(false);
            if (fmt == "slha") { io.fill_slha(m); m.convert_to_onshell(); } else { io.fill_gm2calc(m); m.calculate_masses(); }
            dump_mssm_values(cfg, m);
         } catch (const std::exception& e) { std::printf("E %s %s %s\n", cfg.c_str(), err_class(e), one_line(e.what()).c_str()); }
         std::cerr.rdbuf(old);
         std::printf("W %s %s\n", cfg.c_str(), one_line(err.str()).c_str());
      }
   } else {
      if (params) {
         try {
            SM sm; thdm::Mass_basis mb; thdm::Gauge_basis gb; io.fill(sm); io.fill(mb); io.fill(gb);
            P("alpha_em_mz", sm.get_alpha_em_mz()); P("alpha_s_mz", sm.get_alpha_s_mz()); P("mz", sm.get_mz()); P("mw", sm.get_mw()); P("mh", sm.get_mh());
            for (int i = 0; i < 3; ++i) { const std::string k = "(" + std::to_string(i) + ")"; P("sm_mu" + k, sm.get_mu(i)); P("sm_md" + k, sm.get_md(i)); P("sm_ml" + k, sm.get_ml(i)); P("sm_mv" + k, sm.get_mv(i)); }
            for (int i = 0; i < 3; ++i) for (int j = 0; j < 3; ++j) { P("ckm_re(" + std::to_string(i) + "," + std::to_string(j) + ")", sm.get_ckm(i, j).real()); P("ckm_im(" + std::to_string(i) + "," + std::to_string(j) + ")", sm.get_ckm(i, j).imag()); }
            P("mb.type", static_cast<int>(mb.yukawa_type)); P("mb.mh", mb.mh); P("mb.mH", mb.mH); P("mb.mA", mb.mA); P("mb.mHp", mb.mHp); P("mb.sba", mb.sin_beta_minus_alpha); P("mb.lambda_6", mb.lambda_6); P("mb.lambda_7", mb.lambda_7);
            P("mb.tan_beta", mb.tan_beta); P("mb.m122", mb.m122); P("mb.zeta_u", mb.zeta_u); P("mb.zeta_d", mb.zeta_d); P("mb.zeta_l", mb.zeta_l);
            P("gb.type", static_cast<int>(gb.yukawa_type)); for (int i = 0; i < 7; ++i) P("gb.lambda(" + std::to_string(i) + ")", gb.lambda(i)); P("gb.tan_beta", gb.tan_beta); P("gb.m122", gb.m122); P("gb.zeta_u", gb.zeta_u); P("gb.zeta_d", gb.zeta_d); P("gb.zeta_l", gb.zeta_l);
            const Eigen::Matrix<double, 3, 3>* ms[12] = {&mb.Delta_u, &mb.Delta_d, &mb.Delta_l, &mb.Pi_u, &mb.Pi_d, &mb.Pi_l, &gb.Delta_u, &gb.Delta_d, &gb.Delta_l, &gb.Pi_u, &gb.Pi_d, &gb.Pi_l};
            const char* mn[12] = {"mb.Delta_u", "mb.Delta_d", "mb.Delta_l", "mb.Pi_u", "mb.Pi_d", "mb.Pi_l", "gb.Delta_u", "gb.Delta_d", "gb.Delta_l", "gb.Pi_u", "gb.Pi_d", "gb.Pi_l"};
            for (int k = 0; k < 12; ++k) for (int i = 0; i < 3; ++i) for (int j = 0; j < 3; ++j) P(std::string(mn[k]) + "(" + std::to_string(i) + "," + std::to_string(j) + ")", (*ms[k])(i, j));
         } catch (const std::exception& e) { std::printf("E params %s %s\n", err_class(e), one_line(e.what()).c_str()); }
      }
      for (int force = 0; force < 2; ++force) for (int running = 0; running < 2; ++running) {
         const std::string cfg = "force=" + std::to_string(force) + ",running=" + std::to_string(running);
         std::stringstream err; std::streambuf* old = std::cerr.rdbuf(err.rdbuf());
         try {
            SM sm; thdm::Mass_basis mb; thdm::Gauge_basis gb; io.fill(sm); io.fill(mb); io.fill(gb);
            thdm::Config c; c.force_output = force; c.running_couplings = running;
            const bool mass_set = mb.mh != 0 || mb.mH != 0 || mb.mA != 0 || mb.mHp != 0 || mb.sin_beta_minus_alpha != 0;
            const bool gauge_set = gb.lambda.head<5>().cwiseAbs().maxCoeff() != 0;
            if (mass_set && !gauge_set) { THDM m(mb, sm, c); dump_thdm_values(cfg, m); }
            else if (!mass_set && gauge_set) { THDM m(gb, sm, c); dump_thdm_values(cfg, m); }
            else std::printf("E %s EInvalidInput Cannot distinguish between mass and gauge basis.\n", cfg.c_str());
         } catch (const std::exception& e) { std::printf("E %s %s %s\n", cfg.c_str(), err_class(e), one_line(e.what()).c_str()); }
         std::cerr.rdbuf(old);
         std::printf("W %s %s\n", cfg.c_str(), one_line(err.str()).c_str());
      }
   }
   return 0;
}
