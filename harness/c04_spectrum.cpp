// C04: MSSM tree-level spectrum against independently written mass matrices.
#include "gm2calc/MSSMNoFV_onshell_mass_eigenstates.hpp"
#include "vh.hpp"
#include <Eigen/Eigenvalues>
#include <complex>
#include <iostream>
#include <set>
#include <sstream>

using namespace gm2calc;
using vh::J;
typedef Eigen::Matrix<double, 2, 2> M2;
typedef Eigen::Matrix<double, 3, 3> M3;
typedef Eigen::Matrix<double, 4, 4> M4;
typedef std::complex<double> cd;
typedef Eigen::Array<double, 2, 1> A2;
static vh::Out* out;

struct Par {
   double g1, g2, vd, vu, mu, Bmu, M1, MW2, M3g;
   double Yu[3], Yd[3], Ye[3], Tu[3], Td[3], Te[3], mq2[3], mu2[3], md2[3], ml2[3], me2[3];
   J json() const {
      J j; j.d("g1", g1).d("g2", g2).d("vd", vd).d("vu", vu).d("mu", mu).d("Bmu", Bmu).d("M1", M1).d("M2", MW2).d("M3", M3g);
      j.arr("Yu", Yu, Yu + 3).arr("Yd", Yd, Yd + 3).arr("Ye", Ye, Ye + 3).arr("Tu", Tu, Tu + 3).arr("Td", Td, Td + 3).arr("Te", Te, Te + 3);
      j.arr("mq2", mq2, mq2 + 3).arr("mu2", mu2, mu2 + 3).arr("md2", md2, md2 + 3).arr("ml2", ml2, ml2 + 3).arr("me2", me2, me2 + 3);
      return j;
   }
};

static Par gen(vh::Rng& r) {
   Par p;
   p.g1 = r.U(0.3, 0.6); p.g2 = r.U(0.5, 0.8);
   const double v = 246.0 * r.U(0.9, 1.1), tb = r.LU(0.5, 200);
   p.vd = v / std::sqrt(1 + tb * tb); p.vu = p.vd * tb;
   const bool hier = r.chance(0.3), degen = r.chance(0.15);
   const double lo = hier ? 50 : 100, hi = hier ? 1e5 : 5000;
   p.mu = r.sign() * r.LU(lo, hi); p.Bmu = (r.chance(0.2) ? -1 : 1) * r.LU(1e3, 1e8);
   p.M1 = r.sign() * r.LU(lo, hi); p.MW2 = r.sign() * r.LU(lo, hi); p.M3g = r.sign() * r.LU(lo, hi);
   if (degen) { const int k = r.range(3); if (k == 0) p.M1 = p.MW2; else if (k == 1) p.mu = p.MW2; else p.M1 = -p.MW2; }
   const double ptach = r.chance(0.5) ? 0.0 : 0.12;   // steer about half of the points into tachyonic soft masses
   for (int i = 0; i < 3; ++i) {
      p.Yu[i] = r.LU(1e-5, 1.2); p.Yd[i] = r.LU(1e-5, 1.5); p.Ye[i] = r.LU(1e-6, 1.0);
      // a real Yukawa coupling may be negative (the resummed y_b = sqrt2 m_b/(v_d (1 + Delta_b)) is, for large tan(beta) and mu M3 < 0): the mass is its modulus
      if (r.chance(0.25)) p.Yu[i] = -p.Yu[i]; if (r.chance(0.25)) p.Yd[i] = -p.Yd[i]; if (r.chance(0.25)) p.Ye[i] = -p.Ye[i];
      const double A = r.chance(0.2) ? 3e4 : 3000;   // large trilinears push the lighter sfermion tachyonic
      p.Tu[i] = r.U(-1, 1) * A * p.Yu[i]; p.Td[i] = r.U(-1, 1) * A * p.Yd[i]; p.Te[i] = r.U(-1, 1) * A * p.Ye[i];
      auto sq = [&]() { double x = r.LU(lo, hi); return (r.chance(ptach) ? -1 : 1) * x * x; };
      p.mq2[i] = sq(); p.mu2[i] = sq(); p.md2[i] = sq(); p.ml2[i] = sq(); p.me2[i] = sq();
      if (degen && r.chance(0.5)) p.me2[i] = p.ml2[i];
   }
   return p;
}

static void fill(MSSMNoFV_onshell_mass_eigenstates& m, const Par& p, double mHd2, double mHu2) {
   m.set_g1(p.g1); m.set_g2(p.g2); m.set_g3(1.2); m.set_vd(p.vd); m.set_vu(p.vu); m.set_Mu(p.mu); m.set_BMu(p.Bmu);
   m.set_MassB(p.M1); m.set_MassWB(p.MW2); m.set_MassG(p.M3g);
   M3 Yu = M3::Zero(), Yd = M3::Zero(), Ye = M3::Zero(), Tu = M3::Zero(), Td = M3::Zero(), Te = M3::Zero(), mq2 = M3::Zero(), mu2 = M3::Zero(), md2 = M3::Zero(), ml2 = M3::Zero(), me2 = M3::Zero();
   for (int i = 0; i < 3; ++i) { Yu(i, i) = p.Yu[i]; Yd(i, i) = p.Yd[i]; Ye(i, i) = p.Ye[i]; Tu(i, i) = p.Tu[i]; Td(i, i) = p.Td[i]; Te(i, i) = p.Te[i];
      mq2(i, i) = p.mq2[i]; mu2(i, i) = p.mu2[i]; md2(i, i) = p.md2[i]; ml2(i, i) = p.ml2[i]; me2(i, i) = p.me2[i]; }
   m.set_Yu(Yu); m.set_Yd(Yd); m.set_Ye(Ye); m.set_TYu(Tu); m.set_TYd(Td); m.set_TYe(Te);
   m.set_mq2(mq2); m.set_mu2(mu2); m.set_md2(md2); m.set_ml2(ml2); m.set_me2(me2); m.set_mHd2(mHd2); m.set_mHu2(mHu2);
}

struct Verdict { const J* c; std::string sector; };
static void clause(const std::string& sector, const std::string& what, double err, double tol, const J& c) {
   J w = c; w.str("sector", sector).str("clause", what).d("err", err).d("tol", tol);
   out->cell(sector + "|" + what, err, &w);
   if (!(err <= tol)) out->fail("C04:" + sector + ":" + what, sector + " " + what + ": " + vh::num(err) + " > " + vh::num(tol), w);
}

// real 2x2 sector with m^2 eigenvalues: Z M Z^T = diag(+-m^2), |.| ordering
static double lowest2(const M2& R) { Eigen::SelfAdjointEigenSolver<M2> es(R); return es.eigenvalues()(0); }
static void sector2(const std::string& name, const M2& R, const A2& ms, const M2& Z, double extra_scale, const J& c, bool ordered = true) {
   const double nrm = R.norm() + extra_scale;
   const M2 D = Z * R * Z.transpose();
   const double off = std::fabs(D(0, 1)) / nrm, d0 = std::fabs(std::fabs(D(0, 0)) - ms(0) * ms(0)) / nrm, d1 = std::fabs(std::fabs(D(1, 1)) - ms(1) * ms(1)) / nrm;
   clause(name, "reconstruction", std::max({off, d0, d1, std::fabs(D(1, 0)) / nrm}), 1e-10, c);
   clause(name, "unitarity", (Z * Z.transpose() - M2::Identity()).norm(), 1e-12, c);
   if (ordered) clause(name, "nonnegative-ordered", (ms(0) >= 0 && ms(1) >= 0 && ms(0) <= ms(1)) ? 0 : 1, 0, c);
   else clause(name, "nonnegative", (ms(0) >= 0 && ms(1) >= 0) ? 0 : 1, 0, c);   // Goldstone mode first, whatever the physical mass
}

static std::set<std::string> parse_tachyons(const std::string& probs) {
   std::set<std::string> got;
   std::string s = probs; const std::string pre = "Problem: ";
   if (s.compare(0, pre.size(), pre) == 0) s = s.substr(pre.size());
   std::stringstream ss(s); std::string tok;
   while (std::getline(ss, tok, ',')) {
      size_t a = tok.find_first_not_of(' '), b = tok.find(" tachyon");
      if (a != std::string::npos && b != std::string::npos) got.insert(tok.substr(a, b - a));
   }
   return got;
}

static void one(vh::Rng& r) {
   const Par p = gen(r);
   const J c = p.json();
   const double mHd2_in = r.U(-1e6, 1e6), mHu2_in = r.U(-1e6, 1e6);
   // one case in three on a long-lived object that carries the spectrum (and problem flags) of the previous cases: everything reported must refer to the current parameters
   static thread_local MSSMNoFV_onshell_mass_eigenstates longlived;
   const bool reuse = out->cur % 3 == 2;
   MSSMNoFV_onshell_mass_eigenstates fresh_obj;
   MSSMNoFV_onshell_mass_eigenstates& m = reuse ? longlived : fresh_obj;
   fill(m, p, mHd2_in, mHu2_in);
   m.get_problems().clear();   // flags are sticky at this level by design: MSSMNoFV_onshell::calculate_masses() clears them before calculate_DRbar_masses(), as done here
   m.calculate_DRbar_masses();
   if (reuse) out->count("cases on the re-used long-lived object");
   ++out->conclusive;
   // soft Higgs masses are an output of the internal EWSB solution and must be restored
   clause("EWSB", "mHd2-mHu2-restored", (vh::same_bits(m.get_mHd2(), mHd2_in) && vh::same_bits(m.get_mHu2(), mHu2_in)) ? 0 : 1, 0, c);

   const double gp2 = 0.6 * p.g1 * p.g1, g22 = p.g2 * p.g2, dv = p.vd * p.vd - p.vu * p.vu, s2 = std::sqrt(2.0), v2 = p.vd * p.vd + p.vu * p.vu;
   std::set<std::string> exp_tach, amb;
   auto DL = [&](double T3, double Q) { return 0.25 * dv * (T3 * g22 - (Q - T3) * gp2); };
   auto DR = [&](double Q) { return 0.25 * dv * Q * gp2; };
   auto sfermion = [&](double mLL, double mRR, double yf, double Tf, bool up, double T3, double Q, const A2& ms, const M2& Z, const char* nm, bool monitored) {
      const double vf = up ? p.vu : p.vd, vo = up ? p.vd : p.vu;
      M2 R; R(0, 0) = mLL + 0.5 * yf * yf * vf * vf + DL(T3, Q); R(1, 1) = mRR + 0.5 * yf * yf * vf * vf + DR(Q); R(0, 1) = R(1, 0) = (vf * Tf - vo * yf * p.mu) / s2;
      sector2(nm, R, ms, Z, 0, c);
      if (monitored) { const double lo = lowest2(R); if (std::fabs(lo) < 1e-9 * R.norm()) amb.insert(nm); else if (lo < 0) exp_tach.insert(nm); }
   };
   const A2* MSd[3] = {&m.get_MSd(), &m.get_MSs(), &m.get_MSb()}; const M2* ZD[3] = {&m.get_ZD(), &m.get_ZS(), &m.get_ZB()};
   const A2* MSu[3] = {&m.get_MSu(), &m.get_MSc(), &m.get_MSt()}; const M2* ZU[3] = {&m.get_ZU(), &m.get_ZC(), &m.get_ZT()};
   const A2* MSe[3] = {&m.get_MSe(), &m.get_MSm(), &m.get_MStau()}; const M2* ZE[3] = {&m.get_ZE(), &m.get_ZM(), &m.get_ZTau()};
   const char* nd[3] = {"Sd", "Ss", "Sb"}; const char* nu[3] = {"Su", "Sc", "St"}; const char* ne[3] = {"Se", "Sm", "Stau"}; const char* nv[3] = {"SveL", "SvmL", "SvtL"};
   const double msv[3] = {m.get_MSveL(), m.get_MSvmL(), m.get_MSvtL()};
   for (int i = 0; i < 3; ++i) {
      sfermion(p.mq2[i], p.md2[i], p.Yd[i], p.Td[i], false, -0.5, -1. / 3, *MSd[i], *ZD[i], nd[i], i == 2);
      sfermion(p.mq2[i], p.mu2[i], p.Yu[i], p.Tu[i], true, 0.5, 2. / 3, *MSu[i], *ZU[i], nu[i], i == 2);
      sfermion(p.ml2[i], p.me2[i], p.Ye[i], p.Te[i], false, -0.5, -1., *MSe[i], *ZE[i], ne[i], i >= 1);
      const double sv2 = p.ml2[i] + DL(0.5, 0);
      clause(nv[i], "reconstruction", std::fabs(std::fabs(sv2) - msv[i] * msv[i]) / (std::fabs(p.ml2[i]) + std::fabs(DL(0.5, 0))), 1e-10, c);
      if (i == 1) { if (std::fabs(sv2) < 1e-9 * (std::fabs(p.ml2[i]) + std::fabs(DL(0.5, 0)))) amb.insert("SvmL"); else if (sv2 < 0) exp_tach.insert("SvmL"); }
   }
   // gauge bosons and fermions
   const double MZ2 = 0.25 * (g22 + gp2) * v2, MW2s = 0.25 * g22 * v2;
   clause("VZ", "mass", std::fabs(m.get_MVZ() - std::sqrt(MZ2)) / std::sqrt(MZ2), 1e-12, c);
   clause("VWm", "mass", std::fabs(m.get_MVWm() - std::sqrt(MW2s)) / std::sqrt(MW2s), 1e-12, c);
   const double mf[9] = {m.get_MFd(), m.get_MFs(), m.get_MFb(), m.get_MFu(), m.get_MFc(), m.get_MFt(), m.get_MFe(), m.get_MFm(), m.get_MFtau()};
   double ferr = 0;
   for (int i = 0; i < 3; ++i) { const double rd = std::fabs(p.Yd[i]) * p.vd / s2, ru = std::fabs(p.Yu[i]) * p.vu / s2, re = std::fabs(p.Ye[i]) * p.vd / s2;
      ferr = std::max({ferr, std::fabs(mf[i] - rd) / rd, std::fabs(mf[3 + i] - ru) / ru, std::fabs(mf[6 + i] - re) / re}); }
   clause("fermions", "mass=|y| v/sqrt2", ferr, 1e-12, c);
   // Higgs sectors from the harness's own tree-level EWSB: mA^2 = Bmu/(sb cb)
   const double sb = p.vu / std::sqrt(v2), cb = p.vd / std::sqrt(v2), mA2 = p.Bmu / (sb * cb), mu2s = p.mu * p.mu;
   M2 P; P << sb * sb, sb * cb, sb * cb, cb * cb; M2 G; G << cb * cb, -sb * cb, -sb * cb, sb * sb;
   const M2 RA = mA2 * P + MZ2 * G, RC = (mA2 + MW2s) * P + MW2s * G;
   M2 RH; RH << mA2 * sb * sb + MZ2 * cb * cb, -(mA2 + MZ2) * sb * cb, -(mA2 + MZ2) * sb * cb, mA2 * cb * cb + MZ2 * sb * sb;
   sector2("Ah", RA, m.get_MAh(), m.get_ZA(), mu2s, c, false); sector2("Hpm", RC, m.get_MHpm(), m.get_ZP(), mu2s, c, false); sector2("hh", RH, m.get_Mhh(), m.get_ZH(), mu2s, c);
   const double hscale = std::fabs(mA2) + MZ2 + mu2s;
   bool higgs_ok = true;
   if (std::fabs(mA2) < 1e-9 * hscale) { amb.insert("Ah"); higgs_ok = false; } else if (mA2 < 0) { exp_tach.insert("Ah"); higgs_ok = false; }
   if (std::fabs(mA2 + MW2s) < 1e-9 * hscale) { amb.insert("Hpm"); higgs_ok = false; } else if (mA2 + MW2s < 0) { exp_tach.insert("Hpm"); higgs_ok = false; }
   { const double lo = lowest2(RH); if (std::fabs(lo) < 1e-9 * (RH.norm() + mu2s)) { amb.insert("hh"); higgs_ok = false; } else if (lo < 0) { exp_tach.insert("hh"); higgs_ok = false; } }
   // Goldstone modes at index 0 with masses MZ, MW (the ordering convention; meaningful when the physical state is not degenerate with it)
   if (higgs_ok) {
      clause("Ah", "goldstone-at-0", std::fabs(m.get_MAh(0) - std::sqrt(MZ2)) / std::sqrt(MZ2), 1e-9 * (1 + hscale / MZ2), c);
      clause("Hpm", "goldstone-at-0", std::fabs(m.get_MHpm(0) - std::sqrt(MW2s)) / std::sqrt(MW2s), 1e-9 * (1 + hscale / MW2s), c);
      const double mA = m.get_MAh(1), mHp = m.get_MHpm(1), mh = m.get_Mhh(0), mH = m.get_Mhh(1);
      clause("identity", "mHp2=mA2+mW2", std::fabs(mHp * mHp - (mA * mA + MW2s)) / hscale, 1e-9, c);
      clause("identity", "mh2+mH2=mA2+mZ2", std::fabs(mh * mh + mH * mH - (mA * mA + MZ2)) / hscale, 1e-9, c);
      clause("identity", "mA2=Bmu/(sb cb)", std::fabs(mA * mA - mA2) / hscale, 1e-9, c);
      // the dedicated getters of the physical states (the Goldstone mode removed)
      { const double gA = m.get_MPseudoscalarHiggs()(0), gHp = m.get_MChargedHiggs()(0);
        clause("getter", "get_MPseudoscalarHiggs=mA", std::fabs(gA * gA - mA2) / hscale, 1e-9, c);
        clause("getter", "get_MChargedHiggs=mHp", std::fabs(gHp * gHp - (mA2 + MW2s)) / hscale, 1e-9, c); }
   } else out->count("higgs-tachyonic-or-ambiguous");
   // gluino and the massless states
   clause("getter", "get_MGlu=|M3|", std::fabs(m.get_MGlu() - std::fabs(p.M3g)) / std::fabs(p.M3g), 1e-15, c);
   clause("getter", "MGlu*PhaseGlu^2=M3", std::abs(m.get_PhaseGlu() * m.get_PhaseGlu() * m.get_MGlu() - cd(p.M3g, 0.0)) / std::fabs(p.M3g), 1e-15, c);   // convention: M3 = |M3| e^(2 i phi)
   clause("getter", "massless(VG,VP,Fv)", std::max({std::fabs(m.get_MVG()), std::fabs(m.get_MVP()), std::fabs(m.get_MFve()), std::fabs(m.get_MFvm()), std::fabs(m.get_MFvt())}), 0, c);
   // neutralino: ZN^* M ZN^+ = diag(MChi), M = ZN^T diag ZN
   {
      const double gY = std::sqrt(gp2), g2 = p.g2;
      M4 N; N << p.M1, 0, -0.5 * gY * p.vd, 0.5 * gY * p.vu, 0, p.MW2, 0.5 * g2 * p.vd, -0.5 * g2 * p.vu, -0.5 * gY * p.vd, 0.5 * g2 * p.vd, 0, -p.mu, 0.5 * gY * p.vu, -0.5 * g2 * p.vu, -p.mu, 0;
      const Eigen::Matrix<cd, 4, 4>& ZN = m.get_ZN();
      const Eigen::Array<double, 4, 1>& mc = m.get_MChi();
      const double nrm = N.norm();
      clause("Chi", "reconstruction", (ZN.transpose() * mc.matrix().cast<cd>().asDiagonal() * ZN - N.cast<cd>()).norm() / nrm, 1e-10, c);
      clause("Chi", "unitarity", (ZN * ZN.adjoint() - Eigen::Matrix<cd, 4, 4>::Identity()).norm(), 1e-12, c);
      bool ord = true; for (int i = 0; i < 4; ++i) { if (!(mc(i) >= 0)) ord = false; if (i < 3 && !(mc(i) <= mc(i + 1))) ord = false; }
      clause("Chi", "nonnegative-ordered", ord ? 0 : 1, 0, c);
      // trace of M^2 and |det M| from the harness's own matrix
      const double tr2 = (N * N).trace();
      clause("Chi", "trace-identity", std::fabs(mc.square().sum() - tr2) / tr2, 1e-10, c);
      const double det = std::fabs(N.determinant()), prod = mc.prod();
      const double dscale = std::pow(nrm / 2, 4);
      clause("Chi", "determinant-identity", std::fabs(prod - det) / std::max(det, dscale * 1e-6), 1e-8, c);
   }
   // chargino: X = UM^T diag(MCha) UP
   {
      M2 X; X << p.MW2, p.g2 * p.vu / s2, p.g2 * p.vd / s2, p.mu;
      const Eigen::Matrix<cd, 2, 2>&UM = m.get_UM(), &UP = m.get_UP();
      const A2& mc = m.get_MCha();
      clause("Cha", "reconstruction", (UM.transpose() * mc.matrix().cast<cd>().asDiagonal() * UP - X.cast<cd>()).norm() / X.norm(), 1e-10, c);
      clause("Cha", "unitarity", std::max((UM * UM.adjoint() - Eigen::Matrix<cd, 2, 2>::Identity()).norm(), (UP * UP.adjoint() - Eigen::Matrix<cd, 2, 2>::Identity()).norm()), 1e-12, c);
      clause("Cha", "nonnegative-ordered", (mc(0) >= 0 && mc(0) <= mc(1)) ? 0 : 1, 0, c);
      const double mw2 = 0.5 * g22 * v2 / 2;   // MW^2 = g2^2 v^2/4
      const double sum = p.MW2 * p.MW2 + p.mu * p.mu + 2 * mw2, s2b = 2 * sb * cb;
      clause("Cha", "trace-identity", std::fabs(mc(0) * mc(0) + mc(1) * mc(1) - sum) / sum, 1e-10, c);
      clause("Cha", "determinant-identity", std::fabs(mc(0) * mc(1) - std::fabs(p.MW2 * p.mu - mw2 * s2b)) / sum, 1e-10, c);
      // "massless lightest chargino" is one of the documented untreatable inputs (C16), not checked here
   }
   // tachyon flags iff negative squared mass in a monitored sector
   {
      std::set<std::string> got = parse_tachyons(m.get_problems().get_problems());
      for (auto& g : got) out->count("tachyon-flag-seen:" + g);
      for (auto& e : exp_tach) out->count("tachyon-expected:" + e);
      std::set<std::string> e1 = exp_tach, g1 = got;
      for (auto& a : amb) { e1.erase(a); g1.erase(a); }
      if (!amb.empty()) out->count("tachyon-ambiguous(|lambda_min|<1e-9)");
      std::string es, gs; for (auto& x : e1) es += x + " "; for (auto& x : g1) gs += x + " ";
      J w = c; w.str("expected", es).str("flagged", gs);
      if (e1.empty() && g1.empty()) out->cell("tachyon-flags|none", 0, &w);
      for (const char* k : {"Sm", "Stau", "St", "Sb", "SvmL", "hh", "Ah", "Hpm"}) if (e1.count(k) || g1.count(k)) out->cell(std::string("tachyon-flags|") + k, e1.count(k) == g1.count(k) ? 0 : 1, &w);
      if (e1 != g1) {
         std::string sec = "?"; for (auto& x : e1) if (!g1.count(x)) { sec = x + ":missing"; break; }
         if (sec == "?") for (auto& x : g1) if (!e1.count(x)) { sec = x + ":spurious"; break; }
         out->fail("C04:tachyon-flag:" + sec, "expected tachyons {" + es + "} flagged {" + gs + "}", w);
      }
      clause("problems", "have_tachyon-consistent", (m.get_problems().have_tachyon() == !got.empty()) ? 0 : 1, 0, c);
   }
   // generation exchange: swap all generation-i and -j parameters => sfermion spectra swap bit-exactly
   if (r.chance(0.5)) {
      const int i = r.range(3), j = (i + 1 + r.range(2)) % 3;
      Par q = p;
      std::swap(q.Yu[i], q.Yu[j]); std::swap(q.Yd[i], q.Yd[j]); std::swap(q.Ye[i], q.Ye[j]); std::swap(q.Tu[i], q.Tu[j]); std::swap(q.Td[i], q.Td[j]); std::swap(q.Te[i], q.Te[j]);
      std::swap(q.mq2[i], q.mq2[j]); std::swap(q.mu2[i], q.mu2[j]); std::swap(q.md2[i], q.md2[j]); std::swap(q.ml2[i], q.ml2[j]); std::swap(q.me2[i], q.me2[j]);
      MSSMNoFV_onshell_mass_eigenstates n; fill(n, q, mHd2_in, mHu2_in); n.calculate_DRbar_masses();
      const A2* nMSd[3] = {&n.get_MSd(), &n.get_MSs(), &n.get_MSb()}; const M2* nZD[3] = {&n.get_ZD(), &n.get_ZS(), &n.get_ZB()};
      const A2* nMSu[3] = {&n.get_MSu(), &n.get_MSc(), &n.get_MSt()}; const M2* nZU[3] = {&n.get_ZU(), &n.get_ZC(), &n.get_ZT()};
      const A2* nMSe[3] = {&n.get_MSe(), &n.get_MSm(), &n.get_MStau()}; const M2* nZE[3] = {&n.get_ZE(), &n.get_ZM(), &n.get_ZTau()};
      const double nsv[3] = {n.get_MSveL(), n.get_MSvmL(), n.get_MSvtL()};
      auto same2 = [](const A2& a, const A2& b) { return vh::same_bits(a(0), b(0)) && vh::same_bits(a(1), b(1)); };
      auto sameM = [](const M2& a, const M2& b) { for (int k = 0; k < 4; ++k) if (!vh::same_bits(a.data()[k], b.data()[k])) return false; return true; };
      bool ok = true;
      for (int a = 0; a < 3; ++a) {
         const int b = a == i ? j : (a == j ? i : a);
         ok = ok && same2(*MSd[a], *nMSd[b]) && same2(*MSu[a], *nMSu[b]) && same2(*MSe[a], *nMSe[b]) && sameM(*ZD[a], *nZD[b]) && sameM(*ZU[a], *nZU[b]) && sameM(*ZE[a], *nZE[b]) && vh::same_bits(msv[a], nsv[b]);
      }
      J w = c; w.i("gen_i", i).i("gen_j", j);
      out->cell("generation-exchange|" + std::to_string(std::min(i, j)) + std::to_string(std::max(i, j)), ok ? 0 : 1, &w);
      if (!ok) out->fail("C04:generation-exchange", "exchanging generations " + std::to_string(i) + " and " + std::to_string(j) + " does not exchange the sfermion spectra bit-exactly", w);
   }
}

int main(int argc, char** argv) {
   vh::Args a(argc, argv);
   vh::Out o(a); out = &o;
   std::stringstream err; std::streambuf* old = std::cerr.rdbuf(err.rdbuf());
   for (long i = a.first(); i < a.last(); ++i) {
      o.cur = i;
      vh::Rng r(a.seed, a.worker, i);
      ++o.evaluations;
      one(r);
      if (i < 2) { vh::Rng r2(a.seed, a.worker, i); o.sample(gen(r2).json()); }
   }
   std::cerr.rdbuf(old);
   o.finish();
   return 0;
}
