// C08: a constructed THDM reproduces the inputs it was constructed from.
#include "gen.hpp"
#include <Eigen/SVD>

using namespace gm2calc;
using vh::J;
static vh::Out* out;

static void clause(const std::string& name, const std::string& cell, double err, double tol, const J& c, const std::string& key = "") {
   J w = c; w.str("clause", name).d("err", err).d("tol", tol);
   out->cell(name + "|" + cell, tol > 0 ? err / tol : err, &w);
   if (!(err <= tol)) out->fail(key.empty() ? "C08:" + name : key, name + ": " + vh::num(err) + " > " + vh::num(tol), w);
}

int main(int argc, char** argv) {
   vh::Args a(argc, argv);
   vh::Out o(a); out = &o;
   gen::CerrCapture cap;
   for (long i = a.first(); i < a.last(); ++i) {
      o.cur = i;
      vh::Rng r(a.seed, a.worker, i);
      ++o.evaluations;
      gen::ThdmOpts op; op.zeta = r.chance(0.5) ? 5 : 100;
      thdm::Mass_basis b = gen::rand_mass_basis(r, op);
      const int sp = r.range(40);
      if (sp == 0) b.mh = 0;                                   // allowed by the quantifier (0 <= mh)
      if (sp == 1) b.mH = b.mh;                                 // degenerate CP-even states: angle undefined
      if (sp == 2) b.mH = b.mh * (1 + r.LU(1e-12, 1e-2));      // nearly degenerate
      if (sp == 3) { b.mA = b.mH; b.mHp = b.mH; }
      // exact zeros of the Z2-breaking couplings, one at a time and both (input shapes of Z2-symmetric and softly broken models)
      { const int zp = r.range(10); if (zp == 0 || zp == 2) b.lambda_6 = 0; if (zp == 1 || zp == 2) b.lambda_7 = 0; if (zp == 3) b.lambda_6 = -0.0; }
      SM sm;
      const int ck = r.range(4);
      if (ck == 1) sm.set_ckm_from_wolfenstein(0.2257, 0.814, 0.135, 0.349);
      if (ck == 2) sm.set_ckm_from_wolfenstein(r.U(0.1, 0.4), r.U(0.3, 0.9), r.U(-0.3, 0.3), 0.0);   // real CKM
      if (ck == 3) sm.set_ckm_from_angles(r.U(0, 1.5), r.U(0, 0.5), r.U(0, 1.0), r.U(-3.1, 3.1));
      if (r.chance(0.3)) { sm.set_mw(r.U(70, 85)); sm.set_mz(r.U(88, 95)); }
      thdm::Config cfg; cfg.running_couplings = r.chance(0.5);
      J c = gen::json(b); c.i("ckm", ck).i("running", cfg.running_couplings).d("mw", sm.get_mw()).d("mz", sm.get_mz());
      const std::string ty = "type" + std::to_string(static_cast<int>(b.yukawa_type));
      const bool mh0 = b.mh < 1e-6 * b.mH;
      THDM* pm = nullptr;
      try { pm = new THDM(b, sm, cfg); }
      catch (const Error& e) {
         // every input in the quantifier's range must be accepted
         J w = c; w.str("exception", e.what());
         o.cell(std::string("accepted|") + (mh0 ? "mh=0" : "mh>0"), 1, &w);
         o.fail(mh0 ? "C08:mh=0:rounding-tachyon" : "C08:valid-input-rejected", std::string("mass-basis input rejected: ") + e.what(), w);
         ++o.conclusive; continue;
      }
      const THDM& m = *pm;
      ++o.conclusive;
      o.cell(std::string("accepted|") + (mh0 ? "mh=0" : "mh>0"), 0, &c);
      const double mmax2 = std::pow(std::max({b.mH, b.mA, b.mHp}), 2);
      // the squared masses are differences of lambda_i v^2 and m12^2 (tan beta + cot beta) terms: the error scale is the largest of these, not the mass itself
      const double tbc = b.tan_beta + 1 / b.tan_beta;
      const double Sm = mmax2 + std::fabs(b.m122) * tbc + 246.0 * 246.0 * (std::fabs(b.lambda_6) + std::fabs(b.lambda_7)) * tbc;
      auto relm = [&](double got, double in) { return std::fabs(got * got - in * in) / Sm; };
      clause("mass:mh", ty, relm(m.get_Mhh(0), b.mh), 1e-12, c); clause("mass:mH", ty, relm(m.get_Mhh(1), b.mH), 1e-12, c);
      clause("mass:mA", ty, relm(m.get_MAh(1), b.mA), 1e-12, c); clause("mass:mHp", ty, relm(m.get_MHm(1), b.mHp), 1e-12, c);
      // sin(beta - alpha), cos(beta - alpha) >= 0
      {
         const double sba = m.get_sin_beta_minus_alpha(), cba = m.get_cos_beta_minus_alpha();
         double es = std::fabs(sba - b.sin_beta_minus_alpha);
         std::string cell = "generic";
         if (std::fabs(std::fabs(b.sin_beta_minus_alpha) - 1) < 1e-9) { es = std::min(std::fabs(sba - b.sin_beta_minus_alpha), std::fabs(sba + b.sin_beta_minus_alpha)); cell = "|sba|=1"; }   // overall sign of (sin,cos) not fixed by cos >= 0 there
         else if (b.sin_beta_minus_alpha == 0) cell = "sba=0";
         else if (std::fabs(b.sin_beta_minus_alpha) > 0.99) cell = "alignment-region";
         const double gap = b.mH * b.mH - b.mh * b.mh;
         if (gap == 0) { o.count("sba-exempt(mh=mH)"); }
         else {
            const double tol = 1e-9 + 1e-13 * Sm / gap;   // ill-conditioned for nearly degenerate CP-even states: error ~ eps x (scale of the mass-matrix entries)/(mH^2 - mh^2)
            if (tol > 1e-3) o.count("sba-ill-conditioned(eps*scale/(mH^2-mh^2) > 1e-3): inconclusive");   // the angle is numerically undetermined
            else clause("sin(beta-alpha)", cell + (gap < 1e-3 * mmax2 ? "|near-degenerate" : ""), es, tol, c);
            clause("cos(beta-alpha)>=0", cell, cba >= -1e-12 ? 0 : -cba, 0, c);
         }
      }
      clause("tan_beta", ty, std::fabs(m.get_tan_beta() / b.tan_beta - 1), 1e-14, c);
      clause("lambda6-bitexact", ty, vh::same_bits(m.get_lambda6(), b.lambda_6) ? 0 : 1, 0, c);
      clause("lambda7-bitexact", ty, vh::same_bits(m.get_lambda7(), b.lambda_7) ? 0 : 1, 0, c);
      clause("m122-bitexact", ty, vh::same_bits(m.get_m122(), b.m122) ? 0 : 1, 0, c);
      clause("MW=SM-input", ty, std::fabs(m.get_MVWm() / sm.get_mw() - 1), 1e-12, c);
      clause("MZ=SM-input", ty, std::fabs(m.get_MVZ() / sm.get_mz() - 1), 1e-12, c);
      clause("goldstone-at-0", ty, std::max(std::fabs(m.get_MAh(0) / sm.get_mz() - 1), std::fabs(m.get_MHm(0) / sm.get_mw() - 1)), 1e-9, c);
      {
         double ef = 0;
         for (int g = 0; g < 3; ++g) ef = std::max({ef, std::fabs(m.get_MFu(g) / sm.get_mu(g) - 1), std::fabs(m.get_MFd(g) / sm.get_md(g) - 1), std::fabs(m.get_MFe(g) / sm.get_ml(g) - 1)});
         clause("fermion-masses=SM-input", ty, ef, 1e-10, c);
         // CKM from the quark mixing matrices: |Vu Vd^+| reproduces |V_CKM| (rephasing invariant part) and the Jarlskog invariant its phase
         const auto ck2 = (m.get_Vu() * m.get_Vd().adjoint()).eval();
         const auto V = sm.get_ckm();
         clause("CKM-moduli", ty + "|ckm" + std::to_string(ck), (ck2.cwiseAbs() - V.cwiseAbs()).cwiseAbs().maxCoeff(), 1e-10, c);
         // with the decomposition convention m = V^T diag U the left-handed rotation is V^*, so the CKM matrix is conj(Vu Vd^+): Jarlskog invariant with opposite sign
         const double Jm = -std::imag(ck2(0, 1) * ck2(1, 2) * std::conj(ck2(0, 2)) * std::conj(ck2(1, 1))), Js = std::imag(V(0, 1) * V(1, 2) * std::conj(V(0, 2)) * std::conj(V(1, 1)));
         clause("CKM-Jarlskog", ty + "|ckm" + std::to_string(ck), std::fabs(Jm - Js), 1e-10, c);
      }
      // derived getters: angles, vevs, tadpole equations, fermion mass matrices and their mixing matrices
      {
         const double tb = m.get_tan_beta(), be = std::atan(tb);
         clause("derived:beta", ty, std::fabs(m.get_beta() - be), 4e-16, c);
         clause("derived:v1,v2", ty, std::max(std::fabs(m.get_v2() / m.get_v1() / tb - 1), std::fabs((m.get_v1() * m.get_v1() + m.get_v2() * m.get_v2()) / m.get_v_sqr() - 1)), 1e-14, c);
         typedef Eigen::Matrix<std::complex<double>, 3, 3> CM3;
         struct Fs { const char* n; CM3 G, P, V, U; Eigen::Array<double, 3, 1> M; };
         const Fs fs[3] = {{"u", m.get_Gamma_u(), m.get_Pi_u(), m.get_Vu(), m.get_Uu(), m.get_MFu()}, {"d", m.get_Gamma_d(), m.get_Pi_d(), m.get_Vd(), m.get_Ud(), m.get_MFd()}, {"l", m.get_Gamma_l(), m.get_Pi_l(), m.get_Ve(), m.get_Ue(), m.get_MFe()}};
         double eu = 0, er = 0, es = 0;
         for (const Fs& f : fs) {
            const CM3 M = (m.get_v1() * f.G + m.get_v2() * f.P) / std::sqrt(2.0);
            const double nrm = M.norm();
            eu = std::max({eu, (f.V * f.V.adjoint() - CM3::Identity()).norm(), (f.U * f.U.adjoint() - CM3::Identity()).norm()});
            er = std::max(er, (f.V.transpose() * f.M.matrix().cast<std::complex<double>>().asDiagonal() * f.U - M).norm() / nrm);
            Eigen::JacobiSVD<CM3> svd(M); Eigen::Array<double, 3, 1> sv = svd.singularValues().array().reverse();
            es = std::max(es, (sv - f.M).abs().maxCoeff() / nrm);
         }
         clause("derived:fermion-mixing-unitary", ty, eu, 1e-12, c);
         clause("derived:fermion-mass-matrix=V^T.M.U", ty, er, 1e-10, c);
         clause("derived:fermion-masses=singular-values-of-(v1.Gamma+v2.Pi)/sqrt2", ty, es, 1e-12, c);
      }
      // rebuild from the lambda_1..7 it reports (gauge basis) and compare the spectra; then back to the mass basis
      {
         thdm::Gauge_basis g; g.yukawa_type = b.yukawa_type;
         g.lambda << m.get_lambda1(), m.get_lambda2(), m.get_lambda3(), m.get_lambda4(), m.get_lambda5(), m.get_lambda6(), m.get_lambda7();
         g.tan_beta = m.get_tan_beta(); g.m122 = m.get_m122(); g.zeta_u = b.zeta_u; g.zeta_d = b.zeta_d; g.zeta_l = b.zeta_l;
         g.Delta_u = b.Delta_u; g.Delta_d = b.Delta_d; g.Delta_l = b.Delta_l; g.Pi_u = b.Pi_u; g.Pi_d = b.Pi_d; g.Pi_l = b.Pi_l;
         try {
            THDM m2(g, sm, cfg);
            const double eg = std::max({relm(m2.get_Mhh(0), m.get_Mhh(0)), relm(m2.get_Mhh(1), m.get_Mhh(1)), relm(m2.get_MAh(1), m.get_MAh(1)), relm(m2.get_MHm(1), m.get_MHm(1))});
            clause("gauge-basis-rebuild:masses", ty, eg, 1e-9, c);
            const double gap = b.mH * b.mH - b.mh * b.mh;
            if (gap > 0 && 1e-12 * Sm / gap < 1e-3) clause("gauge-basis-rebuild:sin(beta-alpha)", ty, std::fabs(std::fabs(m2.get_sin_beta_minus_alpha()) - std::fabs(m.get_sin_beta_minus_alpha())), 1e-8 + 1e-12 * Sm / gap, c);
            // and back: mass basis from the rebuilt model's outputs
            thdm::Mass_basis b2 = b; b2.mh = m2.get_Mhh(0); b2.mH = m2.get_Mhh(1); b2.mA = m2.get_MAh(1); b2.mHp = m2.get_MHm(1); b2.sin_beta_minus_alpha = std::max(-1.0, std::min(1.0, m2.get_sin_beta_minus_alpha()));
            b2.tan_beta = m2.get_tan_beta(); b2.m122 = m2.get_m122(); b2.lambda_6 = m2.get_lambda6(); b2.lambda_7 = m2.get_lambda7();
            try {
               THDM m3(b2, sm, cfg);
               double el = 0; const double ls[5] = {m.get_lambda1(), m.get_lambda2(), m.get_lambda3(), m.get_lambda4(), m.get_lambda5()}, l3[5] = {m3.get_lambda1(), m3.get_lambda2(), m3.get_lambda3(), m3.get_lambda4(), m3.get_lambda5()};
               const double v2 = m.get_v_sqr(), tb = b.tan_beta, amp = mmax2 / v2 * (1 + tb * tb) * std::max(1.0, 1 / (tb * tb));   // lambda_i ~ m^2/v^2 x (tan beta)^+-2
               for (int k = 0; k < 5; ++k) el = std::max(el, std::fabs(ls[k] - l3[k]));
               if (gap > 1e-3 * mmax2) clause("mass-gauge-mass:lambda1..5", ty, el / amp, 1e-7, c);
            } catch (const Error& e) { if (!mh0) { J w = c; w.str("exception", e.what()); o.fail("C08:roundtrip-mass-basis-rejected", std::string("mass basis rebuilt from gauge-basis outputs rejected: ") + e.what(), w); } }
         } catch (const Error& e) {
            J w = c; w.str("exception", e.what());
            o.fail(mh0 ? "C08:mh=0:rounding-tachyon" : "C08:gauge-basis-rebuild-rejected", std::string("gauge-basis rebuild rejected: ") + e.what(), w);
         }
      }
      o.sample(c, 2);
      delete pm;
   }
   o.finish();
   return 0;
}
