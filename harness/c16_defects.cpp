// C16 (library part): documented untreatable inputs, alone and in pairs, x force-output, through the C++ API and the C API.
// Decision table written from the property: without force the documented error class is thrown (C: matching code);
// with force a warning/problem is emitted and a result is produced; a result without error, problem or warning is finite.
#include "gen.hpp"
#include <sstream>
#include "MSSMNoFV/gm2_1loop_helpers.hpp"
#include "gm2calc/gm2_1loop.hpp"
#include "gm2calc/gm2_2loop.hpp"
#include "gm2calc/gm2_uncertainty.hpp"
#include "gm2calc/MSSMNoFV_onshell.h"
#include "gm2calc/THDM.h"
#include "gm2calc/SM.h"
#include "gm2calc/gm2_1loop.h"
#include "gm2calc/gm2_2loop.h"
#include "gm2calc/gm2_error.h"
#include <functional>

using namespace gm2calc;
using vh::J;
typedef gm2calc::MSSMNoFV_onshell CppM;
typedef ::MSSMNoFV_onshell CM;
static vh::Out* out;

enum Kind { INPUT, TACHYON };
struct Outcome { std::string cls; std::string msg; bool have_problem = false, have_warning = false; std::string cerr_text; double amu = 0; bool computed = false; };

static std::string cls_of(const std::exception& e) {
   if (dynamic_cast<const EInvalidInput*>(&e)) return "EInvalidInput";
   if (dynamic_cast<const EPhysicalProblem*>(&e)) return "EPhysicalProblem";
   if (dynamic_cast<const Error*>(&e)) return "Error";
   return "std::exception";
}

// ------------------------------------------------------------------ MSSM
struct MDef { const char* name; Kind kind; std::function<void(CppM&, const gen::MssmPoint&)> cpp; std::function<void(CM*, const gen::MssmPoint&)> c; bool force_cannot_override; };

static std::vector<MDef> mssm_defects() {
   std::vector<MDef> d;
   auto add = [&](const char* n, Kind k, std::function<void(CppM&, const gen::MssmPoint&)> a, std::function<void(CM*, const gen::MssmPoint&)> b, bool fco = false) { d.push_back({n, k, a, b, fco}); };
   add("MW>=MZ", INPUT, [](CppM& m, const gen::MssmPoint&) { m.get_physical().MVWm = m.get_physical().MVZ * 1.01; }, [](CM* h, const gen::MssmPoint&) { gm2calc_mssmnofv_set_MW_pole(h, gm2calc_mssmnofv_get_MZ(h) * 1.01); });
   add("MW=MZ", INPUT, [](CppM& m, const gen::MssmPoint&) { m.get_physical().MVWm = m.get_physical().MVZ; }, [](CM* h, const gen::MssmPoint&) { gm2calc_mssmnofv_set_MW_pole(h, gm2calc_mssmnofv_get_MZ(h)); }, true);
   add("MW=0", INPUT, [](CppM& m, const gen::MssmPoint&) { m.get_physical().MVWm = 0; }, [](CM* h, const gen::MssmPoint&) { gm2calc_mssmnofv_set_MW_pole(h, 0); }, true);
   add("MZ=0", INPUT, [](CppM& m, const gen::MssmPoint&) { m.get_physical().MVZ = 0; }, [](CM* h, const gen::MssmPoint&) { gm2calc_mssmnofv_set_MZ_pole(h, 0); });
   add("m_mu=0", INPUT, [](CppM& m, const gen::MssmPoint&) { m.get_physical().MFm = 0; }, [](CM* h, const gen::MssmPoint&) { gm2calc_mssmnofv_set_MM_pole(h, 0); });
   add("mu=0", INPUT, [](CppM& m, const gen::MssmPoint&) { m.set_Mu(0); }, [](CM* h, const gen::MssmPoint&) { gm2calc_mssmnofv_set_Mu(h, 0); });
   add("M1=0", INPUT, [](CppM& m, const gen::MssmPoint&) { m.set_MassB(0); }, [](CM* h, const gen::MssmPoint&) { gm2calc_mssmnofv_set_MassB(h, 0); });
   add("M2=0", INPUT, [](CppM& m, const gen::MssmPoint&) { m.set_MassWB(0); }, [](CM* h, const gen::MssmPoint&) { gm2calc_mssmnofv_set_MassWB(h, 0); });
   add("tanb=0", INPUT, [](CppM& m, const gen::MssmPoint&) { m.set_TB(0); }, [](CM* h, const gen::MssmPoint&) { gm2calc_mssmnofv_set_TB(h, 0); });
   add("tanb=inf", INPUT, [](CppM& m, const gen::MssmPoint&) { m.set_TB(INFINITY); }, [](CM* h, const gen::MssmPoint&) { gm2calc_mssmnofv_set_TB(h, INFINITY); }, true);
   // negative soft squared masses in sectors without tachyon flag (first generation): an input defect of its own
   add("mq2(0,0)<0", INPUT, [](CppM& m, const gen::MssmPoint& p) { m.set_mq2(0, 0, -1e-2 * p.mq[0] * p.mq[0]); }, [](CM* h, const gen::MssmPoint& p) { gm2calc_mssmnofv_set_mq2(h, 0, 0, -1e-2 * p.mq[0] * p.mq[0]); });
   add("me2(0,0)<0", INPUT, [](CppM& m, const gen::MssmPoint& p) { m.set_me2(0, 0, -1e-2 * p.me[0] * p.me[0]); }, [](CM* h, const gen::MssmPoint& p) { gm2calc_mssmnofv_set_me2(h, 0, 0, -1e-2 * p.me[0] * p.me[0]); });
   // tachyons in monitored sectors
   add("smuon-tachyon", TACHYON, [](CppM& m, const gen::MssmPoint& p) { m.set_me2(1, 1, -4 * p.me[1] * p.me[1]); }, [](CM* h, const gen::MssmPoint& p) { gm2calc_mssmnofv_set_me2(h, 1, 1, -4 * p.me[1] * p.me[1]); });
   add("sneutrino-tachyon", TACHYON, [](CppM& m, const gen::MssmPoint& p) { m.set_ml2(1, 1, -4 * p.ml[1] * p.ml[1]); }, [](CM* h, const gen::MssmPoint& p) { gm2calc_mssmnofv_set_ml2(h, 1, 1, -4 * p.ml[1] * p.ml[1]); });
   // a tachyon through the D-term alone: 0 < ml2(1,1) < MZ^2 |cos 2beta| / 2 makes the muon sneutrino tachyonic while both smuons stay healthy and no soft mass is negative
   add("sneutrino-tachyon(D-term-only)", TACHYON, [](CppM& m, const gen::MssmPoint& p) { m.set_ml2(1, 1, 0.125 * 91.1876 * 91.1876 * (p.tb * p.tb - 1) / (p.tb * p.tb + 1)); },
       [](CM* h, const gen::MssmPoint& p) { gm2calc_mssmnofv_set_ml2(h, 1, 1, 0.125 * 91.1876 * 91.1876 * (p.tb * p.tb - 1) / (p.tb * p.tb + 1)); });
   add("stau-tachyon", TACHYON, [](CppM& m, const gen::MssmPoint& p) { m.set_me2(2, 2, -4 * p.me[2] * p.me[2]); }, [](CM* h, const gen::MssmPoint& p) { gm2calc_mssmnofv_set_me2(h, 2, 2, -4 * p.me[2] * p.me[2]); });
   add("stop-tachyon", TACHYON, [](CppM& m, const gen::MssmPoint& p) { m.set_mu2(2, 2, -4 * p.mU[2] * p.mU[2]); }, [](CM* h, const gen::MssmPoint& p) { gm2calc_mssmnofv_set_mu2(h, 2, 2, -4 * p.mU[2] * p.mU[2]); });
   add("sbottom-tachyon", TACHYON, [](CppM& m, const gen::MssmPoint& p) { m.set_md2(2, 2, -4 * p.mD[2] * p.mD[2]); }, [](CM* h, const gen::MssmPoint& p) { gm2calc_mssmnofv_set_md2(h, 2, 2, -4 * p.mD[2] * p.mD[2]); });
   add("stau-tachyon(large-A)", TACHYON, [](CppM& m, const gen::MssmPoint& p) { m.set_Ae(2, 2, 3e3 * std::max(p.ml[2], p.me[2])); }, [](CM* h, const gen::MssmPoint& p) { gm2calc_mssmnofv_set_Ae(h, 2, 2, 3e3 * std::max(p.ml[2], p.me[2])); });
   return d;
}

static void fill_c(CM* h, const gen::MssmPoint& p) {
   gm2calc_mssmnofv_set_TB(h, p.tb); gm2calc_mssmnofv_set_Mu(h, p.mu); gm2calc_mssmnofv_set_MassB(h, p.m1); gm2calc_mssmnofv_set_MassWB(h, p.m2); gm2calc_mssmnofv_set_MassG(h, p.m3);
   gm2calc_mssmnofv_set_MAh_pole(h, p.ma); gm2calc_mssmnofv_set_scale(h, p.Q);
   for (unsigned i = 0; i < 3; ++i) { gm2calc_mssmnofv_set_ml2(h, i, i, p.ml[i] * p.ml[i]); gm2calc_mssmnofv_set_me2(h, i, i, p.me[i] * p.me[i]); gm2calc_mssmnofv_set_mq2(h, i, i, p.mq[i] * p.mq[i]);
      gm2calc_mssmnofv_set_mu2(h, i, i, p.mU[i] * p.mU[i]); gm2calc_mssmnofv_set_md2(h, i, i, p.mD[i] * p.mD[i]); gm2calc_mssmnofv_set_Ae(h, i, i, p.Ae[i]); gm2calc_mssmnofv_set_Au(h, i, i, p.Au[i]); gm2calc_mssmnofv_set_Ad(h, i, i, p.Ad[i]); }
}

// A point that is fine with tan(beta) resummation but has a smuon tachyon with the tree-level muon Yukawa coupling (larger by 1 + Delta_mu, and the
// left-right mixing scales with it): the non-resummed results recompute the spectrum and must refuse it.  Classified with an independent estimate of
// the smuon mass matrix for both Yukawa couplings, with margins.
static void mssm_nonresummed_tachyon_case(vh::Rng& r, gen::CerrCapture& cap) {
   gen::MssmPoint p = gen::rand_mssm(r, 500, 3000, 30, 60);
   for (int g = 0; g < 3; ++g) { p.mq[g] = r.LU(1500, 4000); p.mU[g] = r.LU(1500, 4000); p.mD[g] = r.LU(1500, 4000); p.ml[g] = r.LU(800, 3000); p.me[g] = r.LU(800, 3000); p.Ae[g] = 0; p.Au[g] = 0; p.Ad[g] = 0; }
   p.mu = r.LU(2000, 4000); p.m1 = r.LU(300, 1000); p.m2 = r.LU(300, 1000);   // mu M_i > 0: Delta_mu > 0
   const double mm = 0.1056583715;
   double dmu = 0;
   const double fwin = r.U(0.35, 0.65);
   for (int it = 0; it < 4; ++it) {   // the smuon masses enter Delta_mu weakly: iterate the choice of the soft masses
      // (mL2 + a)(mR2 + b) = T^2 with T = mm mu tb / (1 + f Delta_mu): between the tree-level and the resummed mixing; a, b: D-terms
      const double MZ0 = 91.1876, MW0 = 80.385, s2 = 1 - MW0 * MW0 / (MZ0 * MZ0), c2 = (1 - p.tb * p.tb) / (1 + p.tb * p.tb);
      const double a_ = mm * mm + (s2 - 0.5) * MZ0 * MZ0 * c2, b_ = mm * mm - s2 * MZ0 * MZ0 * c2, T = mm * p.mu * p.tb / (1 + (it == 0 ? 0.1 : dmu) * fwin);
      const double x = -0.5 * (a_ + b_) + std::sqrt(0.25 * (a_ - b_) * (a_ - b_) + T * T);
      if (!(x > 0)) { ++out->inconclusive; out->count("non-resummed tachyon: no window point found"); return; }
      p.ml[1] = p.me[1] = std::sqrt(x);
      try { CppM m = gen::make_mssm(p); if (m.get_problems().have_problem()) { ++out->inconclusive; out->count("non-resummed tachyon: no window point found"); return; } dmu = delta_mu_correction(m); }
      catch (const Error&) { ++out->inconclusive; out->count("non-resummed tachyon: no window point found"); return; }
   }
   CppM m0;
   try { m0 = gen::make_mssm(p); } catch (const Error&) { ++out->inconclusive; return; }
   if (m0.get_problems().have_problem() || !(dmu > 0.02)) { ++out->inconclusive; out->count("non-resummed tachyon: no window point found"); return; }
   // independent estimate: M^2 = [[mL2 + mm^2 + (sw2 - 1/2) MZ^2 c2b, -mm mu tb k], [., mR2 + mm^2 - sw2 MZ^2 c2b]], k = 1 (tree) or 1/(1 + Delta_mu) (resummed)
   const double MZ = m0.get_MZ(), MW = m0.get_MW(), sw2 = 1 - MW * MW / (MZ * MZ), c2b = (1 - p.tb * p.tb) / (1 + p.tb * p.tb), mL2 = p.ml[1] * p.ml[1], mR2 = p.me[1] * p.me[1];
   const double LL = mL2 + mm * mm + (sw2 - 0.5) * MZ * MZ * c2b, RR = mR2 + mm * mm - sw2 * MZ * MZ * c2b, off = mm * p.mu * p.tb;
   const double det_tree = LL * RR - off * off, det_res = LL * RR - off * off / ((1 + dmu) * (1 + dmu));
   J c = p.json(); c.str("defect", "smuon tachyon with the tree-level Yukawa coupling only").d("Delta_mu", dmu).d("det_tree_estimate", det_tree).d("det_resummed_estimate", det_res).str("model", "MSSM");
   if (!(det_tree < -0.02 * LL * RR && det_res > 0.02 * LL * RR)) { ++out->inconclusive; out->count("non-resummed tachyon: estimate not clear of the window edges"); return; }
   ++out->conclusive;
   struct F { const char* n; double (*f)(const CppM&); double (*c)(const CM*); };
   static const F fs[] = {{"calculate_amu_1loop_non_tan_beta_resummed", [](const CppM& m) { return calculate_amu_1loop_non_tan_beta_resummed(m); }, [](const CM* h) { return gm2calc_mssmnofv_calculate_amu_1loop_non_tan_beta_resummed(h); }},
                          {"calculate_amu_2loop_non_tan_beta_resummed", [](const CppM& m) { return calculate_amu_2loop_non_tan_beta_resummed(m); }, [](const CM* h) { return gm2calc_mssmnofv_calculate_amu_2loop_non_tan_beta_resummed(h); }}};
   for (const F& f : fs) {
      // without force-output: refused
      { Outcome o; cap.take(); try { o.amu = f.f(m0); o.computed = true; } catch (const std::exception& e) { o.cls = cls_of(e); o.msg = e.what(); }
        o.cerr_text = cap.take(); J w = c; w.str("function", f.n).str("exception", o.cls).d("value", o.amu);
        const bool ok = !o.computed && o.cls == "EPhysicalProblem";
        out->cell(std::string("MSSM|C++|tachyon-without-resummation-only|") + f.n + "|force0", ok ? 0 : 1, &w);
        if (!ok) out->fail(std::string("C16:MSSM:C++:noforce:tachyon-without-resummation-only:") + f.n, std::string(f.n) + (o.computed ? " computed a tachyonic spectrum silently" : " wrong error class " + o.cls), w); }
      // resummed results of the same model stay available
      { bool fine = true; try { const double a = calculate_amu_1loop(m0) + calculate_amu_2loop(m0); fine = std::isfinite(a); } catch (const std::exception&) { fine = false; }
        out->cell("MSSM|C++|tachyon-without-resummation-only|resummed-results-unaffected", fine ? 0 : 1, &c); if (!fine) out->fail("C16:MSSM:C++:resummed-result-refused-for-a-valid-point", "the resummed results of a valid point are refused", c); }
      // C entry point: NaN (no error channel on these functions)
      { CM* h = gm2calc_mssmnofv_new(); fill_c(h, p); const gm2calc_error e = gm2calc_mssmnofv_calculate_masses(h); const double v = f.c(h); cap.take();
        J w = c; w.str("function", f.n).i("calculate_masses_error", static_cast<int>(e)).d("value", v);
        const bool ok = e == gm2calc_NoError && std::isnan(v);
        out->cell(std::string("MSSM|C|tachyon-without-resummation-only|") + f.n, ok ? 0 : 1, &w);
        if (!ok) out->fail(std::string("C16:MSSM:C:tachyon-without-resummation-only:") + f.n, std::string("gm2calc_mssmnofv_") + f.n + " returns " + vh::num(v) + " for a spectrum that is tachyonic without resummation (NaN expected)", w);
        gm2calc_mssmnofv_free(h); }
      // with force-output the library neither warns nor flags (the problem stays on an internal copy): reported only
      { CppM mf(m0); mf.do_force_output(true); cap.take(); try { const double a = f.f(mf); const std::string e = cap.take(); out->count(std::string("force-output, tachyon without resummation only: computed ") + (e.empty() ? "without any message" : "with a message") + (std::isfinite(a) ? "" : " (non-finite)")); } catch (const std::exception&) { out->count("force-output, tachyon without resummation only: refused"); cap.take(); } }
   }
}

static void mssm_case(vh::Rng& r, gen::CerrCapture& cap) {
   static const std::vector<MDef> defs = mssm_defects();
   gen::MssmPoint p = gen::rand_mssm(r, 200, 2000, 3, 50);
   for (int g = 0; g < 3; ++g) { p.mq[g] = r.LU(800, 4000); p.mU[g] = r.LU(800, 4000); p.mD[g] = r.LU(800, 4000); p.Ae[g] = r.U(-1, 1) * 300; p.Au[g] = r.U(-1, 1) * 800; p.Ad[g] = r.U(-1, 1) * 800; }
   try { CppM m = gen::make_mssm(p); if (m.get_problems().have_problem() || m.get_problems().have_warning()) { ++out->inconclusive; return; } } catch (const Error&) { ++out->inconclusive; return; }
   ++out->conclusive;
   const int nd = static_cast<int>(defs.size());
   // every defect alone, and random pairs
   std::vector<std::pair<int, int>> combos;
   for (int i = 0; i < nd; ++i) combos.push_back({i, -1});
   for (int k = 0; k < nd; ++k) { int i = r.range(nd), j = r.range(nd); if (i != j) combos.push_back({i, j}); }
   for (auto& cb : combos) for (int force = 0; force < 2; ++force) {
      const MDef& d1 = defs[cb.first]; const MDef* d2 = cb.second >= 0 ? &defs[cb.second] : nullptr;
      const std::string name = std::string(d1.name) + (d2 ? std::string("+") + d2->name : "");
      J c = p.json(); c.str("defect", name).i("force", force).str("model", "MSSM");
      // ---- C++ API
      Outcome o; cap.take();
      try {
         CppM m; m.do_force_output(force); gen::fill_mssm(m, p); d1.cpp(m, p); if (d2) d2->cpp(m, p);
         m.calculate_masses();
         o.have_problem = m.get_problems().have_problem(); o.have_warning = m.get_problems().have_warning();
         o.amu = calculate_amu_1loop(m) + calculate_amu_2loop(m); o.computed = true;
      } catch (const std::exception& e) { o.cls = cls_of(e); o.msg = e.what(); }
      o.cerr_text = cap.take();
      c.str("exception", o.cls).str("message", o.msg).i("have_problem", o.have_problem).i("have_warning", o.have_warning).str("stderr", o.cerr_text.substr(0, 300)).d("amu", o.amu);
      const bool any_input = d1.kind == INPUT || (d2 && d2->kind == INPUT), any_tach = d1.kind == TACHYON || (d2 && d2->kind == TACHYON);
      const bool fco = d1.force_cannot_override || (d2 && d2->force_cannot_override);
      const std::string cell = std::string("MSSM|C++|") + (d2 ? "pair" : d1.name) + "|force" + std::to_string(force);
      bool ok; std::string what;
      if (!force) {
         // refused with the documented class: EInvalidInput for input defects, EPhysicalProblem for tachyons (either, if both kinds are present)
         ok = !o.computed && ((any_input && o.cls == "EInvalidInput") || (any_tach && o.cls == "EPhysicalProblem"));
         what = o.computed ? "computed silently without force-output" : "wrong error class " + o.cls;
      } else {
         const bool flagged = o.have_problem || o.have_warning || !o.cerr_text.empty();
         ok = o.computed && flagged && (!any_tach || o.have_problem || any_input);
         what = !o.computed ? "refused although force-output is set (" + o.cls + ": " + o.msg + ")" : "proceeded without any warning or problem";
      }
      out->cell(cell, ok ? 0 : 1, &c);
      if (!ok) {
         std::string key = "C16:MSSM:C++:" + std::string(force ? "force:" : "noforce:") + (d2 ? "pair" : d1.name);
         if (force && !o.computed && fco) key = std::string("C16:force-does-not-override:") + (d1.force_cannot_override ? d1.name : d2->name);
         out->fail(key, name + " force=" + std::to_string(force) + ": " + what, c);
      }
      // a result that comes with no error, problem or warning is finite
      if (o.computed && !o.have_problem && !o.have_warning && o.cerr_text.empty() && !std::isfinite(o.amu)) out->fail("C16:MSSM:silent-nonfinite-result", name + ": non-finite a_mu without error, problem or warning", c);
      // ---- C API (no force-output setter in the MSSM C interface: force = 0 only)
      if (!force) {
         CM* h = gm2calc_mssmnofv_new(); fill_c(h, p); d1.c(h, p); if (d2) d2->c(h, p);
         const gm2calc_error e = gm2calc_mssmnofv_calculate_masses(h);
         const char* en = e == gm2calc_NoError ? "NoError" : (e == gm2calc_InvalidInput ? "InvalidInput" : (e == gm2calc_PhysicalProblem ? "PhysicalProblem" : "UnknownError"));
         const std::string expect = o.cls == "EInvalidInput" ? "InvalidInput" : (o.cls == "EPhysicalProblem" ? "PhysicalProblem" : (o.cls.empty() ? "NoError" : "UnknownError"));
         J cc = c; cc.str("c_error", en).str("expected_from_cpp", expect);
         out->cell(std::string("MSSM|C|") + (d2 ? "pair" : d1.name) + "|code-matches-exception-class", expect == en ? 0 : 1, &cc);
         if (expect != en) out->fail("C16:MSSM:C:error-code", name + ": C error code " + en + " but the C++ call gives " + (o.cls.empty() ? "no exception" : o.cls), cc);
         gm2calc_mssmnofv_free(h); cap.take();
      }
   }
   out->sample(p.json(), 1);
}

// ------------------------------------------------------------------ THDM
struct TDef { const char* name; Kind kind; std::function<void(thdm::Mass_basis&, SM&)> f; bool force_cannot_override; };
static std::vector<TDef> thdm_defects() {
   std::vector<TDef> d;
   d.push_back({"tanb=0", INPUT, [](thdm::Mass_basis& b, SM&) { b.tan_beta = 0; }, false});
   d.push_back({"tanb<0", INPUT, [](thdm::Mass_basis& b, SM&) { b.tan_beta = -std::fabs(b.tan_beta); }, false});
   d.push_back({"mh>mH", INPUT, [](thdm::Mass_basis& b, SM&) { std::swap(b.mh, b.mH); b.mh *= 1.01; }, false});
   d.push_back({"|sba|>1", INPUT, [](thdm::Mass_basis& b, SM&) { b.sin_beta_minus_alpha = 1.0000001 * (b.sin_beta_minus_alpha < 0 ? -1 : 1) * 1.5; }, false});
   // just beyond the boundary of the admissible range
   d.push_back({"|sba|>1(by 1 ulp)", INPUT, [](thdm::Mass_basis& b, SM&) { b.sin_beta_minus_alpha = (b.sin_beta_minus_alpha < 0 ? -1 : 1) * std::nextafter(1.0, 2.0); }, false});
   d.push_back({"|sba|>1(by 1e-12)", INPUT, [](thdm::Mass_basis& b, SM&) { b.sin_beta_minus_alpha = (b.sin_beta_minus_alpha < 0 ? -1 : 1) * (1 + 1e-12); }, false});
   d.push_back({"|sba|>1(by 1e-9)", INPUT, [](thdm::Mass_basis& b, SM&) { b.sin_beta_minus_alpha = (b.sin_beta_minus_alpha < 0 ? -1 : 1) * (1 + 1e-9); }, false});
   d.push_back({"mh>mH(by 1 ulp)", INPUT, [](thdm::Mass_basis& b, SM&) { b.mh = std::nextafter(b.mH, 1e300); }, false});
   d.push_back({"tanb<0(-1e-300)", INPUT, [](thdm::Mass_basis& b, SM&) { b.tan_beta = -1e-300; }, false});
   d.push_back({"mA<0(-1e-300)", INPUT, [](thdm::Mass_basis& b, SM&) { b.mA = -1e-300; }, false});
   d.push_back({"mh<0", INPUT, [](thdm::Mass_basis& b, SM&) { b.mh = -std::fabs(b.mh); }, false});
   d.push_back({"mH<0", INPUT, [](thdm::Mass_basis& b, SM&) { b.mH = -std::fabs(b.mH); }, false});
   d.push_back({"mA<0", INPUT, [](thdm::Mass_basis& b, SM&) { b.mA = -std::fabs(b.mA); }, false});
   d.push_back({"mHp<0", INPUT, [](thdm::Mass_basis& b, SM&) { b.mHp = -std::fabs(b.mHp); }, false});
   d.push_back({"MW>=MZ", INPUT, [](thdm::Mass_basis&, SM& s) { s.set_mw(s.get_mz() * 1.01); }, false});
   d.push_back({"MW=0", INPUT, [](thdm::Mass_basis&, SM& s) { s.set_mw(0); }, false});
   d.push_back({"MZ=0", INPUT, [](thdm::Mass_basis&, SM& s) { s.set_mz(0); }, false});
   d.push_back({"m_mu=0", INPUT, [](thdm::Mass_basis&, SM& s) { s.set_ml(1, 0); }, false});
   d.push_back({"invalid-yukawa-type", INPUT, [](thdm::Mass_basis& b, SM&) { b.yukawa_type = static_cast<thdm::Yukawa_type>(7); }, true});
   return d;
}

// Tree-level squared masses of the general CP-conserving 2HDM in the generic basis (Gunion, Haber, hep-ph/0207010, eqs. (D3)-(D9) style),
// written here independently of the library's mass matrices: the oracle for "this gauge-basis input is tachyonic".
struct TreeM2 { double h, H, A, Hp, scale; };
static TreeM2 thdm_tree_m2(const Eigen::Matrix<double, 7, 1>& l, double tb, double m122, double v2) {
   const double b = std::atan(tb), sb = std::sin(b), cb = std::cos(b);
   TreeM2 t;
   t.A = m122 / (sb * cb) - 0.5 * v2 * (2 * l(4) + l(5) / tb + l(6) * tb);
   t.Hp = t.A + 0.5 * v2 * (l(4) - l(3));
   const double m11 = t.A * sb * sb + v2 * (l(0) * cb * cb + 2 * l(5) * sb * cb + l(4) * sb * sb);
   const double m22 = t.A * cb * cb + v2 * (l(1) * sb * sb + 2 * l(6) * sb * cb + l(4) * cb * cb);
   const double m12 = -t.A * sb * cb + v2 * ((l(2) + l(3)) * sb * cb + l(5) * cb * cb + l(6) * sb * sb);
   const double tr = m11 + m22, disc = std::sqrt((m11 - m22) * (m11 - m22) + 4 * m12 * m12);
   t.h = 0.5 * (tr - disc); t.H = 0.5 * (tr + disc);
   t.scale = std::fabs(m122) * (tb + 1 / tb) + v2 * (l.cwiseAbs().sum()) * (1 + tb + 1 / tb);
   return t;
}

static void thdm_tachyon_case(vh::Rng& r, gen::CerrCapture& cap) {
   thdm::Gauge_basis g; g.yukawa_type = static_cast<thdm::Yukawa_type>(1 + r.range(4));
   const double lam = r.chance(0.5) ? 4.0 : 0.5;
   for (int k = 0; k < 5; ++k) g.lambda(k) = r.U(-lam, lam);
   const bool l67 = r.chance(0.3); g.lambda(5) = l67 ? r.U(-1, 1) : 0; g.lambda(6) = l67 ? r.U(-1, 1) : 0;
   g.tan_beta = r.LU(0.3, 50); g.m122 = r.chance(0.2) ? 0.0 : r.sign() * r.LU(1, 1e6);
   if (r.chance(0.4)) { g.lambda(0) = std::fabs(g.lambda(0)); g.lambda(1) = std::fabs(g.lambda(1)); g.m122 = std::fabs(g.m122); }   // more near-valid points: tachyons in one sector only, and valid ones
   SM sm;
   double v2;
   { gen::ThdmOpts op; thdm::Mass_basis b = gen::rand_mass_basis(r, op); b.mh = 125; b.mH = 400; b.mA = 400; b.mHp = 400; b.sin_beta_minus_alpha = 1; b.lambda_6 = b.lambda_7 = 0; b.m122 = 1e4; b.tan_beta = 3; b.yukawa_type = thdm::Yukawa_type::type_1; THDM ref(b, sm); v2 = ref.get_v_sqr(); }
   const TreeM2 t = thdm_tree_m2(g.lambda, g.tan_beta, g.m122, v2);
   const double tau = 1e-9 * t.scale;
   const double mn = std::min({t.h, t.H, t.A, t.Hp});
   if (std::fabs(t.h) < tau || std::fabs(t.H) < tau || std::fabs(t.A) < tau || std::fabs(t.Hp) < tau) { ++out->inconclusive; out->count("THDM tachyon oracle: a squared mass within 1e-9 of zero (undecided)"); return; }
   ++out->conclusive;
   const bool tach = mn < 0;
   std::string kind;
   if (!tach) kind = "valid";
   else {
      if (t.h < 0) kind += (t.H < 0 ? "h,H" : (std::fabs(t.h) > t.H ? "h(|mh^2|>mH^2)" : "h(|mh^2|<mH^2)"));
      if (t.A < 0) kind += std::string(kind.empty() ? "" : ",") + "A";
      if (t.Hp < 0) kind += std::string(kind.empty() ? "" : ",") + "H+";
   }
   for (int force = 0; force < 2; ++force) {
      thdm::Config cfg; cfg.force_output = force; cfg.running_couplings = r.chance(0.5);
      J c; c.i("yukawa_type", static_cast<int>(g.yukawa_type)).d("tan_beta", g.tan_beta).d("m122", g.m122).i("force", force).str("kind", kind).str("model", "THDM").str("basis", "gauge")
          .d("mh2_tree", t.h).d("mH2_tree", t.H).d("mA2_tree", t.A).d("mHp2_tree", t.Hp);
      for (int k = 0; k < 7; ++k) c.d("lambda" + std::to_string(k + 1), g.lambda(k));
      Outcome o; cap.take();
      double lib[4] = {0, 0, 0, 0};
      try {
         THDM m(g, sm, cfg);
         o.have_problem = m.get_problems().have_problem(); o.have_warning = m.get_problems().have_warning();
         lib[0] = m.get_Mhh(0); lib[1] = m.get_Mhh(1); lib[2] = m.get_MAh(1); lib[3] = m.get_MHm(1);
         o.amu = calculate_amu_1loop(m) + calculate_amu_2loop(m); o.computed = true;
      } catch (const std::exception& e) { o.cls = cls_of(e); o.msg = e.what(); }
      o.cerr_text = cap.take();
      c.str("exception", o.cls).str("message", o.msg).i("have_problem", o.have_problem).str("stderr", o.cerr_text.substr(0, 300)).d("amu", o.amu);
      if (!tach) {
         // not part of the property: only used to validate the oracle against the library on valid points
         if (o.computed) {
            const double e = std::max({std::fabs(lib[0] * lib[0] - t.h), std::fabs(lib[1] * lib[1] - t.H), std::fabs(lib[2] * lib[2] - t.A), std::fabs(lib[3] * lib[3] - t.Hp)}) / t.scale;
            out->cell("THDM|C++|gauge-basis-valid|oracle-agrees-with-spectrum", e < 1e-10 ? 0 : 1, &c);
            if (!(e < 1e-10)) out->fail("C16:THDM:tachyon-oracle-disagrees-with-spectrum", "independent tree-level squared masses differ from the model's by " + std::to_string(e) + " of the scale", c);
         } else out->count("THDM valid gauge-basis point refused (" + o.cls + ")");
         continue;
      }
      bool ok; std::string what;
      if (!force) { ok = !o.computed && o.cls == "EPhysicalProblem"; what = o.computed ? "tachyonic spectrum computed silently without force-output" : "wrong error class " + o.cls; }
      else { ok = o.computed && (o.have_problem || o.have_warning || !o.cerr_text.empty()); what = !o.computed ? "refused although force-output is set (" + o.cls + ": " + o.msg + ")" : "tachyonic spectrum: proceeded without any warning or problem"; }
      out->cell("THDM|C++|tachyon:" + kind + "|force" + std::to_string(force), ok ? 0 : 1, &c);
      if (!ok) out->fail("C16:THDM:C++:" + std::string(force ? "force:" : "noforce:") + "tachyon:" + kind, kind + " tachyon force=" + std::to_string(force) + ": " + what, c);
      if (o.computed && !o.have_problem && !o.have_warning && o.cerr_text.empty() && !std::isfinite(o.amu)) out->fail("C16:THDM:silent-nonfinite-result", "tachyon " + kind + ": non-finite a_mu without error, problem or warning", c);
      // C API, gauge basis
      gm2calc_THDM_gauge_basis cb; std::memset(&cb, 0, sizeof cb);
      cb.yukawa_type = static_cast<gm2calc_THDM_yukawa_type>(static_cast<int>(g.yukawa_type)); for (int k = 0; k < 7; ++k) cb.lambda[k] = g.lambda(k); cb.tan_beta = g.tan_beta; cb.m122 = g.m122;
      gm2calc_SM csm; gm2calc_sm_set_to_default(&csm);
      gm2calc_THDM_config ccfg; gm2calc_thdm_config_set_to_default(&ccfg); ccfg.force_output = force; ccfg.running_couplings = cfg.running_couplings;
      gm2calc_THDM* h = nullptr;
      const gm2calc_error e = gm2calc_thdm_new_with_gauge_basis(&h, &cb, &csm, &ccfg);
      const bool cok = force ? (e == gm2calc_NoError && h) : (e == gm2calc_PhysicalProblem && !h);
      J cc = c; cc.i("c_error", static_cast<int>(e));
      out->cell("THDM|C|tachyon:" + kind + "|force" + std::to_string(force), cok ? 0 : 1, &cc);
      if (!cok) out->fail("C16:THDM:C:" + std::string(force ? "force:" : "noforce:") + "tachyon:" + kind, kind + " tachyon through gm2calc_thdm_new_with_gauge_basis, force=" + std::to_string(force) + ": error code " + std::to_string(static_cast<int>(e)) + (h ? ", handle returned" : ", no handle"), cc);
      if (h) gm2calc_thdm_free(h);
      cap.take();
   }
}

static void thdm_case(vh::Rng& r, gen::CerrCapture& cap) {
   static const std::vector<TDef> defs = thdm_defects();
   gen::ThdmOpts op; op.mlo = 60; op.mhi = 2000; op.tblo = 0.5; op.tbhi = 40;
   thdm::Mass_basis b0 = gen::rand_mass_basis(r, op); b0.mh = r.U(100, 140); b0.mH = r.LU(150, 2000); b0.sin_beta_minus_alpha = r.sign() * r.U(0.9, 1); b0.m122 = r.U(-1, 1) * 1e5; b0.yukawa_type = static_cast<thdm::Yukawa_type>(1 + r.range(5));
   try { THDM m(b0, SM()); } catch (const Error&) { ++out->inconclusive; return; }
   ++out->conclusive;
   const int nd = static_cast<int>(defs.size());
   std::vector<std::pair<int, int>> combos;
   for (int i = 0; i < nd; ++i) combos.push_back({i, -1});
   for (int k = 0; k < nd; ++k) { int i = r.range(nd), j = r.range(nd); if (i != j) combos.push_back({i, j}); }
   // tachyon: gauge basis with a negative lambda_1
   combos.push_back({-2, -1});
   for (auto& cb : combos) for (int force = 0; force < 2; ++force) {
      thdm::Mass_basis b = b0; SM sm; thdm::Config cfg; cfg.force_output = force; cfg.running_couplings = r.chance(0.5);
      std::string name; bool any_tach = false, fco = false;
      thdm::Gauge_basis g; bool gauge = false;
      if (cb.first == -2) { name = "tachyon(lambda1<0)"; any_tach = true; gauge = true; g.yukawa_type = b0.yukawa_type; g.lambda << -2.0, 0.5, 0.1, 0.1, 0.1, 0, 0; g.tan_beta = b0.tan_beta; g.m122 = 100; }
      else { defs[cb.first].f(b, sm); name = defs[cb.first].name; fco = defs[cb.first].force_cannot_override; if (cb.second >= 0) { defs[cb.second].f(b, sm); name += std::string("+") + defs[cb.second].name; fco = fco || defs[cb.second].force_cannot_override; } }
      J c = gen::json(b); c.str("defect", name).i("force", force).str("model", "THDM").d("mw", sm.get_mw()).d("mz", sm.get_mz());
      Outcome o; cap.take();
      try {
         THDM* m = gauge ? new THDM(g, sm, cfg) : new THDM(b, sm, cfg);
         o.have_problem = m->get_problems().have_problem(); o.have_warning = m->get_problems().have_warning();
         { // the report channels of the THDM agree: have_x() <=> get_x() non-empty <=> print_x() non-empty
           std::ostringstream pp, pw; m->get_problems().print_problems(pp); m->get_problems().print_warnings(pw);
           const bool okc = o.have_problem == !m->get_problems().get_problems().empty() && o.have_warning == !m->get_problems().get_warnings().empty() && o.have_problem == !pp.str().empty() && o.have_warning == !pw.str().empty();
           out->cell("THDM|C++|report-channels-consistent", okc ? 0 : 1, nullptr);
           if (!okc) { J w = gen::json(b); w.str("get_problems", m->get_problems().get_problems()).str("get_warnings", m->get_problems().get_warnings()).i("have_problem", o.have_problem).i("have_warning", o.have_warning); out->fail("C16:THDM:report-channels-inconsistent", "have_problem/have_warning, get_problems/get_warnings and print_problems/print_warnings disagree", w); } }
         o.amu = calculate_amu_1loop(*m) + calculate_amu_2loop(*m); o.computed = true; delete m;
      } catch (const std::exception& e) { o.cls = cls_of(e); o.msg = e.what(); }
      o.cerr_text = cap.take();
      c.str("exception", o.cls).str("message", o.msg).i("have_problem", o.have_problem).str("stderr", o.cerr_text.substr(0, 300)).d("amu", o.amu);
      bool ok; std::string what;
      const bool inv_type = name.find("invalid-yukawa-type") != std::string::npos;   // documented class for it: ESetupError, as thrown by int_to_cpp_yukawa_type
      if (!force) { ok = !o.computed && (any_tach ? o.cls == "EPhysicalProblem" : (o.cls == "EInvalidInput" || (inv_type && o.cls == "Error"))); what = o.computed ? "computed silently without force-output" : "wrong error class " + o.cls; }
      else { ok = o.computed && (o.have_problem || o.have_warning || !o.cerr_text.empty()); what = !o.computed ? "refused although force-output is set (" + o.cls + ": " + o.msg + ")" : "proceeded without any warning or problem"; }
      const std::string single = cb.second >= 0 ? "pair" : name;
      out->cell("THDM|C++|" + single + "|force" + std::to_string(force), ok ? 0 : 1, &c);
      if (!ok) {
         std::string key = "C16:THDM:C++:" + std::string(force ? "force:" : "noforce:") + single;
         if (force && !o.computed && fco) key = "C16:force-does-not-override:invalid-yukawa-type";
         out->fail(key, name + " force=" + std::to_string(force) + ": " + what, c);
      }
      if (o.computed && !o.have_problem && !o.have_warning && o.cerr_text.empty() && !std::isfinite(o.amu)) out->fail("C16:THDM:silent-nonfinite-result", name + ": non-finite a_mu without error, problem or warning", c);
      // ---- C API
      if (!gauge) {
         gm2calc_THDM_mass_basis cbasis; std::memset(&cbasis, 0, sizeof cbasis);
         cbasis.yukawa_type = static_cast<gm2calc_THDM_yukawa_type>(static_cast<int>(b.yukawa_type)); cbasis.mh = b.mh; cbasis.mH = b.mH; cbasis.mA = b.mA; cbasis.mHp = b.mHp; cbasis.sin_beta_minus_alpha = b.sin_beta_minus_alpha;
         cbasis.lambda_6 = b.lambda_6; cbasis.lambda_7 = b.lambda_7; cbasis.tan_beta = b.tan_beta; cbasis.m122 = b.m122; cbasis.zeta_u = b.zeta_u; cbasis.zeta_d = b.zeta_d; cbasis.zeta_l = b.zeta_l;
         for (int i = 0; i < 3; ++i) for (int k = 0; k < 3; ++k) { cbasis.Delta_u[i][k] = b.Delta_u(i, k); cbasis.Delta_d[i][k] = b.Delta_d(i, k); cbasis.Delta_l[i][k] = b.Delta_l(i, k); cbasis.Pi_u[i][k] = b.Pi_u(i, k); cbasis.Pi_d[i][k] = b.Pi_d(i, k); cbasis.Pi_l[i][k] = b.Pi_l(i, k); }
         gm2calc_SM csm; gm2calc_sm_set_to_default(&csm); csm.mw = sm.get_mw(); csm.mz = sm.get_mz(); csm.ml[1] = sm.get_ml(1);
         gm2calc_THDM_config ccfg; gm2calc_thdm_config_set_to_default(&ccfg); ccfg.force_output = force; ccfg.running_couplings = cfg.running_couplings;
         gm2calc_THDM* h = nullptr;
         const gm2calc_error e = gm2calc_thdm_new_with_mass_basis(&h, &cbasis, &csm, &ccfg);
         const char* en = e == gm2calc_NoError ? "NoError" : (e == gm2calc_InvalidInput ? "InvalidInput" : (e == gm2calc_PhysicalProblem ? "PhysicalProblem" : "UnknownError"));
         const std::string expect = o.cls == "EInvalidInput" ? "InvalidInput" : (o.cls == "EPhysicalProblem" ? "PhysicalProblem" : (o.cls.empty() ? "NoError" : "UnknownError"));
         J cc = c; cc.str("c_error", en).str("expected_from_cpp", expect);
         out->cell("THDM|C|" + single + "|force" + std::to_string(force) + "|code-matches-exception-class", expect == en ? 0 : 1, &cc);
         if (expect != en) out->fail("C16:THDM:C:error-code", name + ": C error code " + en + " but the C++ constructor gives " + (o.cls.empty() ? "no exception" : o.cls), cc);
         if ((e == gm2calc_NoError) != (h != nullptr)) out->fail("C16:THDM:C:handle-vs-code", name + ": handle " + (h ? "non-null" : "null") + " with code " + en, cc);
         if (h) { const double ca = gm2calc_thdm_calculate_amu_1loop(h) + gm2calc_thdm_calculate_amu_2loop(h); if (o.computed && !vh::same_bits(ca, o.amu)) out->fail("C16:THDM:C:result-differs", name + ": C result differs from C++ result", cc); gm2calc_thdm_free(h); }
         cap.take();
      }
   }
   out->sample(gen::json(b0), 1);
}

int main(int argc, char** argv) {
   vh::Args a(argc, argv);
   vh::Out o(a); out = &o;
   gen::CerrCapture cap;
   for (long i = a.first(); i < a.last(); ++i) {
      o.cur = i;
      vh::Rng r(a.seed, a.worker, i);
      ++o.evaluations;
      if (i % 8 == 6) mssm_nonresummed_tachyon_case(r, cap); else if (i % 2 == 0) mssm_case(r, cap); else if (i % 4 == 1) thdm_case(r, cap); else thdm_tachyon_case(r, cap);
   }
   o.finish();
   return 0;
}
