// Re-assembly of the THDM one-loop and fermionic two-loop sums from the model's getters and the
// helper functions declared in src/THDM/gm2_2loop_helpers.hpp.  Gives the sum of absolute terms
// (the natural scale of DESIGN 4.1) and an additivity cross-check against the library's totals.
#pragma once
#include "gm2calc/THDM.hpp"
#include "THDM/gm2_1loop_helpers.hpp"
#include "THDM/gm2_2loop_helpers.hpp"
#include "gm2_ffunctions.hpp"
#include <cmath>
#include <complex>

namespace tt {
using namespace gm2calc;

struct Sum { double sum = 0, sabs = 0; void add(double t) { sum += t; sabs += std::fabs(t); } };

inline thdm::THDM_F_parameters fill_F(const THDM& model) {
   thdm::THDM_F_parameters p;
   p.alpha_em = model.get_alpha_em(); p.mm = model.get_MFe(1); p.mw = model.get_MVWm(); p.mz = model.get_MVZ(); p.mhSM = model.get_sm().get_mh();
   p.mA = model.get_MAh(1); p.mHp = model.get_MHm(1); p.mh = model.get_Mhh(); p.ml = model.get_MFe(); p.mu = model.get_MFu(); p.md = model.get_MFd();
   p.yuh = model.get_yuh(); p.yuH = model.get_yuH(); p.yuA = model.get_yuA(); p.yuHp = model.get_yuHp();
   p.ydh = model.get_ydh(); p.ydH = model.get_ydH(); p.ydA = model.get_ydA(); p.ydHp = model.get_ydHp();
   p.ylh = model.get_ylh(); p.ylH = model.get_ylH(); p.ylA = model.get_ylA(); p.ylHp = model.get_ylHp();
   p.vckm = model.get_sm().get_ckm();
   return p;
}
inline thdm::THDM_B_parameters fill_B(const THDM& model) {
   thdm::THDM_B_parameters p;
   p.alpha_em = model.get_alpha_em(); p.mm = model.get_MFe(1); p.mw = model.get_MVWm(); p.mz = model.get_MVZ(); p.mhSM = model.get_sm().get_mh();
   p.mA = model.get_MAh(1); p.mHp = model.get_MHm(1); p.mh = model.get_Mhh(); p.tb = model.get_tan_beta(); p.zetal = model.get_zeta_l();
   p.cos_beta_minus_alpha = model.get_cos_beta_minus_alpha(); p.lambda5 = model.get_LambdaFive(); p.lambda67 = model.get_LambdaSixSeven();
   return p;
}
inline thdm::THDM_1L_parameters fill_1L(const THDM& model) {
   thdm::THDM_1L_parameters p;
   p.alpha_em = model.get_alpha_em(); p.mm = model.get_MFe(1); p.mw = model.get_MVWm(); p.mz = model.get_MVZ(); p.mhSM = model.get_sm().get_mh();
   p.mA = model.get_MAh(1); p.mHp = model.get_MHm(1); p.ml = model.get_MFe(); p.mv = model.get_MFv(); p.mh = model.get_Mhh();
   p.ylh = model.get_ylh(); p.ylH = model.get_ylH(); p.ylA = model.get_ylA(); p.ylHp = model.get_ylHp();
   return p;
}

inline double v2_of(double alpha_em, double mw, double mz) { const double sw2 = 1 - mw * mw / (mz * mz); return 4 * mw * mw / (4 * M_PI * alpha_em / sw2); }

// fermionic two-loop: neutral (h, H, A minus hSM) and charged parts, term by term
inline void fermionic_terms(const thdm::THDM_F_parameters& t, Sum& neutral, Sum& charged) {
   using namespace gm2calc::thdm;
   const double mh2 = t.mh(0) * t.mh(0), mH2 = t.mh(1) * t.mh(1), mA2 = t.mA * t.mA, mhSM2 = t.mhSM * t.mhSM, mw2 = t.mw * t.mw, mz2 = t.mz * t.mz, mHp2 = t.mHp * t.mHp;
   const double v2 = v2_of(t.alpha_em, t.mw, t.mz), sw2 = 1 - mw2 / mz2;
   const double pn = std::pow(t.alpha_em * t.mm / (2 * M_PI * t.mw), 2) / sw2;
   auto re = [](const std::complex<double>& a, const std::complex<double>& b) { return std::real(std::conj(a) * b); };
   for (int i = 0; i < 3; ++i) {
      const double mu2 = t.mu(i) * t.mu(i), md2 = t.md(i) * t.md(i), ml2 = t.ml(i) * t.ml(i);
      neutral.add(pn * fuS(mh2, mu2, mw2, mz2) * re(t.yuh(i, i), t.ylh(1, 1)) * v2 / (t.mu(i) * t.ml(1)));
      neutral.add(pn * fdS(mh2, md2, mw2, mz2) * re(t.ydh(i, i), t.ylh(1, 1)) * v2 / (t.md(i) * t.ml(1)));
      neutral.add(pn * flS(mh2, ml2, mw2, mz2) * re(t.ylh(i, i), t.ylh(1, 1)) * v2 / (t.ml(i) * t.ml(1)));
      neutral.add(pn * fuS(mH2, mu2, mw2, mz2) * re(t.yuH(i, i), t.ylH(1, 1)) * v2 / (t.mu(i) * t.ml(1)));
      neutral.add(pn * fdS(mH2, md2, mw2, mz2) * re(t.ydH(i, i), t.ylH(1, 1)) * v2 / (t.md(i) * t.ml(1)));
      neutral.add(pn * flS(mH2, ml2, mw2, mz2) * re(t.ylH(i, i), t.ylH(1, 1)) * v2 / (t.ml(i) * t.ml(1)));
      neutral.add(pn * fuA(mA2, mu2, mw2, mz2) * re(t.yuA(i, i), t.ylA(1, 1)) * v2 / (t.mu(i) * t.ml(1)));
      neutral.add(pn * fdA(mA2, md2, mw2, mz2) * re(t.ydA(i, i), t.ylA(1, 1)) * v2 / (t.md(i) * t.ml(1)));
      neutral.add(pn * flA(mA2, ml2, mw2, mz2) * re(t.ylA(i, i), t.ylA(1, 1)) * v2 / (t.ml(i) * t.ml(1)));
      neutral.add(-pn * fuS(mhSM2, mu2, mw2, mz2)); neutral.add(-pn * fdS(mhSM2, md2, mw2, mz2)); neutral.add(-pn * flS(mhSM2, ml2, mw2, mz2));
   }
   const double pc = std::pow(t.alpha_em * t.mm / (8 * M_PI * t.mw * sw2), 2) * v2 / t.ml(1);
   for (int i = 0; i < 3; ++i) {
      for (int j = 0; j < 3; ++j) {
         charged.add(pc * fuHp(mHp2, t.md(j) * t.md(j), t.mu(i) * t.mu(i), mw2, mz2) * std::real(std::conj(t.yuHp(i, j)) * t.vckm(i, j) * t.ylHp(1, 1)) / t.mu(i));
         charged.add(pc * fdHp(mHp2, t.md(j) * t.md(j), t.mu(i) * t.mu(i), mw2, mz2) * std::real(std::conj(t.ydHp(i, j)) * t.vckm(i, j) * t.ylHp(1, 1)) / t.md(j));
      }
      charged.add(pc * flHp(mHp2, t.ml(i) * t.ml(i), mw2, mz2) * std::real(std::conj(t.ylHp(i, i)) * t.ylHp(1, 1)) / t.ml(i));
   }
}

// one-loop: flavour sum of scalar, pseudoscalar and charged-Higgs terms minus the SM-Higgs term
inline Sum oneloop_terms(const thdm::THDM_1L_parameters& p) {
   Sum s;
   const double mm2 = p.mm * p.mm, pre = mm2 / (8 * M_PI * M_PI);
   const double v2 = v2_of(p.alpha_em, p.mw, p.mz);
   auto neutral = [&](const Eigen::Matrix<std::complex<double>, 3, 3>& y, double mS, int sign) {
      const double mS2 = mS * mS;
      for (int g = 0; g < 3; ++g) {
         const double x = p.ml(g) * p.ml(g) / mS2;
         s.add(pre * (std::norm(y(g, 1)) + std::norm(y(1, g))) * F1C(x) / 24 / mS2);
         s.add(pre * sign * std::real(std::conj(y(g, 1)) * std::conj(y(1, g))) * p.ml(g) / p.ml(1) * F2C(x) / 3 / mS2);
      }
   };
   neutral(p.ylh, p.mh(0), +1); neutral(p.ylH, p.mh(1), +1); neutral(p.ylA, p.mA, -1);
   const double mHp2 = p.mHp * p.mHp;
   for (int g = 0; g < 3; ++g) { s.add(-pre * std::norm(p.ylHp(g, 1)) / 48 * F1N(p.mv(1) * p.mv(1) / mHp2) / mHp2); s.add(-pre * std::norm(p.ylHp(g, 1)) / 48 * F1N(p.mv(g) * p.mv(g) / mHp2) / mHp2); }
   const double mhSM2 = p.mhSM * p.mhSM, x = mm2 / mhSM2, ySM2 = mm2 / v2;
   s.add(-pre * 2 * ySM2 * F1C(x) / 24 / mhSM2); s.add(-pre * ySM2 * F2C(x) / 3 / mhSM2);
   return s;
}

} // namespace tt
