// Random model generators shared by the harnesses (MSSM on-shell points, THDM mass/gauge basis points).
#pragma once
#include "vh.hpp"
#include "gm2calc/MSSMNoFV_onshell.hpp"
#include "gm2calc/THDM.hpp"
#include "gm2calc/SM.hpp"
#include "gm2calc/gm2_error.hpp"
#include <iostream>
#include <sstream>

namespace gen {

// capture std::cerr around library calls (single-threaded harnesses only)
struct CerrCapture {
   std::stringstream ss;
   std::streambuf* old;
   CerrCapture() : old(std::cerr.rdbuf(ss.rdbuf())) {}
   ~CerrCapture() { std::cerr.rdbuf(old); }
   std::string take() { std::string s = ss.str(); ss.str(""); ss.clear(); return s; }
};

// ------------------------------------------------------------------ MSSM
struct MssmPoint {
   double tb, mu, m1, m2, m3, ma, Q;
   double ml[3], me[3], mq[3], mU[3], mD[3], Ae[3], Au[3], Ad[3];
   vh::J json() const {
      vh::J j;
      j.d("tb", tb).d("mu", mu).d("m1", m1).d("m2", m2).d("m3", m3).d("ma", ma).d("Q", Q);
      j.arr("ml", ml, ml + 3).arr("me", me, me + 3).arr("mq", mq, mq + 3).arr("mU", mU, mU + 3).arr("mD", mD, mD + 3);
      j.arr("Ae", Ae, Ae + 3).arr("Au", Au, Au + 3).arr("Ad", Ad, Ad + 3);
      return j;
   }
};

inline MssmPoint rand_mssm(vh::Rng& r, double lo, double hi, double tblo, double tbhi, double sqfac = 3.0) {
   MssmPoint p;
   p.tb = r.LU(tblo, tbhi);
   p.mu = r.sign() * r.LU(lo, hi); p.m1 = r.sign() * r.LU(lo, hi); p.m2 = r.sign() * r.LU(lo, hi);
   p.m3 = r.sign() * r.LU(lo, sqfac * hi); p.ma = r.LU(lo, hi); p.Q = r.LU(lo, hi);
   for (int i = 0; i < 3; ++i) {
      p.ml[i] = r.LU(lo, hi); p.me[i] = r.LU(lo, hi);
      p.mq[i] = r.LU(lo, sqfac * hi); p.mU[i] = r.LU(lo, sqfac * hi); p.mD[i] = r.LU(lo, sqfac * hi);
      p.Ae[i] = r.U(-1, 1) * hi; p.Au[i] = r.U(-1, 1) * hi; p.Ad[i] = r.U(-1, 1) * hi;
   }
   return p;
}

// fills the on-shell input parameters; k scales all dimensionful SUSY parameters, flip = -1 flips mu, M_i, A_f
inline void fill_mssm(gm2calc::MSSMNoFV_onshell& m, const MssmPoint& p, double k = 1, int flip = 1) {
   m.set_TB(p.tb);
   m.set_Mu(flip * k * p.mu); m.set_MassB(flip * k * p.m1); m.set_MassWB(flip * k * p.m2); m.set_MassG(flip * k * p.m3);
   m.set_MA0(k * p.ma); m.set_scale(k * p.Q);
   for (int i = 0; i < 3; ++i) {
      m.set_ml2(i, i, k * k * p.ml[i] * p.ml[i]); m.set_me2(i, i, k * k * p.me[i] * p.me[i]);
      m.set_mq2(i, i, k * k * p.mq[i] * p.mq[i]); m.set_mu2(i, i, k * k * p.mU[i] * p.mU[i]); m.set_md2(i, i, k * k * p.mD[i] * p.mD[i]);
      m.set_Ae(i, i, flip * k * p.Ae[i]); m.set_Au(i, i, flip * k * p.Au[i]); m.set_Ad(i, i, flip * k * p.Ad[i]);
   }
}
inline gm2calc::MSSMNoFV_onshell make_mssm(const MssmPoint& p, double k = 1, int flip = 1) {
   gm2calc::MSSMNoFV_onshell m;
   fill_mssm(m, p, k, flip);
   m.calculate_masses();
   return m;
}

// ------------------------------------------------------------------ THDM
inline vh::J json(const gm2calc::thdm::Mass_basis& b) {
   vh::J j;
   j.i("type", static_cast<int>(b.yukawa_type)).d("mh", b.mh).d("mH", b.mH).d("mA", b.mA).d("mHp", b.mHp)
      .d("sba", b.sin_beta_minus_alpha).d("l6", b.lambda_6).d("l7", b.lambda_7).d("tb", b.tan_beta).d("m122", b.m122)
      .d("zu", b.zeta_u).d("zd", b.zeta_d).d("zl", b.zeta_l);
   j.arr("Delta_u", b.Delta_u.data(), b.Delta_u.data() + 9).arr("Delta_d", b.Delta_d.data(), b.Delta_d.data() + 9)
      .arr("Delta_l", b.Delta_l.data(), b.Delta_l.data() + 9).arr("Pi_u", b.Pi_u.data(), b.Pi_u.data() + 9)
      .arr("Pi_d", b.Pi_d.data(), b.Pi_d.data() + 9).arr("Pi_l", b.Pi_l.data(), b.Pi_l.data() + 9);
   return j;
}
inline vh::J json(const gm2calc::thdm::Gauge_basis& b) {
   vh::J j;
   j.i("type", static_cast<int>(b.yukawa_type)).arr("lambda", b.lambda.data(), b.lambda.data() + 7).d("tb", b.tan_beta)
      .d("m122", b.m122).d("zu", b.zeta_u).d("zd", b.zeta_d).d("zl", b.zeta_l);
   j.arr("Delta_u", b.Delta_u.data(), b.Delta_u.data() + 9).arr("Delta_d", b.Delta_d.data(), b.Delta_d.data() + 9)
      .arr("Delta_l", b.Delta_l.data(), b.Delta_l.data() + 9).arr("Pi_u", b.Pi_u.data(), b.Pi_u.data() + 9)
      .arr("Pi_d", b.Pi_d.data(), b.Pi_d.data() + 9).arr("Pi_l", b.Pi_l.data(), b.Pi_l.data() + 9);
   return j;
}

inline Eigen::Matrix<double, 3, 3> rand33(vh::Rng& r, double scale) {
   Eigen::Matrix<double, 3, 3> m;
   for (int i = 0; i < 9; ++i) m(i / 3, i % 3) = r.U(-1, 1) * scale;
   return m;
}

struct ThdmOpts {
   double mlo = 10, mhi = 1e4;
   double tblo = 0.05, tbhi = 200;
   double zeta = 5, delta = 1e-2, pi = 1e-2;
   bool special_points = true;
};

inline gm2calc::thdm::Mass_basis rand_mass_basis(vh::Rng& r, const ThdmOpts& o = ThdmOpts()) {
   gm2calc::thdm::Mass_basis b;
   b.yukawa_type = static_cast<gm2calc::thdm::Yukawa_type>(1 + r.range(6));
   b.mh = r.LU(o.mlo, o.mhi); b.mH = r.LU(b.mh, o.mhi);
   b.mA = r.LU(o.mlo, o.mhi); b.mHp = r.LU(o.mlo, o.mhi);
   b.sin_beta_minus_alpha = r.U(-1, 1);
   if (o.special_points) {
      const int sp = r.range(12);
      if (sp == 0) b.sin_beta_minus_alpha = 1;
      else if (sp == 1) b.sin_beta_minus_alpha = -1;
      else if (sp == 2) b.sin_beta_minus_alpha = 0;
      else if (sp == 3) b.sin_beta_minus_alpha = r.sign() * (1 - r.LU(1e-12, 1e-2));   // alignment region
   }
   b.tan_beta = r.LU(o.tblo, o.tbhi);
   b.lambda_6 = r.U(-3, 3); b.lambda_7 = r.U(-3, 3);
   b.m122 = r.sign() * r.LU(1, 1e7);
   b.zeta_u = r.U(-o.zeta, o.zeta); b.zeta_d = r.U(-o.zeta, o.zeta); b.zeta_l = r.U(-o.zeta, o.zeta);
   b.Delta_u = rand33(r, o.delta); b.Delta_d = rand33(r, o.delta); b.Delta_l = rand33(r, o.delta);
   b.Pi_u = rand33(r, o.pi); b.Pi_d = rand33(r, o.pi); b.Pi_l = rand33(r, o.pi);
   // exact special values of single inputs (drawn last, so that the other parameters of a case do not depend on this step): Z2-symmetric and softly broken
   // shapes, tan(beta) = 1, alignment parameters 0 / +-1, vanishing flavour-violating matrices, ties of the heavy masses
   if (o.special_points && r.chance(0.15)) {
      switch (r.range(10)) {
      case 0: b.lambda_6 = 0; break;
      case 1: b.lambda_7 = 0; break;
      case 2: b.lambda_6 = 0; b.lambda_7 = 0; break;
      case 3: b.tan_beta = 1; break;
      case 4: { const double z[3] = {0, 1, -1}; b.zeta_l = z[r.range(3)]; if (r.chance(0.5)) { b.zeta_u = z[r.range(3)]; b.zeta_d = z[r.range(3)]; } } break;
      case 5: b.m122 = 0; break;
      case 6: b.Delta_u.setZero(); b.Delta_d.setZero(); b.Delta_l.setZero(); b.Pi_u.setZero(); b.Pi_d.setZero(); b.Pi_l.setZero(); break;
      case 7: b.mA = b.mH; break;
      case 8: b.mHp = b.mA; break;
      default: b.mHp = b.mH; break;
      }
   }
   return b;
}

inline gm2calc::SM rand_sm(vh::Rng& r, bool complex_ckm_allowed = true) {
   gm2calc::SM sm;
   const int k = r.range(3);
   if (k == 1) sm.set_ckm_from_wolfenstein(0.2257, 0.814, 0.135, complex_ckm_allowed ? 0.349 : 0.0);
   if (k == 2) sm.set_ckm_from_angles(r.U(0, 0.5), r.U(0, 0.1), r.U(0, 0.2), complex_ckm_allowed ? r.U(-3.1, 3.1) : 0.0);
   return sm;
}

} // namespace gen
