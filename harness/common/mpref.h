/* C interface to the multiprecision reference (harness/common/mpref_impl.hpp, 200 decimal digits).
   Results are returned as long double (64-bit mantissa): enough for 1e-13 relative comparisons. */
#pragma once
#ifdef __cplusplus
extern "C" {
#endif
enum { MPREF_F1C = 0, MPREF_F2C, MPREF_F3C, MPREF_F4C, MPREF_F1N, MPREF_F2N, MPREF_F3N, MPREF_F4N, MPREF_G3, MPREF_G4,
       MPREF_fPS, MPREF_fS, MPREF_fsferm, MPREF_fCSl, MPREF_F1, MPREF_F1t, MPREF_F2, MPREF_F3, MPREF_dilog, MPREF_Cl2,
       MPREF_N1 };
enum { MPREF_Fa = 100, MPREF_Fb, MPREF_Iabc, MPREF_Phi, MPREF_lambda2, MPREF_FPZ, MPREF_FSZ, MPREF_FCWl, MPREF_FCWu,
       MPREF_FCWd, MPREF_fCSd, MPREF_fCSu };
long double mpref_eval1(int fn, double x);
long double mpref_eval1_ld(int fn, long double x);
long double mpref_evaln(int fn, const double* args);
void mpref_cdilog(double re, double im, long double* ore, long double* oim);
/* same functions at 100 digits (self-test of the reference against itself) */
long double mpref_eval1_lo(int fn, double x);
long double mpref_evaln_lo(int fn, const double* args);
#ifdef __cplusplus
}
#endif
