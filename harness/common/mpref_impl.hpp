// Multiprecision reference implementations of the loop and special functions, written from the
// published closed forms (hep-ph/0609168, 1003.5820, 1311.1775, 1502.04199, 1607.06292,
// Davydychev-Tausk), not from the library's expansions.  Templated on the number of decimal
// digits so that the self-test can compare two precisions.
#pragma once
#include <boost/multiprecision/cpp_bin_float.hpp>
#include <boost/math/special_functions/bernoulli.hpp>
#include <boost/math/constants/constants.hpp>
#include <vector>
#include <algorithm>
#include <stdexcept>

namespace mpr {
namespace mp = boost::multiprecision;

template <unsigned D> struct Ref {
   typedef mp::number<mp::cpp_bin_float<D>, mp::et_off> R;
   struct C {
      R re, im;
      C() : re(0), im(0) {}
      C(const R& a) : re(a), im(0) {}
      C(const R& a, const R& b) : re(a), im(b) {}
      C operator+(const C& o) const { return C(re + o.re, im + o.im); }
      C operator-(const C& o) const { return C(re - o.re, im - o.im); }
      C operator-() const { return C(-re, -im); }
      C operator*(const C& o) const { return C(re * o.re - im * o.im, re * o.im + im * o.re); }
      C operator/(const C& o) const { R n = o.re * o.re + o.im * o.im; return C((re * o.re + im * o.im) / n, (im * o.re - re * o.im) / n); }
      R norm() const { return re * re + im * im; }
   };
   static R pi() { static const R p = boost::math::constants::pi<R>(); return p; }
   static R eps() { static const R e = pow(R(10), -static_cast<int>(D) + 5); return e; }
   static C clog(const C& z) { return C(log(z.norm()) / 2, atan2(z.im, z.re)); }
   static C csqrt_real(const R& x) { return x >= 0 ? C(sqrt(x), 0) : C(0, sqrt(-x)); }

   // B_{2k}/(2k+1)!, k = 1..
   static const std::vector<R>& bf() {
      static std::vector<R> v;
      if (v.empty()) {
         R fact = 1;   // (2k+1)!
         for (int k = 1; k <= 260; ++k) {
            fact *= R(2 * k) * R(2 * k + 1);
            v.push_back(boost::math::bernoulli_b2n<R>(k) / fact);
         }
      }
      return v;
   }
   // Li2(z) = sum_n B_n u^(n+1)/(n+1)!, u = -ln(1-z), for |u| < 2 pi (used for |u| <~ 1.4)
   static C li2_useries(const C& u) {
      const C u2 = u * u;
      C sum = u - u2 * C(R(1) / 4);
      C up = u2 * u;   // u^(2k+1)
      const std::vector<R>& b = bf();
      for (size_t k = 0; k < b.size(); ++k) {
         C term = up * C(b[k]);
         sum = sum + term;
         if (term.norm() <= eps() * eps() * sum.norm() || term.norm() == 0) break;
         up = up * u2;
      }
      return sum;
   }
   // complex dilogarithm; on the cut (Im z = 0, Re z > 1) the value continuous from below (Im = -pi ln x)
   static C cli2(const C& z) {
      if (z.re == 0 && z.im == 0) return C();
      if (z.im == 0 && z.re == 1) return C(pi() * pi() / 6);
      const R nz = z.norm();
      if (nz > 1) {
         // Li2(z) = -pi^2/6 - ln^2(-z)/2 - Li2(1/z)
         C mz = -z;
         C l;
         if (z.im == 0 && z.re > 1) l = C(log(z.re), pi());   // z = x - i0: arg(-z) = +pi, Im Li2 = -pi ln x
         else l = clog(mz);
         return -C(pi() * pi() / 6) - l * l * C(R(1) / 2) - cli2(C(1) / z);
      }
      if (z.re > R(1) / 2) {
         // Li2(z) = pi^2/6 - ln z ln(1-z) - Li2(1-z)
         C omz = C(1) - z;
         return C(pi() * pi() / 6) - clog(z) * clog(omz) - cli2(omz);
      }
      if (nz < R("1e-6")) {   // direct power series: 1 - z would lose the digits of a tiny z
         C sum, zp = z;
         for (int k = 1; k < 200; ++k) {
            C term = zp / C(R(k) * R(k));
            sum = sum + term;
            if (term.norm() <= eps() * eps() * sum.norm()) break;
            zp = zp * z;
         }
         return sum;
      }
      C omz = C(1) - z;
      return li2_useries(-clog(omz));
   }
   static R li2(const R& x) { return cli2(C(x)).re; }

   // Clausen function for real argument (exact range reduction at working precision)
   static R cl2(R t) {
      const R twopi = 2 * pi();
      R s = 1;
      if (t < 0) { t = -t; s = -1; }
      t = t - twopi * floor(t / twopi);
      if (t > pi()) { t = twopi - t; s = -s; }
      if (t == 0 || t == pi()) return 0;
      // Cl2(t) = t - t ln t + sum_{n>=1} |B_2n| t^(2n+1) / (2n (2n+1) (2n)!)  = ... |B_2n|/(2n+1)! * t^(2n+1)/(2n)
      R sum = t - t * log(t);
      const R t2 = t * t;
      R tp = t * t2;
      const std::vector<R>& b = bf();
      for (size_t k = 0; k < b.size(); ++k) {
         R term = abs(b[k]) * tp / R(2 * (k + 1));
         sum += term;
         if (term <= eps() * abs(sum)) break;
         tp *= t2;
      }
      return s * sum;
   }

   static R sqr(const R& x) { return x * x; }
   static R p3(const R& x) { return x * x * x; }
   static R p4(const R& x) { return sqr(sqr(x)); }

   // ---- one-variable loop functions
   static R F1C(const R& x) { if (x == 0) return 4; if (x == 1) return 1; return 2 / p4(x - 1) * (2 + 3 * x - 6 * x * x + x * x * x + 6 * x * log(x)); }
   static R F2C(const R& x) { if (x == 1) return 1; return 3 / (2 * p3(1 - x)) * (-3 + 4 * x - x * x - 2 * log(x)); }
   static R F3C(const R& x) { if (x == 1) return 1; R lx = log(x), x2 = x * x; return 4 / (141 * p4(x - 1)) * ((1 - x) * (151 * x2 - 335 * x + 592) + 6 * (21 * x * x2 - 108 * x2 - 93 * x + 50) * lx - 54 * x * (x2 - 2 * x - 2) * lx * lx - 108 * x * (x2 - 2 * x + 12) * li2(1 - x)); }
   static R F4C(const R& x) { if (x == 0) return 0; if (x == 1) return 1; R lx = log(x), x2 = x * x; return -9 / (122 * p3(1 - x)) * (8 * (x2 - 3 * x + 2) + (11 * x2 - 40 * x + 5) * lx - 2 * (x2 - 2 * x - 2) * lx * lx - 4 * (x2 - 2 * x + 9) * li2(1 - x)); }
   static R F1N(const R& x) { if (x == 0) return 2; if (x == 1) return 1; return 2 / p4(x - 1) * (1 - 6 * x + 3 * x * x + 2 * x * x * x - 6 * x * x * log(x)); }
   static R F2N(const R& x) { if (x == 0) return 3; if (x == 1) return 1; return 3 / p3(1 - x) * (1 - x * x + 2 * x * log(x)); }
   static R F3N(const R& x) { if (x == 0) return R(8) / 105; if (x == 1) return 1; R x2 = x * x; return 4 / (105 * p4(x - 1)) * ((1 - x) * (-97 * x2 - 529 * x + 2) + 6 * x2 * (13 * x + 81) * log(x) + 108 * x * (7 * x + 4) * li2(1 - x)); }
   static R F4N(const R& x) { if (x == 0) return -R(3) / 4 * (pi() * pi() - 9); if (x == 1) return 1; return -R(9) / 4 / p3(1 - x) * ((x + 3) * (x * log(x) + x - 1) + (6 * x + 2) * li2(1 - x)); }
   static R G3(const R& x) { if (x == 1) return R(1) / 3; return ((x - 1) * (x - 3) + 2 * log(x)) / (2 * p3(x - 1)); }
   static R G4(const R& x) { if (x == 1) return R(1) / 6; return ((x - 1) * (x + 1) - 2 * x * log(x)) / (2 * p3(x - 1)); }
   // f_PS(z) = 2z/y [Li2(1-(1-y)/(2z)) - Li2(1-(1+y)/(2z))], y = sqrt(1-4z); complex y for z > 1/4 (hep-ph/0609168 Eq. (70))
   static R fPS(const R& z) {
      if (z == 0) return 0;
      if (z == R(1) / 4) return log(R(4));
      C y = csqrt_real(1 - 4 * z);
      C a = C(1) - (C(1) - y) / C(2 * z), b = C(1) - (C(1) + y) / C(2 * z);
      return (C(2 * z) / y * (cli2(a) - cli2(b))).re;
   }
   static R fS(const R& z) { if (z == 0) return 0; return (2 * z - 1) * fPS(z) - 2 * z * (2 + log(z)); }
   static R fsferm(const R& z) { if (z == 0) return 0; return z / 2 * (2 + log(z) - fPS(z)); }
   static R fCSl(const R& z) { if (z == 0) return 0; return z * (z + z * (z - 1) * (li2(1 - 1 / z) - pi() * pi() / 6) + (z - R(1) / 2) * log(z)); }
   static R F1(const R& w) { if (w == 0) return 0; return (w - R(1) / 2) * fPS(w) - w * (2 + log(w)); }
   static R F1t(const R& w) { return fPS(w) / 2; }
   static R F2(const R& w) { return 1 + (log(w) - fPS(w)) / 2; }
   static R F3(const R& w) { return (R(1) / 2 + R(15) / 2 * w) * (2 + log(w)) + (R(17) / 4 - R(15) / 2 * w) * fPS(w); }

   // ---- multi-variable
   static R hdisp() { static const R h = pow(R(10), -static_cast<int>(D) / 5); return h; }   // displacement for exact coincidences
   static R Fa(R x, R y) { if (x == 0 && y == 0) return 0; if (x == y) { y = x * (1 + hdisp()); x = x * (1 - hdisp()); } return -(G3(x) - G3(y)) / (x - y); }
   static R Fb(R x, R y) { if (x == 0 && y == 0) return 0; if (x == y) { y = x * (1 + hdisp()); x = x * (1 - hdisp()); } return -(G4(x) - G4(y)) / (x - y); }
   static R Iabc(const R& a, const R& b, const R& c) {
      R v[3] = {a * a, b * b, c * c};
      std::sort(v, v + 3);
      if (v[2] == 0) return 0;
      if (v[1] == 0) return 0;   // I(0,0,z) is logarithmically divergent; the library documents 0 only for all-zero (not sampled)
      const R h = hdisp();
      if (v[0] == v[1]) v[1] *= (1 + h);
      if (v[1] == v[2] || v[0] == v[2]) v[2] *= (1 + 3 * h);
      const R &x = v[0], &y = v[1], &z = v[2];
      auto t = [](const R& p, const R& q) -> R { if (p == 0 || q == 0) return R(0); return p * q * log(p / q); };
      return (t(x, y) + t(y, z) + t(z, x)) / ((x - y) * (y - z) * (x - z));
   }
   static R lambda2uv(const R& u, const R& v) { return sqr(1 - u - v) - 4 * u * v; }
   static R lambda2(const R& x, const R& y, const R& z) { return x * x + y * y + z * z - 2 * x * y - 2 * y * z - 2 * x * z; }
   // Phi(x,y,z) of 1607.06292 Eq.(68) = z lambda^2(u,v)/2 * Phi_DT(u,v), u = x/z, v = y/z (z largest)
   static R Phi(const R& x_, const R& y_, const R& z_) {
      R v3[3] = {x_, y_, z_};
      std::sort(v3, v3 + 3);
      const R &x = v3[0], &y = v3[1], &z = v3[2];
      if (z == 0) return 0;
      const R u = x / z, v = y / z;
      const R l2 = lambda2uv(u, v);
      if (l2 == 0) return 0;
      if (u == 0) return 0;   // not sampled with exact zeros except through the documented-limit table
      C lam = csqrt_real(l2);
      C a = (C(1 + u - v) - lam) / C(2), b = (C(1 - u + v) - lam) / C(2);
      C p = (C(2) * clog(a) * clog(b) - C(log(u) * log(v)) - C(2) * cli2(a) - C(2) * cli2(b) + C(pi() * pi() / 3)) / lam;
      return p.re * z * l2 / 2;
   }
   template <class F> static R dq(F f, R x, R y) {   // (y f(x) - x f(y))/(x - y)
      if (x == 0 || y == 0) return 0;
      if (x == y) { y = x * (1 + hdisp()); x = x * (1 - hdisp()); }
      return (y * f(x) - x * f(y)) / (x - y);
   }
   static R FPZ(const R& x, const R& y) { return dq(fPS, x, y); }
   static R FSZ(const R& x, const R& y) { return dq(fS, x, y); }
   static R FCWl(const R& x, const R& y) { return dq(fCSl, x, y); }
   static void fCS_core(const R& xu, const R& xd, const R& s, const R& c, const R& cbar, R& core, R& phiy, R& lxu, R& lxd) {
      lxu = log(xu); lxd = log(xd);
      R y = sqr(xu - xd) - 2 * (xu + xd) + 1;
      phiy = Phi(xd, xu, R(1)) / y;
      core = -(xu - xd) + (cbar - c * (xu - xd)) * phiy + c * (li2(1 - xd / xu) - lxu * (lxd - lxu) / 2) + (s + xd) * lxd + (s - xu) * lxu;
   }
   static R fCSd(const R& xu, const R& xd, const R& qu, const R& qd) {
      if (xd == 0) return 0;
      R s = (qu + qd) / 4, c = sqr(xu - xd) - qu * xu + qd * xd, cbar = (xu - qu) * xu - (xd + qd) * xd, core, phiy, lxu, lxd;
      fCS_core(xu, xd, s, c, cbar, core, phiy, lxu, lxd);
      return xd * core;
   }
   static R fCSu(const R& xu, const R& xd, const R& qu, const R& qd) {
      R s = 1 + (qu + qd) / 4, c = sqr(xu - xd) - (qu + 2) * xu + (qd + 2) * xd, cbar = (xu - qu - 2) * xu - (xd + qd + 2) * xd, core, phiy, lxu, lxd;
      fCS_core(xu, xd, s, c, cbar, core, phiy, lxu, lxd);
      return xu * (core - R(4) / 3 * (xu - xd - 1) * phiy - (lxd + lxu) * (lxd - lxu) / 3);
   }
   static R FCWu(const R& xu, const R& xd, const R& yu, const R& yd, const R& qu, const R& qd) { return (yu * fCSu(xu, xd, qu, qd) - xu * fCSu(yu, yd, qu, qd)) / (xu - yu); }
   static R FCWd(const R& xu, const R& xd, const R& yu, const R& yd, const R& qu, const R& qd) { return (yd * fCSd(xu, xd, qu, qd) - xd * fCSd(yu, yd, qu, qd)) / (xd - yd); }

   static R eval1(int fn, const R& x) {
      switch (fn) {
      case 0: return F1C(x); case 1: return F2C(x); case 2: return F3C(x); case 3: return F4C(x);
      case 4: return F1N(x); case 5: return F2N(x); case 6: return F3N(x); case 7: return F4N(x);
      case 8: return G3(x); case 9: return G4(x); case 10: return fPS(x); case 11: return fS(x);
      case 12: return fsferm(x); case 13: return fCSl(x); case 14: return F1(x); case 15: return F1t(x);
      case 16: return F2(x); case 17: return F3(x); case 18: return li2(x); case 19: return cl2(x);
      }
      throw std::runtime_error("mpref: bad function id");
   }
   static R evaln(int fn, const double* a) {
      switch (fn) {
      case 100: return Fa(R(a[0]), R(a[1])); case 101: return Fb(R(a[0]), R(a[1]));
      case 102: return Iabc(R(a[0]), R(a[1]), R(a[2])); case 103: return Phi(R(a[0]), R(a[1]), R(a[2]));
      case 104: return lambda2(R(a[0]), R(a[1]), R(a[2]));
      case 105: return FPZ(R(a[0]), R(a[1])); case 106: return FSZ(R(a[0]), R(a[1])); case 107: return FCWl(R(a[0]), R(a[1]));
      case 108: return FCWu(R(a[0]), R(a[1]), R(a[2]), R(a[3]), R(a[4]), R(a[5]));
      case 109: return FCWd(R(a[0]), R(a[1]), R(a[2]), R(a[3]), R(a[4]), R(a[5]));
      case 110: return fCSd(R(a[0]), R(a[1]), R(a[2]), R(a[3])); case 111: return fCSu(R(a[0]), R(a[1]), R(a[2]), R(a[3]));
      }
      throw std::runtime_error("mpref: bad function id");
   }
};
} // namespace mpr
