// Shared harness plumbing: counter-based PRNG, command line, JSONL event writer.
#pragma once
#include <cinttypes>
#include <cmath>
#include <cstdint>
#include <cstdio>
#include <cstdlib>
#include <cstring>
#include <map>
#include <string>
#include <vector>
#include <algorithm>
#include <limits>

namespace vh {

inline uint64_t splitmix(uint64_t& x) {
   uint64_t z = (x += 0x9e3779b97f4a7c15ULL);
   z = (z ^ (z >> 30)) * 0xbf58476d1ce4e5b9ULL;
   z = (z ^ (z >> 27)) * 0x94d049bb133111ebULL;
   return z ^ (z >> 31);
}

// xoshiro256** seeded from (seed, worker, index, stream): every case replays alone
struct Rng {
   uint64_t s[4];
   Rng(uint64_t seed, uint64_t worker, uint64_t index, uint64_t stream = 0) {
      uint64_t x = seed * 0x9e3779b97f4a7c15ULL + 0x1234567;
      x ^= splitmix(x) + worker * 0xd1342543de82ef95ULL;
      x ^= splitmix(x) + index * 0xa0761d6478bd642fULL;
      x ^= splitmix(x) + stream * 0xe7037ed1a0b428dbULL;
      for (auto& v : s) v = splitmix(x);
   }
   static uint64_t rotl(uint64_t x, int k) { return (x << k) | (x >> (64 - k)); }
   uint64_t next() {
      const uint64_t r = rotl(s[1] * 5, 7) * 9, t = s[1] << 17;
      s[2] ^= s[0]; s[3] ^= s[1]; s[1] ^= s[2]; s[0] ^= s[3]; s[2] ^= t; s[3] = rotl(s[3], 45);
      return r;
   }
   double u01() { return (next() >> 11) * (1.0 / 9007199254740992.0); }
   double U(double a, double b) { return a + (b - a) * u01(); }
   double LU(double a, double b) { return std::exp(U(std::log(a), std::log(b))); }
   int sign() { return (next() & 1) ? 1 : -1; }
   int range(int n) { return static_cast<int>(next() % static_cast<uint64_t>(n)); }   // 0..n-1
   bool chance(double p) { return u01() < p; }
   template <class T> const T& pick(const std::vector<T>& v) { return v[range(static_cast<int>(v.size()))]; }
};

struct Args {
   uint64_t seed = 1;
   int worker = 0, nworkers = 1;
   long cases = 100;
   long only = -1;
   bool verbose = false;
   std::string out;
   std::map<std::string, std::string> opt;
   Args(int argc, char** argv) {
      for (int i = 1; i < argc; ++i) {
         std::string a = argv[i];
         auto val = [&]() -> std::string { return (i + 1 < argc) ? argv[++i] : ""; };
         if (a == "--seed") seed = std::strtoull(val().c_str(), nullptr, 10);
         else if (a == "--worker") worker = std::atoi(val().c_str());
         else if (a == "--nworkers") nworkers = std::atoi(val().c_str());
         else if (a == "--cases") cases = std::atol(val().c_str());
         else if (a == "--only") only = std::atol(val().c_str());
         else if (a == "--out") out = val();
         else if (a == "--verbose") verbose = true;
         else if (a.rfind("--", 0) == 0) opt[a.substr(2)] = val();
      }
   }
   std::string get(const std::string& k, const std::string& d = "") const {
      auto it = opt.find(k); return it == opt.end() ? d : it->second;
   }
   double getd(const std::string& k, double d) const {
      auto it = opt.find(k); return it == opt.end() ? d : std::atof(it->second.c_str());
   }
   long first() const { return only >= 0 ? only : 0; }
   long last() const { return only >= 0 ? only + 1 : cases; }
};

inline std::string num(double x) {
   char b[64];
   if (std::isnan(x)) return "\"nan\"";
   if (std::isinf(x)) return x > 0 ? "\"inf\"" : "\"-inf\"";
   std::snprintf(b, sizeof b, "%.17g", x);
   return b;
}
inline std::string num(long double x) {
   char b[64];
   if (std::isnan(x)) return "\"nan\"";
   if (std::isinf(x)) return x > 0 ? "\"inf\"" : "\"-inf\"";
   std::snprintf(b, sizeof b, "%.21Lg", x);
   // JSON number may lose digits in python; keep readable
   return b;
}
inline std::string esc(const std::string& s) {
   std::string o;
   for (unsigned char c : s) {
      if (c == '"' || c == '\\') { o += '\\'; o += c; }
      else if (c == '\n') o += "\\n";
      else if (c == '\t') o += "\\t";
      else if (c < 0x20 || c >= 0x7f) { char b[8]; std::snprintf(b, sizeof b, "\\u%04x", c); o += b; }
      else o += c;
   }
   return o;
}

// tiny JSON object builder
struct J {
   std::string s;
   J& raw(const std::string& k, const std::string& v) { s += (s.empty() ? "" : ",") + ("\"" + k + "\":") + v; return *this; }
   J& d(const std::string& k, double v) { return raw(k, num(v)); }
   J& ld(const std::string& k, long double v) { return raw(k, num(v)); }
   J& i(const std::string& k, long long v) { return raw(k, std::to_string(v)); }
   J& str(const std::string& k, const std::string& v) { return raw(k, "\"" + esc(v) + "\""); }
   J& obj(const std::string& k, const J& v) { return raw(k, v.json()); }
   template <class It> J& arr(const std::string& k, It b, It e) {
      std::string a = "["; bool f = true;
      for (; b != e; ++b) { a += (f ? "" : ",") + num(static_cast<double>(*b)); f = false; }
      return raw(k, a + "]");
   }
   J& vec(const std::string& k, const std::vector<double>& v) { return arr(k, v.begin(), v.end()); }
   std::string json() const { return "{" + s + "}"; }
};

struct Out {
   FILE* f = stdout;
   const Args& a;
   struct Cell { long n = 0; double worst = -1; std::string wit; };
   std::map<std::string, Cell> cells;
   std::map<std::string, long> counts;
   std::map<std::string, long> failn;
   std::map<std::string, double> failmag;   // largest magnitude (error) reported with a failure key, for the evidence
   long evaluations = 0, conclusive = 0, inconclusive = 0;
   int nsamples = 0;
   long cur = -1;   // current case index (added to every event)
   explicit Out(const Args& args) : a(args) {
      if (!a.out.empty()) { f = std::fopen(a.out.c_str(), "w"); if (!f) { std::perror("out"); std::exit(3); } }
   }
   std::string wrap(const J& c) const {
      J j = c; j.i("_w", a.worker).i("_i", cur); return j.json();
   }
   // returns true if the failure was written (capped per key; the total is still counted)
   bool fail(const std::string& key, const std::string& what, const J& c, double mag = -1) {
      long& n = failn[key];
      ++n;
      if (mag >= 0 || mag != mag) { auto it = failmag.find(key); if (it == failmag.end()) failmag[key] = mag; else if (!(mag <= it->second)) it->second = mag; }
      if (n <= 20) {
         std::fprintf(f, "{\"t\":\"fail\",\"key\":\"%s\",\"what\":\"%s\",\"case\":%s}\n", esc(key).c_str(),
                      esc(what).c_str(), wrap(c).c_str());
         std::fflush(f);
         return true;
      }
      return false;
   }
   // a digest of the results of the current case, compared by the driver with the digest of the same case computed in a process of its own
   void digest(const std::string& h) { std::fprintf(f, "{\"t\":\"digest\",\"w\":%d,\"i\":%ld,\"h\":\"%s\"}\n", a.worker, cur, esc(h).c_str()); }
   void sample(const J& c, int cap = 3) {
      if (nsamples < cap && a.worker < 4) { ++nsamples; std::fprintf(f, "{\"t\":\"sample\",\"case\":%s}\n", wrap(c).c_str()); }
   }
   void cell(const std::string& name, double err = 0, const J* wit = nullptr) {
      Cell& c = cells[name];
      ++c.n;
      if (!(err <= c.worst)) { c.worst = err; if (wit) c.wit = wrap(*wit); }
   }
   void count(const std::string& name, long n = 1) { counts[name] += n; }
   void finish() {
      for (auto& kv : failn)
         if (kv.second > 20)
            std::fprintf(f, "{\"t\":\"fail\",\"key\":\"%s\",\"what\":\"(further occurrences)\",\"n\":%ld,\"case\":{}}\n",
                         esc(kv.first).c_str(), kv.second - 20);
      for (auto& kv : failmag)
         std::fprintf(f, "{\"t\":\"failmag\",\"key\":\"%s\",\"worst\":%s}\n", esc(kv.first).c_str(), num(kv.second).c_str());
      for (auto& kv : cells)
         std::fprintf(f, "{\"t\":\"cell\",\"cell\":\"%s\",\"n\":%ld,\"worst\":%s,\"wit\":%s}\n", esc(kv.first).c_str(),
                      kv.second.n, num(kv.second.worst < 0 ? 0.0 : kv.second.worst).c_str(),
                      kv.second.wit.empty() ? "null" : kv.second.wit.c_str());
      for (auto& kv : counts)
         std::fprintf(f, "{\"t\":\"count\",\"name\":\"%s\",\"n\":%ld}\n", esc(kv.first).c_str(), kv.second);
      std::fprintf(f, "{\"t\":\"sum\",\"evaluations\":%ld,\"conclusive\":%ld,\"inconclusive\":%ld}\n", evaluations,
                   conclusive, inconclusive);
      std::fflush(f);
      if (f != stdout) std::fclose(f);
   }
};

inline std::string decade(double x) {
   if (x == 0) return "0";
   if (std::isnan(x)) return "nan";
   char b[32];
   std::snprintf(b, sizeof b, "%s1e%+03d", x < 0 ? "-" : "", static_cast<int>(std::floor(std::log10(std::fabs(x)))));
   return b;
}

inline bool same_bits(double a, double b) {
   if (std::isnan(a) && std::isnan(b)) return true;
   return std::memcmp(&a, &b, sizeof a) == 0;
}

} // namespace vh
