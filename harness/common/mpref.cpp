#include "mpref.h"
#include "mpref_impl.hpp"
typedef mpr::Ref<200> H;
typedef mpr::Ref<100> L;
extern "C" {
long double mpref_eval1(int fn, double x) { return static_cast<long double>(H::eval1(fn, H::R(x))); }
long double mpref_eval1_ld(int fn, long double x) { return static_cast<long double>(H::eval1(fn, H::R(x))); }
long double mpref_evaln(int fn, const double* a) { return static_cast<long double>(H::evaln(fn, a)); }
void mpref_cdilog(double re, double im, long double* ore, long double* oim) {
   H::C r = H::cli2(H::C(H::R(re), H::R(im)));
   *ore = static_cast<long double>(r.re); *oim = static_cast<long double>(r.im);
}
long double mpref_eval1_lo(int fn, double x) { return static_cast<long double>(L::eval1(fn, L::R(x))); }
long double mpref_evaln_lo(int fn, const double* a) { return static_cast<long double>(L::evaln(fn, a)); }
}
