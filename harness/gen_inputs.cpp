// Generator of well-formed input files in the three formats (SLHA, GM2Calc, THDM) from seeded random
// parameter points.  Usage: gen_inputs --format slha|gm2calc|thdm --seed S --first I --count N --dir D
// writes D/<format>_<index>.in ; numbers are printed with %.17g so that they parse to the intended doubles.
#include "gen.hpp"
#include "gm2calc/gm2_1loop.hpp"
#include <cstdio>
#include <fstream>

using namespace gm2calc;

static std::string num(double x) { char b[64]; std::snprintf(b, sizeof b, "%.17g", x); return b; }

static std::string sminputs(const SM& sm, bool with_alpha_inv) {
   std::string s = "Block SMINPUTS\n";
   if (with_alpha_inv) s += "     1   " + num(1 / sm.get_alpha_em_mz()) + "   # alpha_em(MZ)^(-1)\n";
   s += "     3   " + num(sm.get_alpha_s_mz()) + "   # alpha_s(MZ)\n     4   " + num(sm.get_mz()) + "   # MZ\n     5   " + num(sm.get_md(2)) + "   # mb(mb)\n     6   " + num(sm.get_mu(2)) + "   # mtop\n";
   s += "     7   " + num(sm.get_ml(2)) + "   # mtau\n     8   0   # mnu3\n     9   " + num(sm.get_mw()) + "   # MW\n    11   " + num(sm.get_ml(0)) + "   # me\n    12   0\n    13   " + num(sm.get_ml(1)) + "   # mmu\n    14   0\n";
   s += "    21   " + num(sm.get_md(0)) + "\n    22   " + num(sm.get_mu(0)) + "\n    23   " + num(sm.get_md(1)) + "\n    24   " + num(sm.get_mu(1)) + "\n";
   return s;
}

// special = a valid point on which only the evaluation without tan(beta) resummation fails (large tan(beta) and mu, light sbottoms: the sbottom is tachyonic with
// the tree-level bottom Yukawa coupling and fine with the resummed one) - the program's reports then take their fallback paths
static bool gen_gm2calc(vh::Rng& r, std::string& text, bool special = false) {
   gen::MssmPoint p = gen::rand_mssm(r, 150, 2500, 2, 60);
   for (int g = 0; g < 3; ++g) { p.mq[g] = r.LU(500, 5000); p.mU[g] = r.LU(500, 5000); p.mD[g] = r.LU(500, 5000); p.Ae[g] = r.U(-1, 1) * 500; p.Au[g] = r.U(-1, 1) * 1000; p.Ad[g] = r.U(-1, 1) * 1000; }
   if (special) { p.tb = r.U(45, 60); p.mu = r.U(1500, 2500); p.m3 = std::fabs(p.m3); p.mq[2] = r.U(450, 650); p.mD[2] = r.U(450, 650); p.Ad[2] = r.U(-1, 1) * 300; }
   try { MSSMNoFV_onshell m = gen::make_mssm(p); if (m.get_problems().have_problem() || m.get_problems().have_warning()) return false;
         if (special) { bool throws = false; try { (void)calculate_amu_1loop_non_tan_beta_resummed(m); } catch (const Error&) { throws = true; } if (!throws) return false; }
   } catch (const Error&) { return false; }
   SM sm;
   std::string s = "Block GM2CalcInput\n";
   const double vals[33] = {p.Q, 0.00775531, 0.00729735, p.tb, p.mu, p.m1, p.m2, p.m3, p.ma, p.ml[0], p.ml[1], p.ml[2], p.me[0], p.me[1], p.me[2], p.mq[0], p.mq[1], p.mq[2], p.mU[0], p.mU[1], p.mU[2], p.mD[0], p.mD[1], p.mD[2],
                            p.Ae[0], p.Ae[1], p.Ae[2], p.Ad[0], p.Ad[1], p.Ad[2], p.Au[0], p.Au[1], p.Au[2]};
   for (int k = 0; k < 33; ++k) s += "    " + std::to_string(k) + "   " + num(vals[k]) + "\n";
   text = s + sminputs(sm, false);
   return true;
}

static bool gen_slha(vh::Rng& r, std::string& text) {
   gen::MssmPoint p = gen::rand_mssm(r, 150, 2500, 2, 50);
   for (int g = 0; g < 3; ++g) { p.mq[g] = r.LU(500, 5000); p.mU[g] = r.LU(500, 5000); p.mD[g] = r.LU(500, 5000); p.Ae[g] = r.U(-1, 1) * 500; p.Au[g] = r.U(-1, 1) * 1000; p.Ad[g] = r.U(-1, 1) * 1000; }
   MSSMNoFV_onshell m;
   try { m = gen::make_mssm(p); if (m.get_problems().have_problem() || m.get_problems().have_warning()) return false; } catch (const Error&) { return false; }
   // the SLHA-type input: pole spectrum of the on-shell point plus DR-bar-like guesses (here: the on-shell values perturbed)
   MSSMNoFV_onshell_physical ph = m.get_physical(); ph.convert_to_slha();
   SM sm;
   std::string s = sminputs(sm, false);
   s += "Block GM2CalcInput\n     1   0.00775531\n     2   0.00729735\n";
   s += "Block MASS\n        24   " + num(sm.get_mw()) + "\n        25   " + num(ph.Mhh(0)) + "\n        35   " + num(ph.Mhh(1)) + "\n        36   " + num(ph.MAh(1)) + "\n        37   " + num(ph.MHpm(1)) + "\n   1000021   " + num(ph.MGlu) + "\n";
   const int chi[4] = {1000022, 1000023, 1000025, 1000035}; for (int i = 0; i < 4; ++i) s += "   " + std::to_string(chi[i]) + "   " + num(ph.MChi(i)) + "\n";
   s += "   1000024   " + num(ph.MCha(0)) + "\n   1000037   " + num(ph.MCha(1)) + "\n";
   s += "   1000011   " + num(ph.MSe(0)) + "\n   2000011   " + num(ph.MSe(1)) + "\n   1000012   " + num(ph.MSveL) + "\n   1000013   " + num(ph.MSm(0)) + "\n   2000013   " + num(ph.MSm(1)) + "\n   1000014   " + num(ph.MSvmL) + "\n";
   s += "   1000015   " + num(ph.MStau(0)) + "\n   2000015   " + num(ph.MStau(1)) + "\n   1000016   " + num(ph.MSvtL) + "\n";
   s += "   1000001   " + num(ph.MSd(0)) + "\n   2000001   " + num(ph.MSd(1)) + "\n   1000002   " + num(ph.MSu(0)) + "\n   2000002   " + num(ph.MSu(1)) + "\n   1000003   " + num(ph.MSs(0)) + "\n   2000003   " + num(ph.MSs(1)) + "\n";
   s += "   1000004   " + num(ph.MSc(0)) + "\n   2000004   " + num(ph.MSc(1)) + "\n   1000005   " + num(ph.MSb(0)) + "\n   2000005   " + num(ph.MSb(1)) + "\n   1000006   " + num(ph.MSt(0)) + "\n   2000006   " + num(ph.MSt(1)) + "\n";
   s += "Block NMIX\n"; for (int i = 0; i < 4; ++i) for (int j = 0; j < 4; ++j) s += "  " + std::to_string(i + 1) + "  " + std::to_string(j + 1) + "   " + num(ph.ZN(i, j).real()) + "\n";
   s += "Block SMUMIX\n"; for (int i = 0; i < 2; ++i) for (int j = 0; j < 2; ++j) s += "  " + std::to_string(i + 1) + "  " + std::to_string(j + 1) + "   " + num(ph.ZM(i, j)) + "\n";
   const double Q = p.Q; const std::string q = " Q= " + num(Q) + "\n";
   const double pm = 0.03;
   s += "Block HMIX" + q + "     1   " + num(p.mu * (1 + r.U(-pm, pm))) + "\n     2   " + num(p.tb) + "\n     3   245.0\n     4   " + num(p.ma * p.ma) + "\n";
   s += "Block MSOFT" + q + "     1   " + num(p.m1 * (1 + r.U(-pm, pm))) + "\n     2   " + num(p.m2 * (1 + r.U(-pm, pm))) + "\n     3   " + num(p.m3) + "\n    21   " + num(r.U(-1e5, 1e5)) + "\n    22   " + num(r.U(-1e5, 1e5)) + "\n";
   const double sl[6] = {p.ml[0], p.ml[1] * (1 + r.U(-pm, pm)), p.ml[2], p.me[0], p.me[1] * (1 + r.U(-pm, pm)), p.me[2]};
   for (int k = 0; k < 6; ++k) s += "    " + std::to_string(31 + k) + "   " + num(sl[k]) + "\n";
   const double sq[9] = {p.mq[0], p.mq[1], p.mq[2], p.mU[0], p.mU[1], p.mU[2], p.mD[0], p.mD[1], p.mD[2]};
   for (int k = 0; k < 9; ++k) s += "    " + std::to_string(41 + k) + "   " + num(sq[k]) + "\n";
   s += "Block AU" + q + "  1  1   " + num(p.Au[0]) + "\n  2  2   " + num(p.Au[1]) + "\n  3  3   " + num(p.Au[2]) + "\n";
   s += "Block AD" + q + "  1  1   " + num(p.Ad[0]) + "\n  2  2   " + num(p.Ad[1]) + "\n  3  3   " + num(p.Ad[2]) + "\n";
   s += "Block AE" + q + "  1  1   " + num(p.Ae[0]) + "\n  2  2   " + num(p.Ae[1]) + "\n  3  3   " + num(p.Ae[2]) + "\n";
   text = s;
   return true;
}

static std::string mat_block(const char* name, const Eigen::Matrix<double, 3, 3>& m) {
   std::string s = std::string("Block ") + name + "\n";
   for (int i = 0; i < 3; ++i) for (int j = 0; j < 3; ++j) s += "  " + std::to_string(i + 1) + "  " + std::to_string(j + 1) + "   " + num(m(i, j)) + "\n";
   return s;
}
static bool gen_thdm(vh::Rng& r, std::string& text) {
   SM sm; if (r.chance(0.5)) { sm.set_mw(r.U(79, 81)); }
   std::string s = sminputs(sm, true);
   s += "Block GM2CalcInput\n    33   " + num(r.U(120, 130)) + "\n";
   const double wolf[4] = {r.U(0.2, 0.25), r.U(0.7, 0.9), r.U(0.1, 0.2), r.chance(0.5) ? r.U(0.3, 0.4) : 0.0};
   s += "Block VCKMIN\n     1   " + num(wolf[0]) + "\n     2   " + num(wolf[1]) + "\n     3   " + num(wolf[2]) + "\n     4   " + num(wolf[3]) + "\n";
   gen::ThdmOpts op; op.mlo = 60; op.mhi = 2000; op.tblo = 0.3; op.tbhi = 50; op.delta = 1e-3; op.pi = 1e-3; op.zeta = 3;
   const bool massb = r.chance(0.6);
   const int type = 1 + r.range(6);
   if (massb) {
      thdm::Mass_basis b = gen::rand_mass_basis(r, op); b.yukawa_type = static_cast<thdm::Yukawa_type>(type);
      b.mh = r.U(100, 140); b.mH = r.LU(150, 2000); b.sin_beta_minus_alpha = r.sign() * r.U(0.9, 1); b.m122 = r.U(-1, 1) * 1e5;
      try { sm.set_ckm_from_wolfenstein(wolf[0], wolf[1], wolf[2], wolf[3]); THDM m(b, sm); } catch (const Error&) { return false; }
      s += "Block MINPAR\n     3   " + num(b.tan_beta) + "\n    16   " + num(b.lambda_6) + "\n    17   " + num(b.lambda_7) + "\n    18   " + num(b.m122) + "\n    20   " + num(b.sin_beta_minus_alpha) + "\n    21   " + num(b.zeta_u) + "\n    22   " + num(b.zeta_d) + "\n    23   " + num(b.zeta_l) + "\n    24   " + std::to_string(type) + "\n";
      s += "Block MASS\n    25   " + num(b.mh) + "\n    35   " + num(b.mH) + "\n    36   " + num(b.mA) + "\n    37   " + num(b.mHp) + "\n";
      s += mat_block("GM2CalcTHDMDeltauInput", b.Delta_u) + mat_block("GM2CalcTHDMDeltadInput", b.Delta_d) + mat_block("GM2CalcTHDMDeltalInput", b.Delta_l);
      s += mat_block("GM2CalcTHDMPiuInput", b.Pi_u) + mat_block("GM2CalcTHDMPidInput", b.Pi_d) + mat_block("GM2CalcTHDMPilInput", b.Pi_l);
   } else {
      thdm::Gauge_basis g; g.yukawa_type = static_cast<thdm::Yukawa_type>(type);
      for (int i = 0; i < 7; ++i) g.lambda(i) = r.U(-1.5, 1.5); g.lambda(0) = r.U(0.1, 2); g.lambda(1) = r.U(0.1, 2);
      g.tan_beta = r.LU(0.3, 50); g.m122 = r.LU(1e4, 1e6); g.zeta_u = r.U(-2, 2); g.zeta_d = r.U(-2, 2); g.zeta_l = r.U(-2, 2);
      g.Delta_u = gen::rand33(r, 1e-3); g.Delta_d = gen::rand33(r, 1e-3); g.Delta_l = gen::rand33(r, 1e-3); g.Pi_u = gen::rand33(r, 1e-3); g.Pi_d = gen::rand33(r, 1e-3); g.Pi_l = gen::rand33(r, 1e-3);
      try { sm.set_ckm_from_wolfenstein(wolf[0], wolf[1], wolf[2], wolf[3]); THDM m(g, sm); } catch (const Error&) { return false; }
      s += "Block MINPAR\n     3   " + num(g.tan_beta) + "\n";
      for (int i = 0; i < 7; ++i) s += "    " + std::to_string(11 + i) + "   " + num(g.lambda(i)) + "\n";
      s += "    18   " + num(g.m122) + "\n    21   " + num(g.zeta_u) + "\n    22   " + num(g.zeta_d) + "\n    23   " + num(g.zeta_l) + "\n    24   " + std::to_string(type) + "\n";
      s += mat_block("GM2CalcTHDMDeltauInput", g.Delta_u) + mat_block("GM2CalcTHDMDeltadInput", g.Delta_d) + mat_block("GM2CalcTHDMDeltalInput", g.Delta_l);
      s += mat_block("GM2CalcTHDMPiuInput", g.Pi_u) + mat_block("GM2CalcTHDMPidInput", g.Pi_d) + mat_block("GM2CalcTHDMPilInput", g.Pi_l);
   }
   text = s;
   return true;
}

int main(int argc, char** argv) {
   vh::Args a(argc, argv);
   const std::string fmt = a.get("format", "gm2calc"), dir = a.get("dir", ".");
   const long first = static_cast<long>(a.getd("first", 0)), count = static_cast<long>(a.getd("count", 1));
   gen::CerrCapture cap;
   long written = 0;
   for (long i = first; written < count && i < first + 50 * count + 2000; ++i) {
      vh::Rng r(a.seed, fmt == "slha" ? 1 : (fmt == "gm2calc" ? 2 : 3), i);
      std::string text; bool ok = false;
      if (fmt == "slha") ok = gen_slha(r, text); else if (fmt == "gm2calc") ok = gen_gm2calc(r, text, written % 6 == 4); else ok = gen_thdm(r, text);
      if (!ok) continue;
      std::ofstream f(dir + "/" + fmt + "_" + std::to_string(written) + ".in"); f << text; ++written;
   }
   std::printf("%ld\n", written);
   return written == count ? 0 : 1;
}
