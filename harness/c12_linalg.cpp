// C12: matrix decompositions satisfy their documented factorisation contracts.
// Observes the outputs of the routines of src/gm2_linalg.hpp, instantiated here
// from the working tree's header, on hostile matrices; oracle = documented
// factorisation (backward error), unitarity, sign, ordering, error bounds,
// values-only overloads, and a long-double Jacobi reference for the values.
#include "gm2_linalg.hpp"
#include "vh.hpp"
#include <complex>

using namespace gm2calc;
using vh::J;
typedef std::complex<double> cd;
typedef long double LD;

extern vh::Out* out;
static const double TOL = 1e-12;        // property: backward error / unitarity
static const double TOL_DIRECT3 = 1e-6; // 3x3 closed-form hermitian solver, not used by the models

// ---- long-double reference: cyclic Jacobi for real symmetric K x K, eigenvalues only
template <int K> void jacobi_eigs(Eigen::Matrix<LD, K, K> a, Eigen::Array<LD, K, 1>& w) {
   for (int sweep = 0; sweep < 60; ++sweep) {
      LD off = 0;
      for (int p = 0; p < K; ++p) for (int q = p + 1; q < K; ++q) off += a(p, q) * a(p, q);
      LD dg = 0;
      for (int p = 0; p < K; ++p) dg += a(p, p) * a(p, p);
      if (off <= 1e-40L * (dg + off) || off == 0) break;
      for (int p = 0; p < K; ++p) for (int q = p + 1; q < K; ++q) {
         if (a(p, q) == 0) continue;
         const LD theta = (a(q, q) - a(p, p)) / (2 * a(p, q));
         const LD t = (theta >= 0 ? 1 : -1) / (std::fabs(theta) + std::sqrt(theta * theta + 1));
         const LD c = 1 / std::sqrt(t * t + 1), s = t * c;
         for (int k = 0; k < K; ++k) { const LD akp = a(k, p), akq = a(k, q); a(k, p) = c * akp - s * akq; a(k, q) = s * akp + c * akq; }
         for (int k = 0; k < K; ++k) { const LD apk = a(p, k), aqk = a(q, k); a(p, k) = c * apk - s * aqk; a(q, k) = s * apk + c * aqk; }
      }
   }
   for (int i = 0; i < K; ++i) w(i) = a(i, i);
   std::sort(w.data(), w.data() + K);
}
// eigenvalues of a hermitian N x N matrix via the real symmetric 2N embedding (each eigenvalue twice)
template <class S, int N> Eigen::Array<LD, N, 1> ref_herm_eigs(const Eigen::Matrix<S, N, N>& m) {
   Eigen::Matrix<LD, 2 * N, 2 * N> a;
   for (int i = 0; i < N; ++i) for (int j = 0; j < N; ++j) {
      const cd z = m(i, j); const LD re = z.real(), im = z.imag();
      a(i, j) = re; a(i + N, j + N) = re; a(i, j + N) = -im; a(i + N, j) = im;
   }
   a = ((a + a.transpose()) / 2).eval();
   Eigen::Array<LD, 2 * N, 1> w; jacobi_eigs<2 * N>(a, w);
   Eigen::Array<LD, N, 1> r; for (int i = 0; i < N; ++i) r(i) = (w(2 * i) + w(2 * i + 1)) / 2;
   return r;
}
// singular values of N x N via the hermitian [[0,M],[M^+,0]] (eigenvalues +-sigma), ascending
template <class S, int N> Eigen::Array<LD, N, 1> ref_sing(const Eigen::Matrix<S, N, N>& m) {
   Eigen::Matrix<cd, 2 * N, 2 * N> h; h.setZero();
   for (int i = 0; i < N; ++i) for (int j = 0; j < N; ++j) { h(i, j + N) = m(i, j); h(j + N, i) = std::conj(cd(m(i, j))); }
   Eigen::Array<LD, 2 * N, 1> w = ref_herm_eigs<cd, 2 * N>(h);
   Eigen::Array<LD, N, 1> r; for (int i = 0; i < N; ++i) r(i) = std::fabs(w(N + i));
   std::sort(r.data(), r.data() + N);
   return r;
}

// ---- generators
template <class S> S rnd(vh::Rng& r);
template <> inline double rnd<double>(vh::Rng& r) { return r.U(-1, 1); }
template <> inline cd rnd<cd>(vh::Rng& r) { return cd(r.U(-1, 1), r.U(-1, 1)); }
template <class S> S herm_conj(const S& x) { return x; }
template <> inline cd herm_conj<cd>(const cd& x) { return std::conj(x); }
template <class S> S make_diag(double x) { return S(x); }

template <class S, int N> Eigen::Matrix<S, N, N> rand_unitary(vh::Rng& r) {
   Eigen::Matrix<S, N, N> a;
   for (int i = 0; i < N; ++i) for (int j = 0; j < N; ++j) a(i, j) = rnd<S>(r);
   Eigen::HouseholderQR<Eigen::Matrix<S, N, N>> qr(a);
   Eigen::Matrix<S, N, N> q = qr.householderQ();
   return q;
}
static double hier(vh::Rng& r) { return std::pow(10.0, r.U(-6, 6)); }

static const char* HMODES[] = {"uniform", "12decades", "near-diagonal", "diagonal-repeated", "QDQ-repeated", "rank-deficient",
                               "pm-pairs", "ordered-diagonal-permuted", "zero", "graded-rows"};
// hermitian (or real symmetric) hostile matrix
template <class S, int N> Eigen::Matrix<S, N, N> gen_herm(vh::Rng& r, int mode) {
   Eigen::Matrix<S, N, N> m; m.setZero();
   auto fill = [&](double offscale, bool h) {
      for (int i = 0; i < N; ++i) for (int j = i; j < N; ++j) {
         S v = rnd<S>(r); if (h) v *= hier(r); if (i != j) v *= offscale;
         if (i == j) v = S(std::real(cd(v)));
         m(i, j) = v; m(j, i) = herm_conj(v);
      }
   };
   switch (mode) {
   case 0: fill(1, false); break;
   case 1: fill(1, true); break;
   case 2: fill(std::pow(10.0, r.U(-16, -6)), r.chance(0.5)); break;
   case 3: { double d = r.U(-1, 1) * hier(r); for (int i = 0; i < N; ++i) m(i, i) = S(i < 2 ? d : (r.chance(0.3) ? d : r.U(-1, 1) * hier(r))); break; }
   case 4: {
      Eigen::Matrix<S, N, N> q = rand_unitary<S, N>(r); Eigen::Matrix<double, N, 1> d; double v = r.U(-1, 1) * hier(r);
      int nrep = 2 + r.range(N - 1);
      for (int i = 0; i < N; ++i) d(i) = i < nrep ? v : r.U(-1, 1) * hier(r);
      m = q * d.template cast<S>().asDiagonal() * q.adjoint();
      m = ((m + m.adjoint()) / 2).eval(); break; }
   case 5: {
      int rank = r.range(N); m.setZero();
      for (int k = 0; k < rank; ++k) { Eigen::Matrix<S, N, 1> x; for (int i = 0; i < N; ++i) x(i) = rnd<S>(r); m += r.U(-1, 1) * hier(r) * x * x.adjoint(); }
      m = ((m + m.adjoint()) / 2).eval();
      if (r.chance(0.5)) { int z = r.range(N); m.row(z).setZero(); m.col(z).setZero(); }
      break; }
   case 6: { double d = r.U(0.1, 1) * hier(r); m(0, 0) = S(d); m(1, 1) = S(-d); for (int i = 2; i < N; ++i) m(i, i) = S(r.chance(0.5) ? d : r.U(-1, 1));
      if (r.chance(0.5)) { Eigen::Matrix<S, N, N> q = rand_unitary<S, N>(r); m = q * m * q.adjoint(); m = ((m + m.adjoint()) / 2).eval(); } break; }
   case 7: { std::vector<double> d(N); double x = r.U(0.1, 1) * hier(r); for (int i = 0; i < N; ++i) { d[i] = x * (r.chance(0.3) ? -1 : 1); x *= 1 + r.U(0, 3); }
      int pm = r.range(3); if (pm == 1) std::reverse(d.begin(), d.end()); if (pm == 2) for (int i = N - 1; i > 0; --i) std::swap(d[i], d[r.range(i + 1)]);
      for (int i = 0; i < N; ++i) m(i, i) = S(d[i]); break; }
   case 8: m.setZero(); break;
   default: { fill(1, false); for (int i = 0; i < N; ++i) { double g = std::pow(10.0, -3.0 * i * r.u01()); m.row(i) *= g; m.col(i) *= g; } break; }
   }
   return m;
}
static const char* GMODES[] = {"uniform", "12decades", "zero-row", "diagonal-repeated", "equal-columns", "UDV-repeated", "rank-deficient",
                               "ordered-diagonal-permuted", "zero", "symmetric", "antidiagonal-signs"};
template <class S, int N> Eigen::Matrix<S, N, N> gen_general(vh::Rng& r, int mode) {
   Eigen::Matrix<S, N, N> m; m.setZero();
   switch (mode) {
   case 0: for (int i = 0; i < N; ++i) for (int j = 0; j < N; ++j) m(i, j) = rnd<S>(r); break;
   case 1: for (int i = 0; i < N; ++i) for (int j = 0; j < N; ++j) m(i, j) = rnd<S>(r) * hier(r); break;
   case 2: for (int i = 0; i < N; ++i) for (int j = 0; j < N; ++j) m(i, j) = rnd<S>(r); if (r.chance(0.5)) m.row(r.range(N)).setZero(); else m.col(r.range(N)).setZero(); break;
   case 3: { double d = r.U(-1, 1) * hier(r); for (int i = 0; i < N; ++i) m(i, i) = S(i < 2 ? d : (r.chance(0.3) ? -d : r.U(-1, 1) * hier(r))); break; }
   case 4: for (int i = 0; i < N; ++i) for (int j = 0; j < N; ++j) m(i, j) = rnd<S>(r); m.col(1) = m.col(0); break;
   case 5: { Eigen::Matrix<S, N, N> u = rand_unitary<S, N>(r), v = rand_unitary<S, N>(r); Eigen::Matrix<double, N, 1> d; double x = r.U(0, 1) * hier(r); int nrep = 2 + r.range(N - 1);
      for (int i = 0; i < N; ++i) d(i) = i < nrep ? x : r.U(0, 1) * hier(r); m = u * d.template cast<S>().asDiagonal() * v; break; }
   case 6: { int rank = r.range(N); for (int k = 0; k < rank; ++k) { Eigen::Matrix<S, N, 1> x, y; for (int i = 0; i < N; ++i) { x(i) = rnd<S>(r); y(i) = rnd<S>(r); } m += hier(r) * x * y.adjoint(); } break; }
   case 7: { std::vector<double> d(N); double x = r.U(0.1, 1) * hier(r); for (int i = 0; i < N; ++i) { d[i] = x * (r.chance(0.3) ? -1 : 1); x *= 1 + r.U(0, 3); }
      int pm = r.range(3); if (pm == 1) std::reverse(d.begin(), d.end()); if (pm == 2) for (int i = N - 1; i > 0; --i) std::swap(d[i], d[r.range(i + 1)]);
      for (int i = 0; i < N; ++i) m(i, i) = S(d[i]); break; }
   case 8: break;
   case 9: for (int i = 0; i < N; ++i) for (int j = i; j < N; ++j) { m(i, j) = rnd<S>(r) * (r.chance(0.5) ? hier(r) : 1.0); m(j, i) = m(i, j); } break;
   default: for (int i = 0; i < N; ++i) m(i, N - 1 - i) = S(r.sign() * (r.chance(0.5) ? 1.0 : r.U(0, 1) * hier(r))); break;
   }
   return m;
}

template <class M> J jm(const M& m) {
   J j; std::vector<double> v;
   for (int i = 0; i < m.rows(); ++i) for (int k = 0; k < m.cols(); ++k) { v.push_back(std::real(cd(m(i, k)))); v.push_back(std::imag(cd(m(i, k)))); }
   j.i("rows", m.rows()).i("cols", m.cols()).vec("re_im_rowmajor", v);
   return j;
}

struct Ctx { std::string api; std::string mode; double tol; bool verdict; };

template <class M> void report(const Ctx& c, const char* clause, double err, double tol, const M& m, bool nan_is_fail = true) {
   std::string cell = c.api + "|" + c.mode;
   J w = jm(m); w.str("api", c.api).str("mode", c.mode).str("clause", clause).d("err", err).d("tol", tol);
   out->cell(cell + "|" + clause, err, &w);
   const bool bad = !(err <= tol);
   if (bad && (nan_is_fail || !std::isnan(err))) {
      if (c.verdict) out->fail("C12:" + c.api + ":" + clause, std::string(clause) + " error " + vh::num(err) + " > " + vh::num(tol) + " on mode " + c.mode, w);
      else out->count("nonverdict-exceed:" + c.api + ":" + clause);
   }
}

template <int N> bool ascending(const Eigen::Array<double, N, 1>& s, bool by_abs) {
   for (int i = 0; i + 1 < N; ++i) { double a = by_abs ? std::fabs(s(i)) : s(i), b = by_abs ? std::fabs(s(i + 1)) : s(i + 1); if (!(a <= b)) return false; }
   return true;
}
template <int N> bool descending(const Eigen::Array<double, N, 1>& s) { for (int i = 0; i + 1 < N; ++i) if (!(s(i) >= s(i + 1))) return false; return true; }
template <int N> double values_vs_ref(Eigen::Array<double, N, 1> s, const Eigen::Array<LD, N, 1>& ref, double nrm, bool by_abs) {
   if (by_abs) s = s.abs();
   std::sort(s.data(), s.data() + N);
   Eigen::Array<LD, N, 1> rr = ref; if (by_abs) { rr = rr.abs(); } std::sort(rr.data(), rr.data() + N);
   double e = 0; for (int i = 0; i < N; ++i) e = std::max(e, static_cast<double>(std::fabs(static_cast<LD>(s(i)) - rr(i))));
   return nrm > 0 ? e / nrm : e;
}
template <int N> double errbd_bad(double sb, const Eigen::Array<double, N, 1>* ub) {
   double bad = 0;
   if (!(std::isfinite(sb) && sb >= 0)) bad = 1;
   // vector error bounds may be +inf for exactly degenerate values (documented LAPACK behaviour: bound / gap); NaN or negative never
   if (ub) for (int i = 0; i < N; ++i) if (std::isnan((*ub)(i)) || (*ub)(i) < 0) bad = 1;
   return bad;
}
template <int N> double arrdiff(const Eigen::Array<double, N, 1>& a, const Eigen::Array<double, N, 1>& b, double nrm) {
   double e = (a - b).abs().maxCoeff(); return nrm > 0 ? e / nrm : e;
}

// ---------- hermitian family
template <class S, int N> void test_herm(vh::Rng& r, int mode) {
   typedef Eigen::Matrix<S, N, N> Mat; typedef Eigen::Array<double, N, 1> Arr;
   const char* sn = std::is_same<S, double>::value ? "real" : "complex";
   Mat m = gen_herm<S, N>(r, mode);
   const double nrm = m.norm();
   const Mat I = Mat::Identity();
   Eigen::Array<LD, N, 1> ref = ref_herm_eigs<S, N>(m);
   const double tol = (N == 3) ? TOL_DIRECT3 : TOL;
   const bool verdict = true;
   {  // diagonalize_hermitian: m = z w z^+, ascending
      Ctx c{std::string("diagonalize_hermitian<") + sn + "," + std::to_string(N) + ">", HMODES[mode], tol, verdict};
      Arr w, w2, w3, zb; Mat z; double wb = -1, wb2 = -1;
      diagonalize_hermitian<double, S, N>(m, w, z);
      report(c, "reconstruction", nrm > 0 ? (z * w.matrix().template cast<S>().asDiagonal() * z.adjoint() - m).norm() / nrm : w.abs().maxCoeff(), tol, m);
      report(c, "unitarity", (z * z.adjoint() - I).norm(), tol, m);
      report(c, "order-ascending", ascending<N>(w, false) ? 0 : 1, 0, m);
      report(c, "values-vs-jacobi", values_vs_ref<N>(w, ref, nrm, false), tol, m);
      Mat z2; diagonalize_hermitian<double, S, N>(m, w2, z2, wb, zb);
      report(c, "errbd-finite-nonneg", errbd_bad<N>(wb, &zb), 0, m);
      report(c, "overload-with-errbd-same-values", arrdiff<N>(w, w2, nrm), 0, m);
      diagonalize_hermitian<double, S, N>(m, w3, wb2);
      report(c, "values-only-overload", arrdiff<N>(w, w3, nrm), tol, m);
      report(c, "errbd-finite-nonneg", errbd_bad<N>(wb2, nullptr), 0, m);
      // call histories: the full overload right after the values-only one on the same matrix, and after a call on a neighbouring matrix
      // (values-only call first on a matrix not seen before, then the full overload on it; against the full overload after an unrelated call)
      { Arr wv, wa, wb_, w7; Mat za, zb_, z7; double e1;
        Mat mn = m; mn(0, 0) += (nrm > 0 ? nrm : 1.0) * 1e-3;
        diagonalize_hermitian<double, S, N>(mn, wv, e1); diagonalize_hermitian<double, S, N>(mn, wa, za);
        diagonalize_hermitian<double, S, N>(m, w7, z7); diagonalize_hermitian<double, S, N>(mn, wb_, zb_);
        report(c, "call-history-same-result", std::max({arrdiff<N>(w, w7, nrm), (z - z7).norm(), arrdiff<N>(wa, wb_, nrm), (za - zb_).norm(), arrdiff<N>(wa, wv, nrm) > tol ? 1.0 : 0.0}), 0, m); }
   }
   {  // fs_diagonalize_hermitian: m = z^+ w z, |w| ascending
      Ctx c{std::string("fs_diagonalize_hermitian<") + sn + "," + std::to_string(N) + ">", HMODES[mode], tol, verdict};
      Arr w, w2, w3, w4, zb; Mat z; double wb = -1, wb2 = -1;
      fs_diagonalize_hermitian<double, S, N>(m, w, z);
      report(c, "reconstruction", nrm > 0 ? (z.adjoint() * w.matrix().template cast<S>().asDiagonal() * z - m).norm() / nrm : w.abs().maxCoeff(), tol, m);
      report(c, "unitarity", (z * z.adjoint() - I).norm(), tol, m);
      report(c, "order-abs-ascending", ascending<N>(w, true) ? 0 : 1, 0, m);
      report(c, "values-vs-jacobi", values_vs_ref<N>(w, ref, nrm, false), tol, m);
      Mat z2; fs_diagonalize_hermitian<double, S, N>(m, w2, z2, wb, zb);
      report(c, "errbd-finite-nonneg", errbd_bad<N>(wb, &zb), 0, m);
      report(c, "overload-with-errbd-same-values", arrdiff<N>(w, w2, nrm), 0, m);
      report(c, "overload-with-errbd-same-vectors", (z - z2).norm(), 0, m);
      fs_diagonalize_hermitian<double, S, N>(m, w3);
      report(c, "values-only-overload", arrdiff<N>(w, w3, nrm), tol, m);
      fs_diagonalize_hermitian<double, S, N>(m, w4, wb2);
      report(c, "errbd-finite-nonneg", errbd_bad<N>(wb2, nullptr), 0, m);
      Mat z3; double wb3; fs_diagonalize_hermitian<double, S, N>(m, w4, z3, wb3);
      report(c, "errbd-finite-nonneg", errbd_bad<N>(wb3, nullptr), 0, m);
      { Arr wv, wa, wb_, w7; Mat za, zb_, z7;
        Mat mn = m; mn(0, 0) += (nrm > 0 ? nrm : 1.0) * 1e-3;
        fs_diagonalize_hermitian<double, S, N>(mn, wv); fs_diagonalize_hermitian<double, S, N>(mn, wa, za);
        fs_diagonalize_hermitian<double, S, N>(m, w7, z7); fs_diagonalize_hermitian<double, S, N>(mn, wb_, zb_);
        report(c, "call-history-same-result", std::max({arrdiff<N>(w, w7, nrm), (z - z7).norm(), arrdiff<N>(wa, wb_, nrm), (za - zb_).norm(), arrdiff<N>(wa, wv, nrm) > tol ? 1.0 : 0.0}), 0, m); }
   }
}

// ---------- Takagi of real symmetric matrices (what the neutralino sector uses)
template <int N> void test_takagi_real(vh::Rng& r, int mode) {
   typedef Eigen::Matrix<double, N, N> Mat; typedef Eigen::Matrix<cd, N, N> CMat; typedef Eigen::Array<double, N, 1> Arr;
   Mat m = gen_herm<double, N>(r, mode);
   // the property quantifies over all finite matrices: a quarter of the cases at an absolute scale far from 1 (seed C12-6: an absolute
   // threshold on the sign of an eigenvalue is invisible while every matrix has entries between 1e-6 and 1e6)
   if (r.chance(0.25)) m *= std::pow(10.0, r.chance(0.5) ? r.U(-24, -8) : r.U(8, 24));
   const double nrm = m.norm(); const CMat I = CMat::Identity(); const CMat mc = m.template cast<cd>();
   Eigen::Array<LD, N, 1> ref = ref_herm_eigs<double, N>(m);
   const double tol = (N == 3) ? TOL_DIRECT3 : TOL;
   auto diag = [](const Arr& s) { return s.matrix().template cast<cd>().asDiagonal(); };
   {
      Ctx c{"diagonalize_symmetric<real," + std::to_string(N) + ">", HMODES[mode], tol, true};
      Arr s, s2; CMat u; double sb;
      diagonalize_symmetric<double, N>(m, s, u);
      report(c, "reconstruction", nrm > 0 ? (u * diag(s) * u.transpose() - mc).norm() / nrm : s.abs().maxCoeff(), tol, m);
      report(c, "unitarity", (u * u.adjoint() - I).norm(), tol, m);
      report(c, "nonnegative", (s >= 0).all() ? 0 : 1, 0, m);
      report(c, "values-vs-jacobi", values_vs_ref<N>(s, ref, nrm, true), tol, m);
      diagonalize_symmetric<double, N>(m, s2, sb);
      report(c, "errbd-finite-nonneg", errbd_bad<N>(sb, nullptr), 0, m);
   }
   {
      Ctx c{"reorder_diagonalize_symmetric<real," + std::to_string(N) + ">", HMODES[mode], tol, true};
      Arr s, s2, ub; CMat u; double sb;
      reorder_diagonalize_symmetric<double, double, N>(m, s, u);
      report(c, "reconstruction", nrm > 0 ? (u * diag(s) * u.transpose() - mc).norm() / nrm : s.abs().maxCoeff(), tol, m);
      report(c, "unitarity", (u * u.adjoint() - I).norm(), tol, m);
      report(c, "nonnegative", (s >= 0).all() ? 0 : 1, 0, m);
      report(c, "order-ascending", ascending<N>(s, false) ? 0 : 1, 0, m);
      CMat u2; reorder_diagonalize_symmetric<double, double, N>(m, s2, u2, sb, ub);
      report(c, "errbd-finite-nonneg", errbd_bad<N>(sb, &ub), 0, m);
      report(c, "overload-with-errbd-same-values", arrdiff<N>(s, s2, nrm), 0, m);
   }
   {
      Ctx c{"fs_diagonalize_symmetric<real," + std::to_string(N) + ">", HMODES[mode], tol, true};
      Arr s, s2, s3, ub; CMat u; double sb, sb2;
      fs_diagonalize_symmetric<double, double, N>(m, s, u);
      report(c, "reconstruction", nrm > 0 ? (u.transpose() * diag(s) * u - mc).norm() / nrm : s.abs().maxCoeff(), tol, m);
      report(c, "unitarity", (u * u.adjoint() - I).norm(), tol, m);
      report(c, "nonnegative", (s >= 0).all() ? 0 : 1, 0, m);
      report(c, "order-ascending", ascending<N>(s, false) ? 0 : 1, 0, m);
      report(c, "values-vs-jacobi", values_vs_ref<N>(s, ref, nrm, true), tol, m);
      CMat u2; fs_diagonalize_symmetric<double, double, N>(m, s2, u2, sb, ub);
      report(c, "errbd-finite-nonneg", errbd_bad<N>(sb, &ub), 0, m);
      report(c, "overload-with-errbd-same-values", arrdiff<N>(s, s2, nrm), 0, m);
      report(c, "overload-with-errbd-same-vectors", (u - u2).norm(), 0, m);
      fs_diagonalize_symmetric<double, double, N>(m, s3, sb2);
      report(c, "values-only-overload", arrdiff<N>(s, s3, nrm), tol, m);
      report(c, "errbd-finite-nonneg", errbd_bad<N>(sb2, nullptr), 0, m);
      { Arr sv, sa, sb_, s7; CMat ua, ub_, u7;
        auto mn = m; mn(0, 0) += (nrm > 0 ? nrm : 1.0) * 1e-3;
        fs_diagonalize_symmetric<double, double, N>(mn, sv); fs_diagonalize_symmetric<double, double, N>(mn, sa, ua);
        fs_diagonalize_symmetric<double, double, N>(m, s7, u7); fs_diagonalize_symmetric<double, double, N>(mn, sb_, ub_);
        report(c, "call-history-same-result", std::max({arrdiff<N>(s, s7, nrm), (u - u7).norm(), arrdiff<N>(sa, sb_, nrm), (ua - ub_).norm(), arrdiff<N>(sa, sv, nrm) > tol ? 1.0 : 0.0}), 0, m); }
   }
}

// ---------- complex symmetric Takagi: not instantiated by any model -> statistics only
template <int N> void test_takagi_complex(vh::Rng& r, int mode) {
   typedef Eigen::Matrix<cd, N, N> CMat; typedef Eigen::Array<double, N, 1> Arr;
   CMat m = gen_general<cd, N>(r, mode == 9 ? 9 : (r.chance(0.5) ? 0 : 1));
   m = ((m + m.transpose()) / 2.0).eval();
   const double nrm = m.norm(); if (nrm == 0) return;
   Ctx c{"fs_diagonalize_symmetric<complex," + std::to_string(N) + ">(not-used-by-models)", "random-symmetric", TOL, false};
   Arr s; CMat u; fs_diagonalize_symmetric<double, cd, N>(m, s, u);
   report(c, "reconstruction", (u.transpose() * s.matrix().template cast<cd>().asDiagonal() * u - m).norm() / nrm, 1e-10, m);
   report(c, "unitarity", (u * u.adjoint() - CMat::Identity()).norm(), 1e-10, m);
}

// ---------- SVD family
template <class S, int N> void test_svd(vh::Rng& r, int mode) {
   typedef Eigen::Matrix<S, N, N> Mat; typedef Eigen::Array<double, N, 1> Arr;
   const char* sn = std::is_same<S, double>::value ? "real" : "complex";
   Mat m = gen_general<S, N>(r, mode);
   const double nrm = m.norm(); const Mat I = Mat::Identity();
   Eigen::Array<LD, N, 1> ref = ref_sing<S, N>(m);
   auto diag = [](const Arr& s) { return s.matrix().template cast<S>().asDiagonal(); };
   {
      Ctx c{std::string("svd<") + sn + "," + std::to_string(N) + ">", GMODES[mode], TOL, true};
      Arr s, s2, ub, vb; Mat u, vhm; double sb;
      svd<double, S, N, N>(m, s, u, vhm);
      report(c, "reconstruction", nrm > 0 ? (u * diag(s) * vhm - m).norm() / nrm : s.abs().maxCoeff(), TOL, m);
      report(c, "unitarity", std::max((u * u.adjoint() - I).norm(), (vhm * vhm.adjoint() - I).norm()), TOL, m);
      report(c, "nonnegative", (s >= 0).all() ? 0 : 1, 0, m);
      report(c, "order-descending", descending<N>(s) ? 0 : 1, 0, m);
      report(c, "values-vs-jacobi", values_vs_ref<N>(s, ref, nrm, false), TOL, m);
      Mat u2, v2; svd<double, S, N, N>(m, s2, u2, v2, sb, ub, vb);
      report(c, "errbd-finite-nonneg", std::max(errbd_bad<N>(sb, &ub), errbd_bad<N>(sb, &vb)), 0, m);
   }
   {
      Ctx c{std::string("reorder_svd<") + sn + "," + std::to_string(N) + ">", GMODES[mode], TOL, true};
      Arr s; Mat u, vhm;
      reorder_svd<double, S, N, N>(m, s, u, vhm);
      report(c, "reconstruction", nrm > 0 ? (u * diag(s) * vhm - m).norm() / nrm : s.abs().maxCoeff(), TOL, m);
      report(c, "unitarity", std::max((u * u.adjoint() - I).norm(), (vhm * vhm.adjoint() - I).norm()), TOL, m);
      report(c, "nonnegative", (s >= 0).all() ? 0 : 1, 0, m);
      report(c, "order-ascending", ascending<N>(s, false) ? 0 : 1, 0, m);
   }
   {
      Ctx c{std::string("fs_svd<") + sn + "," + std::to_string(N) + ">", GMODES[mode], TOL, true};
      Arr s, s2, s3, s4, ub, vb; Mat u, v; double sb, sb2;
      fs_svd<double, S, N, N>(m, s, u, v);
      report(c, "reconstruction", nrm > 0 ? (u.transpose() * diag(s) * v - m).norm() / nrm : s.abs().maxCoeff(), TOL, m);
      report(c, "unitarity", std::max((u * u.adjoint() - I).norm(), (v * v.adjoint() - I).norm()), TOL, m);
      report(c, "nonnegative", (s >= 0).all() ? 0 : 1, 0, m);
      report(c, "order-ascending", ascending<N>(s, false) ? 0 : 1, 0, m);
      report(c, "values-vs-jacobi", values_vs_ref<N>(s, ref, nrm, false), TOL, m);
      Mat u2, v2; fs_svd<double, S, N, N>(m, s2, u2, v2, sb, ub, vb);
      report(c, "errbd-finite-nonneg", std::max(errbd_bad<N>(sb, &ub), errbd_bad<N>(sb, &vb)), 0, m);
      report(c, "overload-with-errbd-same-values", arrdiff<N>(s, s2, nrm), 0, m);
      report(c, "overload-with-errbd-same-vectors", std::max((u - u2).norm(), (v - v2).norm()), 0, m);
      fs_svd<double, S, N, N>(m, s3);
      report(c, "values-only-overload", arrdiff<N>(s, s3, nrm), TOL, m);
      fs_svd<double, S, N, N>(m, s4, sb2);
      report(c, "errbd-finite-nonneg", errbd_bad<N>(sb2, nullptr), 0, m);
      { Arr sv, sa, sb_, s7; Mat ua, va, ub_, vb_, u7, v7;
        Mat mn = m; mn(0, 0) += (nrm > 0 ? nrm : 1.0) * 1e-3;
        fs_svd<double, S, N, N>(mn, sv); fs_svd<double, S, N, N>(mn, sa, ua, va);
        fs_svd<double, S, N, N>(m, s7, u7, v7); fs_svd<double, S, N, N>(mn, sb_, ub_, vb_);
        report(c, "call-history-same-result", std::max({arrdiff<N>(s, s7, nrm), (u - u7).norm(), (v - v7).norm(), arrdiff<N>(sa, sb_, nrm), (ua - ub_).norm(), (va - vb_).norm(), arrdiff<N>(sa, sv, nrm) > TOL ? 1.0 : 0.0}), 0, m); }
   }
}
// real matrix with complex factors (the chargino instantiation fs_svd<double,2,2>)
template <int N> void test_svd_real_to_complex(vh::Rng& r, int mode) {
   typedef Eigen::Matrix<double, N, N> Mat; typedef Eigen::Matrix<cd, N, N> CMat; typedef Eigen::Array<double, N, 1> Arr;
   Mat m = gen_general<double, N>(r, mode);
   const double nrm = m.norm(); const CMat I = CMat::Identity(); const CMat mc = m.template cast<cd>();
   Eigen::Array<LD, N, 1> ref = ref_sing<double, N>(m);
   Ctx c{"fs_svd<real->complex," + std::to_string(N) + ">", GMODES[mode], TOL, true};
   Arr s, s2, ub, vb; CMat u, v; double sb;
   fs_svd<double, N, N>(m, s, u, v);
   report(c, "reconstruction", nrm > 0 ? (u.transpose() * s.matrix().template cast<cd>().asDiagonal() * v - mc).norm() / nrm : s.abs().maxCoeff(), TOL, m);
   report(c, "unitarity", std::max((u * u.adjoint() - I).norm(), (v * v.adjoint() - I).norm()), TOL, m);
   report(c, "nonnegative", (s >= 0).all() ? 0 : 1, 0, m);
   report(c, "order-ascending", ascending<N>(s, false) ? 0 : 1, 0, m);
   report(c, "values-vs-jacobi", values_vs_ref<N>(s, ref, nrm, false), TOL, m);
   CMat u2, v2; fs_svd<double, N, N>(m, s2, u2, v2, sb, ub, vb);
   report(c, "errbd-finite-nonneg", std::max(errbd_bad<N>(sb, &ub), errbd_bad<N>(sb, &vb)), 0, m);
   report(c, "overload-with-errbd-same-values", arrdiff<N>(s, s2, nrm), 0, m);
}

// The 14 families are compiled as separate translation units (-DVH_PART=k) so that a
// change of gm2_linalg.hpp rebuilds in parallel.
#ifndef VH_PART
#define VH_PART -1   // single translation unit
#endif
#define FAM(k, body) void fam##k(vh::Rng& r, int hm, int gm);
FAM(0,) FAM(1,) FAM(2,) FAM(3,) FAM(4,) FAM(5,) FAM(6,) FAM(7,) FAM(8,) FAM(9,) FAM(10,) FAM(11,) FAM(12,) FAM(13,)
#undef FAM
#define DEF(k, ...) void fam##k(vh::Rng& r, int hm, int gm) { (void)hm; (void)gm; __VA_ARGS__ }
#if VH_PART == -1 || VH_PART == 0
DEF(0, test_herm<double, 2>(r, hm);)
#endif
#if VH_PART == -1 || VH_PART == 1
DEF(1, test_herm<double, 3>(r, hm);)
#endif
#if VH_PART == -1 || VH_PART == 2
DEF(2, test_herm<double, 4>(r, hm);)
#endif
#if VH_PART == -1 || VH_PART == 3
DEF(3, test_herm<cd, 2>(r, hm);)
#endif
#if VH_PART == -1 || VH_PART == 4
DEF(4, test_herm<cd, 3>(r, hm);)
#endif
#if VH_PART == -1 || VH_PART == 5
DEF(5, test_herm<cd, 4>(r, hm);)
#endif
#if VH_PART == -1 || VH_PART == 6
DEF(6, test_takagi_real<2>(r, hm); test_takagi_real<3>(r, hm);)
#endif
#if VH_PART == -1 || VH_PART == 7
DEF(7, test_takagi_real<4>(r, hm);)
#endif
#if VH_PART == -1 || VH_PART == 8
DEF(8, test_svd<double, 2>(r, gm); test_svd_real_to_complex<2>(r, gm);)
#endif
#if VH_PART == -1 || VH_PART == 9
DEF(9, test_svd<double, 3>(r, gm); test_svd_real_to_complex<3>(r, gm);)
#endif
#if VH_PART == -1 || VH_PART == 10
DEF(10, test_svd<double, 4>(r, gm);)
#endif
#if VH_PART == -1 || VH_PART == 11
DEF(11, test_svd<cd, 2>(r, gm); test_svd<cd, 3>(r, gm);)
#endif
#if VH_PART == -1 || VH_PART == 12
DEF(12, test_svd<cd, 4>(r, gm);)
#endif
#if VH_PART == -1 || VH_PART == 13
DEF(13, test_takagi_complex<2>(r, gm); test_takagi_complex<3>(r, gm); test_takagi_complex<4>(r, gm);)
#endif

#if VH_PART == -1 || VH_PART == 0
vh::Out* out;
int main(int argc, char** argv) {
   vh::Args a(argc, argv);
   vh::Out o(a); out = &o;
   const int NH = sizeof(HMODES) / sizeof(*HMODES), NG = sizeof(GMODES) / sizeof(*GMODES);
   typedef void (*F)(vh::Rng&, int, int);
   const F fams[14] = {fam0, fam1, fam2, fam3, fam4, fam5, fam6, fam7, fam8, fam9, fam10, fam11, fam12, fam13};
   for (long i = a.first(); i < a.last(); ++i) {
      o.cur = i;
      vh::Rng r(a.seed, a.worker, i);
      const int fam = static_cast<int>(i % 14);
      const int hm = r.range(NH), gm = r.range(NG);
      fams[fam](r, hm, gm);
      ++o.evaluations; ++o.conclusive;
      if (i < 2) { J s; s.i("family", fam).str("herm_mode", HMODES[hm]).str("general_mode", GMODES[gm]); o.sample(s); }
   }
   o.finish();
   return 0;
}
#endif
