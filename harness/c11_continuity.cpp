// C11: finiteness and continuity of every contribution across removable singularities.
// One evaluation = one base point; for every one-parameter path m -> m0 (1+d) through a degenerate
// configuration m0 formed from the other masses, the values at d in {0, +-1e-13 .. +-1e-4} must lie
// within 1% of the contribution's magnitude of the chord through d = +-1e-3 (paths that change by
// more than 20% between the end points are inconclusive).
#include "gen.hpp"
#include "thdm_terms.hpp"
#include "gm2calc/gm2_1loop.hpp"
#include "gm2calc/gm2_2loop.hpp"
#include "gm2calc/gm2_uncertainty.hpp"
#include "MSSMNoFV/gm2_1loop_helpers.hpp"
#include "MSSMNoFV/gm2_2loop_helpers.hpp"
#include <functional>

using namespace gm2calc;
using vh::J;
static vh::Out* out;
static const double DS[] = {0, 1e-13, -1e-13, 1e-12, -1e-12, 1e-11, -1e-11, 1e-10, -1e-10, 1e-9, -1e-9, 1e-8, -1e-8, 1e-7, -1e-7, 1e-6, -1e-6, 1e-5, -1e-5, 1e-4, -1e-4};
static const int NDS = sizeof(DS) / sizeof(*DS);

// a quantity with its natural scale (sum of absolute values of its parts, DESIGN 4.1); for elementary parts scale = |value|
struct Qv { double v, s; };

// generic path judge: A, B = values at d = -1e-3, +1e-3; pts = values at DS
// returns: 0 held, 1 violated (band), 2 violated (non-finite), -1 inconclusive
// Uncertainties contain |a1L| and |a2L| and are V-shaped where these cross zero anywhere on the path: the chord criterion does not apply to them, but a
// step at the special point does show - values at d = 0, +-1e-13, +-1e-12 further apart than 1% of the magnitude (a continuous function moves by
// slope x 1e-12 there; a zero crossing of a part in between is a kink, not a step)
static double jump_at_zero(const Qv& A, const Qv& B, const std::vector<Qv>& pts) {
   const double mag = std::max({std::fabs(A.v), std::fabs(B.v), A.s, B.s});
   double lo = 1e300, hi = -1e300;
   for (int k = 0; k < 5; ++k) { lo = std::min(lo, pts[k].v); hi = std::max(hi, pts[k].v); }   // DS[0..4] = 0, +-1e-13, +-1e-12
   return mag > 0 ? (hi - lo) / mag : 0;
}
static int judge_path(const Qv& A, const Qv& B, const std::vector<Qv>& pts, double& worst_dev, double& worst_d, double& worst_val) {
   worst_dev = 0; worst_d = 0; worst_val = 0;
   for (const Qv& p : pts) if (!std::isfinite(p.v)) { worst_val = p.v; return 2; }
   if (!std::isfinite(A.v) || !std::isfinite(B.v)) return 2;
   const double mag = std::max({std::fabs(A.v), std::fabs(B.v), A.s, B.s});
   if (mag == 0) return -1;
   if (std::fabs(A.v - B.v) > 0.2 * mag) return -1;
   int res = 0;
   for (int k = 0; k < NDS; ++k) {
      const double line = A.v + (B.v - A.v) * (DS[k] + 1e-3) / 2e-3;
      const double dev = std::fabs(pts[k].v - line) / mag;
      if (!(dev <= worst_dev)) { worst_dev = dev; worst_d = DS[k]; worst_val = pts[k].v; }
      if (!(dev <= 0.01)) res = 1;
   }
   if (res == 1) {
      // The chord criterion is also violated by a continuous function with a kink at the special point (logarithms normalised to the
      // smallest SUSY mass: min() changes hands where two masses cross).  Continuity is then decided one-sidedly: the values on each
      // side lie within 1% of the line through that side's points at |d| = 1e-3 and 1e-4, and both lines and f(0) meet at d = 0.
      double lm4 = 0, rp4 = 0, f0 = 0;
      for (int k = 0; k < NDS; ++k) { if (DS[k] == -1e-4) lm4 = pts[k].v; if (DS[k] == 1e-4) rp4 = pts[k].v; if (DS[k] == 0) f0 = pts[k].v; }
      const double sl = (lm4 - A.v) / 9e-4, sr = (B.v - rp4) / 9e-4;
      auto L = [&](double d) { return A.v + sl * (d + 1e-3); };
      auto R = [&](double d) { return B.v + sr * (d - 1e-3); };
      bool ok = std::fabs(L(0) - R(0)) <= 0.01 * mag && std::fabs(f0 - L(0)) <= 0.01 * mag && std::fabs(f0 - R(0)) <= 0.01 * mag;
      double w2 = 0, wd2 = 0, wv2 = 0;
      for (int k = 0; k < NDS && ok; ++k) {
         if (DS[k] == 0) continue;
         const double dev = std::fabs(pts[k].v - (DS[k] < 0 ? L(DS[k]) : R(DS[k]))) / mag;
         if (dev > w2) { w2 = dev; wd2 = DS[k]; wv2 = pts[k].v; }
         if (!(dev <= 0.01)) ok = false;
      }
      if (ok) return 3;   // continuous with a kink
      // A smooth but strongly curved function also leaves the chord (2LB_nonYuk ~ a (1 - 1e5 d^2) around mH+ = mA: a cancelling sum whose value
      // is far below its terms).  Continuity is then decided on the parabola through the two ends and f(0): a step, a spike at the special point or
      // a wrong window around it cannot lie within 1% of it at all 21 offsets.
      const double h = 1e-3, c1 = (B.v - A.v) / (2 * h), c2 = (A.v + B.v - 2 * f0) / (2 * h * h);
      bool okq = true;
      for (int k = 0; k < NDS && okq; ++k) if (!(std::fabs(pts[k].v - (f0 + c1 * DS[k] + c2 * DS[k] * DS[k])) <= 0.01 * mag)) okq = false;
      if (okq) return 4;   // continuous, smooth, curved
   }
   return res;
}

// ============================================================================ THDM
static const int NT = 14;
static const char* TN[NT] = {"1L", "2LF", "2LF_neutral", "2LF_charged", "2LB", "2LB_EWadd", "2LB_nonYuk", "2LB_Yuk", "2L", "unc0", "unc1", "unc2", "total", "1L_approx"};
static bool LIT = false;
static bool eval_thdm(thdm::Mass_basis b, const SM& sm, const thdm::Config& cfg, Qv* q) {
   try {
      if (b.mh > b.mH) return false;
      THDM m(b, sm, cfg);
      const auto pf = tt::fill_F(m); const auto pb = tt::fill_B(m); const auto p1 = tt::fill_1L(m);
      const double a1 = calculate_amu_1loop(m), aF = calculate_amu_2loop_fermionic(m), aB = calculate_amu_2loop_bosonic(m);
      const double fn = thdm::amu2L_F_neutral(pf), fc = thdm::amu2L_F_charged(pf), be = thdm::amu2L_B_EWadd(pb), bn = thdm::amu2L_B_nonYuk(pb), by = thdm::amu2L_B_Yuk(pb);
      const double s1 = tt::oneloop_terms(p1).sabs;
      const double sF = std::fabs(fn) + std::fabs(fc), sB = std::fabs(be) + std::fabs(bn) + std::fabs(by);
      const double mNP = std::fmin(std::fabs(m.get_Mhh(1)), std::fmin(std::fabs(m.get_MAh(1)), std::fabs(m.get_MHm(1))));
      const double dl = std::fabs(4 * m.get_alpha_em() / M_PI * std::log(mNP / m.get_MFe(1)));
      q[0] = {a1, LIT ? 0 : s1}; q[1] = {aF, LIT ? 0 : sF}; q[2] = {fn, std::fabs(fn)}; q[3] = {fc, std::fabs(fc)}; q[4] = {aB, LIT ? 0 : sB}; q[5] = {be, std::fabs(be)}; q[6] = {bn, std::fabs(bn)}; q[7] = {by, std::fabs(by)};
      q[8] = {calculate_amu_2loop(m), LIT ? 0 : sF + sB};
      q[9] = {calculate_uncertainty_amu_0loop(m), s1 + sF + sB}; q[11] = {calculate_uncertainty_amu_2loop(m), 2e-12 + (s1 + sF + sB) * dl}; q[10] = {calculate_uncertainty_amu_1loop(m), sF + sB + q[11].s};
      q[12] = {a1 + q[8].v, LIT ? 0 : s1 + sF + sB}; q[13] = {thdm::amu1L_approx(p1), s1};
      return true;
   } catch (const Error&) { return false; }
}

struct Mech { std::string bos, ferm; };
// proximity of the central point of a path to the known singular configurations (known findings of DESIGN 6 row 10)
static Mech mechanisms(const thdm::Mass_basis& b, const SM& sm) {
   Mech r; const double MW = sm.get_mw(), eps = 3e-3;
   const double S[3] = {b.mh, b.mH, b.mA}; const char* sn[3] = {"h", "H", "A"};
   for (int i = 0; i < 3; ++i) {
      const double sc = std::max({S[i], b.mHp, MW});
      if (std::fabs(std::fabs(S[i] - b.mHp) - MW) < eps * sc || std::fabs(S[i] + b.mHp - MW) < eps * sc) { r.bos = std::string("kaellen(") + "S,H+,W)=0"; (void)sn; }
   }
   if (r.bos.empty() && std::fabs(b.mHp - MW) < eps * MW) r.bos = "mH+=MW";
   if (r.bos.empty() && std::fabs(b.mh - 2 * MW) < eps * 2 * MW) r.bos = "mh=2MW";
   for (int i = 0; i < 3 && r.ferm.empty(); ++i) for (int j = 0; j < 3; ++j) {
      const double mu = sm.get_mu(i), md = sm.get_md(j);
      if (std::fabs(b.mHp - (mu + md)) < eps * b.mHp || std::fabs(b.mHp - std::fabs(mu - md)) < eps * b.mHp) { r.ferm = "quark-threshold"; break; }
   }
   return r;
}

static void thdm_base(vh::Rng& r, int maxclasses) {
   thdm::Mass_basis b; b.yukawa_type = static_cast<thdm::Yukawa_type>(1 + r.range(4));
   b.mh = r.chance(0.4) ? r.LU(20, 300) : 125.09; b.mH = r.LU(b.mh + 10, 1500); b.mA = r.LU(50, 1500); b.mHp = r.LU(90, 1500);
   b.sin_beta_minus_alpha = r.U(0.9, 1) * r.sign(); b.tan_beta = r.LU(0.5, 40); b.lambda_6 = r.U(-1, 1); b.lambda_7 = r.U(-1, 1); b.m122 = r.U(-1, 1) * 2e5;
   thdm::Config cfg; cfg.running_couplings = r.chance(0.5);
   SM sm; const double MW = sm.get_mw(), MZ = sm.get_mz(), MHSM = sm.get_mh();
   J cb = gen::json(b); cb.i("running", cfg.running_couplings);
   Qv q0[NT];
   if (!eval_thdm(b, sm, cfg, q0)) { ++out->inconclusive; out->count("thdm-base-rejected"); return; }
   ++out->conclusive;
   for (int k = 0; k < NT; ++k) if (!std::isfinite(q0[k].v)) out->fail(std::string("C11:THDM:") + TN[k] + ":nonfinite-at-base-point", std::string(TN[k]) + " is not finite on an accepted model", cb);
   const char* mn[4] = {"mh", "mH", "mA", "mHp"};
   const double others[4] = {b.mh, b.mH, b.mA, b.mHp};
   std::vector<std::pair<std::string, std::pair<int, double>>> paths;
   for (int i = 0; i < 4; ++i) {
      auto add = [&](const std::string& rhs, double m0) { if (m0 > 10 && m0 < 1e4) paths.push_back({std::string(mn[i]) + "=" + rhs, {i, m0}}); };
      for (int j = 0; j < 4; ++j) if (j != i) {
         add(mn[j], others[j]); add(std::string("2") + mn[j], 2 * others[j]); add(std::string(mn[j]) + "/2", others[j] / 2);
         add(std::string(mn[j]) + "+MW", others[j] + MW); add(std::string(mn[j]) + "-MW", others[j] - MW); add(std::string(mn[j]) + "+MZ", others[j] + MZ); add(std::string(mn[j]) + "-MZ", others[j] - MZ);
         add(std::string("MW-") + mn[j], MW - others[j]);
         for (int k = j + 1; k < 4; ++k) if (k != i) { add(std::string(mn[j]) + "+" + mn[k], others[j] + others[k]); add(std::string("|") + mn[j] + "-" + mn[k] + "|", std::fabs(others[j] - others[k])); }
      }
      add("MZ", MZ); add("MW", MW); add("2MW", 2 * MW); add("2MZ", 2 * MZ); add("mhSM", MHSM); add("2mhSM", 2 * MHSM); add("mhSM/2", MHSM / 2); add("MZ/2", MZ / 2); add("MW/2", MW / 2); add("MW+MZ", MW + MZ);
      for (int g = 0; g < 3; ++g) { add(std::string("2m_u") + std::to_string(g), 2 * sm.get_mu(g)); add(std::string("2m_d") + std::to_string(g), 2 * sm.get_md(g)); add(std::string("2m_l") + std::to_string(g), 2 * sm.get_ml(g)); add(std::string("m_u") + std::to_string(g), sm.get_mu(g)); }
      if (i == 3) for (int u = 0; u < 3; ++u) for (int d = 0; d < 3; ++d) { add("m_u" + std::to_string(u) + "+m_d" + std::to_string(d), sm.get_mu(u) + sm.get_md(d)); add("m_u" + std::to_string(u) + "-m_d" + std::to_string(d), std::fabs(sm.get_mu(u) - sm.get_md(d))); }
   }
   // random subset when a cap is given (quick tier)
   if (maxclasses > 0 && static_cast<int>(paths.size()) > maxclasses) { for (int k = static_cast<int>(paths.size()) - 1; k > 0; --k) std::swap(paths[k], paths[r.range(k + 1)]); paths.resize(maxclasses); }
   for (auto& p : paths) {
      const int i = p.second.first; const double m0 = p.second.second;
      if (i == 0 && m0 * 1.001 > b.mH) continue;
      if (i == 1 && m0 * 0.999 < b.mh) continue;
      thdm::Mass_basis c = b; double* cm[4] = {&c.mh, &c.mH, &c.mA, &c.mHp};
      auto at = [&](double d, Qv* q) { *cm[i] = m0 * (1 + d); return eval_thdm(c, sm, cfg, q); };
      Qv A[NT], B[NT];
      if (!at(-1e-3, A) || !at(1e-3, B)) { out->count("thdm-path-end-rejected"); continue; }
      std::vector<std::vector<Qv>> pts(NT, std::vector<Qv>(NDS)); bool ok = true;
      for (int k = 0; k < NDS && ok; ++k) { Qv q[NT]; if (!at(DS[k], q)) { ok = false; break; } for (int t = 0; t < NT; ++t) pts[t][k] = q[t]; }
      if (!ok) { out->count("thdm-path-point-rejected"); continue; }
      *cm[i] = m0; const Mech mech = mechanisms(c, sm);
      for (int t = 0; t < NT; ++t) {
         double dev, dd, val; const int res = judge_path(A[t], B[t], pts[t], dev, dd, val);
         const std::string cell = std::string("THDM|") + TN[t] + "|" + p.first;
         if (res == -1) { out->count(std::string("inconclusive-path(>20% change):THDM:") + TN[t]); continue; }
         if (t >= 9 && t <= 11 && res != 2) {
            const double jmp = jump_at_zero(A[t], B[t], pts[t]);
            out->cell(cell + "(finite,no-step)", jmp, nullptr);
            if (jmp > 0.01) { J w = cb; w.str("class", p.first).str("quantity", TN[t]).d("m0", m0).d("step_of_magnitude", jmp).str("near_bosonic", mech.bos).str("near_fermionic", mech.ferm);
               out->fail(!mech.bos.empty() ? "C11:THDM:2LB:" + mech.bos : (!mech.ferm.empty() ? "C11:THDM:2LF:" + mech.ferm : std::string("C11:THDM:") + TN[t] + ":step:" + p.first), std::string(TN[t]) + " along " + p.first + ": step of " + vh::num(jmp) + " of the magnitude at d=0", w); }
            continue; }   // |a1L|, |a2L| inside: V-shaped at zero crossings; continuity follows from the parts (composition: C18)
         if (res == 3) { out->count(std::string("continuous-with-kink(allowed):THDM:") + TN[t]); out->cell(cell + "(kink)", 0, nullptr); continue; }
         if (res == 4) { out->count(std::string("continuous-strongly-curved(allowed):THDM:") + TN[t]); out->cell(cell + "(curved)", 0, nullptr); continue; }
         J w = cb; w.str("class", p.first).str("quantity", TN[t]).d("m0", m0).d("worst_deviation_of_magnitude", dev).d("at_d", dd).d("value", val).d("chord_lo", A[t].v).d("chord_hi", B[t].v).str("near_bosonic", mech.bos).str("near_fermionic", mech.ferm);
         out->cell(cell, dev, &w);
         if (res == 0) continue;
         { std::vector<double> pv; for (auto& x : pts[t]) pv.push_back(x.v); w.vec("values_at_DS", pv).d("scale_lo", A[t].s).d("scale_hi", B[t].s); }
         const bool bosonic_q = (t >= 4 && t <= 7), ferm_q = (t >= 1 && t <= 3), sum_q = (t >= 8 && t <= 12);
         std::string key;
         if ((bosonic_q || sum_q) && !mech.bos.empty()) key = "C11:THDM:2LB:" + mech.bos;
         else if ((ferm_q || sum_q) && !mech.ferm.empty()) key = "C11:THDM:2LF:" + mech.ferm;
         else key = std::string("C11:THDM:") + TN[t] + ":" + p.first + (res == 2 ? ":nonfinite" : "");
         // numerical noise is not a discontinuity at the special point: the 21 values, ordered by d, go up and down many times (a step reverses at most once,
         // a spike twice).  It is a finding of its own (cancellation in the Yukawa part of the bosonic two-loop contribution for a heavy H and a light H+).
         if (res == 1 && mech.bos.empty() && mech.ferm.empty()) {
            std::vector<std::pair<double, double>> dv; for (int k = 0; k < NDS; ++k) dv.push_back({DS[k], pts[t][k].v}); std::sort(dv.begin(), dv.end());
            int rev = 0; double last = 0; for (size_t k = 1; k < dv.size(); ++k) { const double df = dv[k].second - dv[k - 1].second; if (df != 0) { if (last != 0 && (df > 0) != (last > 0)) ++rev; last = df; } }
            w.i("direction_reversals", rev);
            if (rev >= 6 && (t == 7 || t == 4 || t == 8 || t == 12)) key = std::string("C11:THDM:") + TN[t] + ":numerical-noise";
         }
         out->fail(key, std::string(TN[t]) + " along " + p.first + (res == 2 ? ": non-finite value " : ": leaves the 1% band by ") + vh::num(res == 2 ? val : dev) + " at d=" + vh::num(dd), w);
      }
   }
   out->sample(cb, 1);
}

// ============================================================================ MSSM
static const int NM = 17;
static const char* MN[NM] = {"1Lchi0", "1Lchipm", "1L", "1L_non_tb_resummed", "2LFSf", "2Lphot_chi0", "2Lphot_chipm", "2LaSferm", "2LaCha", "2L", "2L_non_tb_resummed", "tan_beta_cor", "unc0", "unc1", "unc2", "1Lapprox", "total"};
static double S1of(const MSSMNoFV_onshell& m) {
   const auto aan = AAN(m), bbn = BBN(m); const auto aac = AAC(m), bbc = BBC(m); const auto x = x_im(m); const auto xk = x_k(m);
   const double mm = m.get_MM(); double s = 0;
   for (int i = 0; i < 4; ++i) for (int k = 0; k < 2; ++k) { const double ms2 = m.get_MSm(k) * m.get_MSm(k); s += std::fabs(aan(i, k) * F1N(x(i, k)) / (12 * ms2)) + std::fabs(m.get_MChi(i) * bbn(i, k) * F2N(x(i, k)) / (6 * mm * ms2)); }
   const double msv2 = m.get_MSvmL() * m.get_MSvmL();
   for (int k = 0; k < 2; ++k) s += (std::fabs(aac(k) * F1C(xk(k)) / 12) + std::fabs(m.get_MCha(k) * bbc(k) * F2C(xk(k)) / (3 * mm))) / msv2;
   return s * mm * mm / (16 * M_PI * M_PI);
}
static bool comps(const MSSMNoFV_onshell& m, Qv* q) {
   const double c0 = amu1LChi0(m), cp = amu1LChipm(m), s1 = S1of(m);
   const double fs = amu2LFSfapprox(m), p0 = amu2LChi0Photonic(m), pp = amu2LChipmPhotonic(m), as = amu2LaSferm(m), ac = amu2LaCha(m);
   // the fermion/sfermion part is itself a sum of five leading-log terms whose logarithms are normalised to the smallest SUSY mass (a kink
   // where that minimum changes hands): its magnitude is the sum of the absolute values of these terms
   const double sfs = std::max(std::fabs(fs), std::fabs(amu2LWHnu(m)) + std::fabs(amu2LWHmuL(m)) + std::fabs(amu2LBHmuL(m)) + std::fabs(amu2LBHmuR(m)) + std::fabs(amu2LBmuLmuR(m)));
   const double s2 = sfs + std::fabs(p0) + std::fabs(pp) + std::fabs(as) + std::fabs(ac);
   q[0] = {c0, std::fabs(c0)}; q[1] = {cp, std::fabs(cp)}; q[2] = {calculate_amu_1loop(m), s1}; q[3] = {calculate_amu_1loop_non_tan_beta_resummed(m), s1};
   q[4] = {fs, sfs}; q[5] = {p0, std::fabs(p0)}; q[6] = {pp, std::fabs(pp)}; q[7] = {as, std::fabs(as)}; q[8] = {ac, std::fabs(ac)};
   q[9] = {calculate_amu_2loop(m), s2}; q[10] = {calculate_amu_2loop_non_tan_beta_resummed(m), s2};
   const double tbc = tan_beta_cor(m); q[11] = {tbc, std::fabs(tbc)};
   q[14] = {calculate_uncertainty_amu_2loop(m), 2.3e-10 + 0.3 * (std::fabs(as) + std::fabs(ac))}; q[12] = {calculate_uncertainty_amu_0loop(m), s1}; q[13] = {calculate_uncertainty_amu_1loop(m), s2 + q[14].s};
   const double ap = amu1Lapprox(m); q[15] = {ap, std::max(std::fabs(ap), s1)}; q[16] = {q[2].v + q[9].v, s1 + s2};
   return true;
}

static void mssm_base(vh::Rng& r, int maxpaths) {
   gen::MssmPoint base = gen::rand_mssm(r, 150, 2000, 2, 60, 2.0);
   for (int g = 0; g < 3; ++g) { base.mq[g] = r.LU(800, 4000); base.mU[g] = r.LU(800, 4000); base.mD[g] = r.LU(800, 4000); base.Ae[g] = r.U(-1, 1) * 300; base.Au[g] = r.U(-1, 1) * 1000; base.Ad[g] = r.U(-1, 1) * 1000; }
   base.m3 = r.LU(800, 4000); base.ma = r.LU(300, 3000);
   if (r.chance(0.3)) { base.mq[2] = r.LU(300, 1500); base.mU[2] = r.LU(300, 1500); base.ml[2] = r.LU(150, 800); base.me[2] = r.LU(150, 800); }   // light third generation: 2L(a) thresholds within reach
   J cb = base.json();
   try { MSSMNoFV_onshell m = gen::make_mssm(base); if (m.get_problems().have_problem()) { ++out->inconclusive; return; }
      Qv q[NM]; comps(m, q); for (int k = 0; k < NM; ++k) if (!std::isfinite(q[k].v)) out->fail(std::string("C11:MSSM:") + MN[k] + ":nonfinite-at-base-point", std::string(MN[k]) + " is not finite on a model accepted without problem", cb);
   } catch (const Error&) { ++out->inconclusive; out->count("mssm-base-rejected"); return; }
   ++out->conclusive;
   struct Par { const char* n; std::function<double&(gen::MssmPoint&)> ref; };
   const std::vector<Par> pars = {{"M1", [](gen::MssmPoint& p) -> double& { return p.m1; }}, {"M2", [](gen::MssmPoint& p) -> double& { return p.m2; }}, {"mu", [](gen::MssmPoint& p) -> double& { return p.mu; }},
      {"MA", [](gen::MssmPoint& p) -> double& { return p.ma; }}, {"msl2", [](gen::MssmPoint& p) -> double& { return p.ml[1]; }}, {"mse2", [](gen::MssmPoint& p) -> double& { return p.me[1]; }},
      {"msq3", [](gen::MssmPoint& p) -> double& { return p.mq[2]; }}, {"msl3", [](gen::MssmPoint& p) -> double& { return p.ml[2]; }}, {"msu3", [](gen::MssmPoint& p) -> double& { return p.mU[2]; }}, {"tb", [](gen::MssmPoint& p) -> double& { return p.tb; }}};
   struct Tg { std::string n; std::function<double(const MSSMNoFV_onshell&)> g; };
   std::vector<Tg> tg;
   auto sq = [](double x) { return x * x; };
   for (int i = 0; i < 4; ++i) for (int k = 0; k < 2; ++k) {
      tg.push_back({"mchi" + std::to_string(i) + "=msmu" + std::to_string(k), [i, k](const MSSMNoFV_onshell& m) { return m.get_MChi(i) - m.get_MSm(k); }});
      tg.push_back({"x_im(" + std::to_string(i) + "," + std::to_string(k) + ")=1/4", [i, k](const MSSMNoFV_onshell& m) { return 2 * m.get_MChi(i) - m.get_MSm(k); }});
   }
   for (int k = 0; k < 2; ++k) {
      tg.push_back({"mcha" + std::to_string(k) + "=msnu", [k](const MSSMNoFV_onshell& m) { return m.get_MCha(k) - m.get_MSvmL(); }});
      tg.push_back({"x_k(" + std::to_string(k) + ")=1/4", [k](const MSSMNoFV_onshell& m) { return 2 * m.get_MCha(k) - m.get_MSvmL(); }});
      tg.push_back({"2mcha" + std::to_string(k) + "=MA", [k](const MSSMNoFV_onshell& m) { return 2 * m.get_MCha(k) - m.get_MA0(); }});
      tg.push_back({"mcha" + std::to_string(k) + "=MA", [k](const MSSMNoFV_onshell& m) { return m.get_MCha(k) - m.get_MA0(); }});
      tg.push_back({"2mcha" + std::to_string(k) + "=mH", [k](const MSSMNoFV_onshell& m) { return 2 * m.get_MCha(k) - m.get_Mhh(1); }});
      tg.push_back({"2mcha" + std::to_string(k) + "=mh", [k](const MSSMNoFV_onshell& m) { return 2 * m.get_MCha(k) - m.get_Mhh(0); }});
      tg.push_back({"mcha" + std::to_string(k) + "=mH", [k](const MSSMNoFV_onshell& m) { return m.get_MCha(k) - m.get_Mhh(1); }});
      tg.push_back({"2mstau" + std::to_string(k) + "=mH", [k](const MSSMNoFV_onshell& m) { return 2 * m.get_MStau(k) - m.get_Mhh(1); }});
      tg.push_back({"2mstau" + std::to_string(k) + "=mh", [k](const MSSMNoFV_onshell& m) { return 2 * m.get_MStau(k) - m.get_Mhh(0); }});
      tg.push_back({"2mstop" + std::to_string(k) + "=mH", [k](const MSSMNoFV_onshell& m) { return 2 * m.get_MSt(k) - m.get_Mhh(1); }});
      tg.push_back({"2msbot" + std::to_string(k) + "=mH", [k](const MSSMNoFV_onshell& m) { return 2 * m.get_MSb(k) - m.get_Mhh(1); }});
      tg.push_back({"mstop" + std::to_string(k) + "=mH", [k](const MSSMNoFV_onshell& m) { return m.get_MSt(k) - m.get_Mhh(1); }});
   }
   tg.push_back({"mcha0=mcha1", [](const MSSMNoFV_onshell& m) { return std::fabs(m.get_MassWB()) - std::fabs(m.get_Mu()); }});
   tg.push_back({"|M1|=|mu|", [](const MSSMNoFV_onshell& m) { return std::fabs(m.get_MassB()) - std::fabs(m.get_Mu()); }});
   tg.push_back({"|M1|=|M2|", [](const MSSMNoFV_onshell& m) { return std::fabs(m.get_MassB()) - std::fabs(m.get_MassWB()); }});
   tg.push_back({"msl=mse", [](const MSSMNoFV_onshell& m) { return m.get_ml2(1, 1) - m.get_me2(1, 1); }});
   tg.push_back({"|M1|=msl", [sq](const MSSMNoFV_onshell& m) { return sq(m.get_MassB()) - m.get_ml2(1, 1); }});
   tg.push_back({"|M1|=mse", [sq](const MSSMNoFV_onshell& m) { return sq(m.get_MassB()) - m.get_me2(1, 1); }});
   tg.push_back({"|mu|=msl", [sq](const MSSMNoFV_onshell& m) { return sq(m.get_Mu()) - m.get_ml2(1, 1); }});
   tg.push_back({"|mu|=mse", [sq](const MSSMNoFV_onshell& m) { return sq(m.get_Mu()) - m.get_me2(1, 1); }});
   tg.push_back({"|M2|=msl", [sq](const MSSMNoFV_onshell& m) { return sq(m.get_MassWB()) - m.get_ml2(1, 1); }});
   tg.push_back({"MA=MZ", [](const MSSMNoFV_onshell& m) { return m.get_MA0() - m.get_MZ(); }});
   tg.push_back({"mse=msl3", [](const MSSMNoFV_onshell& m) { return m.get_me2(1, 1) - m.get_ml2(2, 2); }});
   tg.push_back({"msmu0=msmu1", [](const MSSMNoFV_onshell& m) { return m.get_MSm(1) - m.get_MSm(0) - 1e-9 * m.get_MSm(1); }});
   tg.push_back({"mstop0=mstop1", [](const MSSMNoFV_onshell& m) { return m.get_mq2(2, 2) - m.get_mu2(2, 2); }});
   std::vector<std::pair<int, int>> combos;
   for (size_t a = 0; a < pars.size(); ++a) for (size_t t = 0; t < tg.size(); ++t) combos.push_back({static_cast<int>(a), static_cast<int>(t)});
   if (maxpaths > 0 && static_cast<int>(combos.size()) > maxpaths) { for (int k = static_cast<int>(combos.size()) - 1; k > 0; --k) std::swap(combos[k], combos[r.range(k + 1)]); combos.resize(maxpaths); }
   for (auto& cmb : combos) {
      const Par& pr = pars[cmb.first]; const Tg& t = tg[cmb.second];
      gen::MssmPoint tmp = base; const double p0 = pr.ref(tmp);
      auto G = [&](double x, bool& ok) { gen::MssmPoint q = base; pr.ref(q) = x; try { MSSMNoFV_onshell m = gen::make_mssm(q); ok = !m.get_problems().have_problem(); return t.g(m); } catch (const Error&) { ok = false; return 0.0; } };
      // (MA is scanned down to MZ: base values start at 300 GeV)
      double lo = 0, hi = 0, prevx = 0, prevg = 0; bool found = false, havep = false;
      for (int s = 0; s <= 40 && !found; ++s) { const double x = p0 * (std::string(pr.n) == "MA" ? std::pow(10.0, -1.6 + 2.1 * s / 40.0) : std::pow(10.0, -0.5 + s / 40.0)); bool ok; const double g = G(x, ok); if (!ok) { havep = false; continue; } if (havep && g * prevg < 0) { lo = prevx; hi = x; found = true; } prevx = x; prevg = g; havep = true; }
      if (!found) continue;
      bool ok; double glo = G(lo, ok);
      for (int bi = 0; bi < 200; ++bi) { const double mid = 0.5 * (lo + hi); if (mid == lo || mid == hi) break; const double gm = G(mid, ok); if (!ok) break; if (gm * glo <= 0) hi = mid; else { lo = mid; glo = gm; } }
      const double x0 = hi;
      auto at = [&](double d, Qv* q) { gen::MssmPoint qq = base; pr.ref(qq) = x0 * (1 + d); try { MSSMNoFV_onshell m = gen::make_mssm(qq); if (m.get_problems().have_problem()) return false; return comps(m, q); } catch (const Error&) { return false; } };
      Qv A[NM], B[NM]; if (!at(-1e-3, A) || !at(1e-3, B)) { out->count("mssm-path-end-rejected"); continue; }
      std::vector<std::vector<Qv>> pts(NM, std::vector<Qv>(NDS)); bool okp = true;
      for (int k = 0; k < NDS && okp; ++k) { Qv q[NM]; if (!at(DS[k], q)) { okp = false; break; } for (int c = 0; c < NM; ++c) pts[c][k] = q[c]; }
      if (!okp) { out->count("mssm-path-point-rejected"); continue; }
      const std::string cls = t.n + "@" + pr.n;
      for (int c = 0; c < NM; ++c) {
         double dev, dd, val; const int res = judge_path(A[c], B[c], pts[c], dev, dd, val);
         if (res == -1) { out->count(std::string("inconclusive-path(>20% change):MSSM:") + MN[c]); continue; }
         if (c >= 12 && c <= 14 && res != 2) {
            const double jmp = jump_at_zero(A[c], B[c], pts[c]);
            out->cell(std::string("MSSM|") + MN[c] + "|" + t.n + "(finite,no-step)", jmp, nullptr);
            if (jmp > 0.01) { J w = cb; w.str("class", cls).str("quantity", MN[c]).d("x0", x0).d("step_of_magnitude", jmp); out->fail(std::string("C11:MSSM:") + MN[c] + ":step:" + t.n, std::string(MN[c]) + " along " + cls + ": step of " + vh::num(jmp) + " of the magnitude at the special point", w); }
            continue; }
         if (res == 3) { out->count(std::string("continuous-with-kink(allowed):MSSM:") + MN[c]); out->cell(std::string("MSSM|") + MN[c] + "|" + t.n + "(kink)", 0, nullptr); continue; }
         if (res == 4) { out->count(std::string("continuous-strongly-curved(allowed):MSSM:") + MN[c]); out->cell(std::string("MSSM|") + MN[c] + "|" + t.n + "(curved)", 0, nullptr); continue; }
         J w = cb; w.str("class", cls).str("quantity", MN[c]).d("x0", x0).d("worst_deviation_of_magnitude", dev).d("at_d", dd).d("value", val).d("chord_lo", A[c].v).d("chord_hi", B[c].v);
         out->cell(std::string("MSSM|") + MN[c] + "|" + t.n, dev, &w);
         if (res != 0) { std::vector<double> pv; for (auto& x : pts[c]) pv.push_back(x.v); w.vec("values_at_DS", pv).d("scale_lo", A[c].s).d("scale_hi", B[c].s); }
         if (res != 0) out->fail(std::string("C11:MSSM:") + MN[c] + ":" + t.n + (res == 2 ? ":nonfinite" : ""), std::string(MN[c]) + " along " + cls + (res == 2 ? ": non-finite value" : ": leaves the 1% band by " + vh::num(dev)) + " at d=" + vh::num(dd), w);
      }
   }
   out->sample(cb, 1);
}

int main(int argc, char** argv) {
   vh::Args a(argc, argv);
   vh::Out o(a); out = &o;
   LIT = a.getd("literal", 0) != 0;
   const int maxclasses = static_cast<int>(a.getd("maxclasses", 0)), maxpaths = static_cast<int>(a.getd("maxpaths", 0));
   const int only_model = static_cast<int>(a.getd("model", 0));   // 1 THDM, 2 MSSM
   gen::CerrCapture cap;
   for (long i = a.first(); i < a.last(); ++i) {
      o.cur = i;
      vh::Rng r(a.seed, a.worker, i);
      ++o.evaluations;
      const bool th = only_model ? only_model == 1 : (i % 2 == 0);
      if (th) thdm_base(r, maxclasses); else mssm_base(r, maxpaths);
      cap.take();
   }
   o.finish();
   return 0;
}
