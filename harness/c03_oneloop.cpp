// C03: one-loop a_mu against an independent evaluation (own mass matrices, own long-double Jacobi
// diagonalisation, 200-digit loop functions) from the Lagrangian parameters the model reports.
#include "gen.hpp"
#include "mpref.h"
#include "gm2calc/gm2_1loop.hpp"
#include <complex>

using namespace gm2calc;
using vh::J;
typedef long double LD;
static vh::Out* out;
static const LD PIl = 3.14159265358979323846264338327950288L;

// cyclic Jacobi with eigenvectors for a real symmetric K x K matrix (long double); rows of V are eigenvectors
template <int K> void jacobi(LD a[K][K], LD w[K], LD V[K][K]) {
   for (int i = 0; i < K; ++i) for (int j = 0; j < K; ++j) V[i][j] = i == j;
   for (int sweep = 0; sweep < 80; ++sweep) {
      LD off = 0, dg = 0;
      for (int p = 0; p < K; ++p) { dg += a[p][p] * a[p][p]; for (int q = p + 1; q < K; ++q) off += a[p][q] * a[p][q]; }
      if (off <= 1e-44L * (dg + off)) break;
      for (int p = 0; p < K; ++p) for (int q = p + 1; q < K; ++q) {
         if (a[p][q] == 0) continue;
         const LD th = (a[q][q] - a[p][p]) / (2 * a[p][q]);
         const LD t = (th >= 0 ? 1 : -1) / (fabsl(th) + sqrtl(th * th + 1)), c = 1 / sqrtl(t * t + 1), s = t * c;
         for (int k = 0; k < K; ++k) { const LD x = a[k][p], y = a[k][q]; a[k][p] = c * x - s * y; a[k][q] = s * x + c * y; }
         for (int k = 0; k < K; ++k) { const LD x = a[p][k], y = a[q][k]; a[p][k] = c * x - s * y; a[q][k] = s * x + c * y; }
         for (int k = 0; k < K; ++k) { const LD x = V[p][k], y = V[q][k]; V[p][k] = c * x - s * y; V[q][k] = s * x + c * y; }
      }
   }
   for (int i = 0; i < K; ++i) w[i] = a[i][i];
}
static LD F(int id, LD x) { return mpref_eval1_ld(id, x); }

struct Ref1L { LD chi0, cha, s_chi0, s_cha; bool ok; LD dropped_cha = 0; bool cha_below_10eps = false; };   // dropped_cha: the F2C terms whose argument lies in (0, 10 eps)

// Eqs. (2.11a,b) of arXiv:1311.1775 with real orthogonal neutralino mixing and signed eigenvalues
static Ref1L mssm_ref(double g1, double g2, double vd, double vu, double mu, double M1, double M2, double ml2, double me2, double y, double T, double mm) {
   Ref1L r{0, 0, 0, 0, true};
   const LD gY = sqrtl(0.6L) * g1, s2 = sqrtl(2.0L);
   LD N[4][4] = {{M1, 0, -gY * vd / 2, gY * vu / 2}, {0, M2, (LD)g2 * vd / 2, -(LD)g2 * vu / 2}, {-gY * vd / 2, (LD)g2 * vd / 2, 0, -(LD)mu}, {gY * vu / 2, -(LD)g2 * vu / 2, -(LD)mu, 0}};
   LD ev[4], O[4][4]; jacobi<4>(N, ev, O);
   const LD dv = (LD)vd * vd - (LD)vu * vu;
   const LD DL = 0.125L * (0.6L * g1 * g1 - (LD)g2 * g2) * dv, DR = -0.15L * g1 * g1 * dv;
   LD S[2][2] = {{ml2 + 0.5L * y * y * vd * vd + DL, ((LD)vd * T - (LD)vu * y * mu) / s2}, {((LD)vd * T - (LD)vu * y * mu) / s2, me2 + 0.5L * y * y * vd * vd + DR}};
   LD sm2[2], Us[2][2]; jacobi<2>(S, sm2, Us);
   const LD msv2 = ml2 + 0.125L * (0.6L * g1 * g1 + (LD)g2 * g2) * dv;
   if (!(sm2[0] > 0 && sm2[1] > 0 && msv2 > 0)) { r.ok = false; return r; }
   for (int i = 0; i < 4; ++i) for (int k = 0; k < 2; ++k) {
      const LD nL = (gY * O[i][0] + g2 * O[i][1]) / s2 * Us[k][0] - y * O[i][2] * Us[k][1];
      const LD nR = s2 * gY * O[i][0] * Us[k][1] + y * O[i][2] * Us[k][0];
      const LD x = ev[i] * ev[i] / sm2[k];
      const LD t1 = -mm / (12 * sm2[k]) * (nL * nL + nR * nR) * F(MPREF_F1N, x), t2 = ev[i] / (3 * sm2[k]) * nL * nR * F(MPREF_F2N, x);
      r.chi0 += t1 + t2; r.s_chi0 += fabsl(t1) + fabsl(t2);
   }
   // chargino: X = sum_k u_k d_k v_k^T
   LD X[2][2] = {{M2, g2 * vu / s2}, {g2 * vd / s2, mu}};
   LD XtX[2][2] = {{X[0][0] * X[0][0] + X[1][0] * X[1][0], X[0][0] * X[0][1] + X[1][0] * X[1][1]}, {X[0][0] * X[0][1] + X[1][0] * X[1][1], X[0][1] * X[0][1] + X[1][1] * X[1][1]}};
   LD d2[2], V[2][2]; jacobi<2>(XtX, d2, V);
   // left singular vectors from X X^T (eigenvectors are well conditioned when the two singular values are far apart; u = X v / d is not when d is tiny), the small
   // singular value from det X / d_big (the eigenvalue of X^T X carries the squared condition number)
   LD XXt[2][2] = {{X[0][0] * X[0][0] + X[0][1] * X[0][1], X[0][0] * X[1][0] + X[0][1] * X[1][1]}, {X[0][0] * X[1][0] + X[0][1] * X[1][1], X[1][0] * X[1][0] + X[1][1] * X[1][1]}};
   LD e2[2], U[2][2]; jacobi<2>(XXt, e2, U);
   const int kb = d2[0] > d2[1] ? 0 : 1;
   const LD dbig = sqrtl(d2[kb]), detX = X[0][0] * X[1][1] - X[0][1] * X[1][0];
   for (int k = 0; k < 2; ++k) {
      if (!(d2[kb] > 0)) { r.ok = false; return r; }
      const LD d = k == kb ? dbig : fabsl(detX) / dbig;
      if (!(d > 0)) { r.ok = false; return r; }
      // the left vector belonging to v_k: the eigenvector of X X^T of the corresponding (larger / smaller) eigenvalue, sign from u^T X v = d > 0
      const int ku = ((e2[0] > e2[1]) == (k == kb)) ? 0 : 1;
      LD u0 = U[ku][0], u1 = U[ku][1];
      const LD uXv = u0 * (X[0][0] * V[k][0] + X[0][1] * V[k][1]) + u1 * (X[1][0] * V[k][0] + X[1][1] * V[k][1]);
      if (uXv < 0) { u0 = -u0; u1 = -u1; }
      const LD cL = -g2 * V[k][0], cR = y * u1, x = d * d / msv2;
      const LD t1 = mm / (12 * msv2) * (cL * cL + cR * cR) * F(MPREF_F1C, x), t2 = 2 * d / (3 * msv2) * cL * cR * F(MPREF_F2C, x);
      r.cha += t1 + t2; r.s_cha += fabsl(t1) + fabsl(t2);
      if (x > 0 && x < 10 * std::numeric_limits<double>::epsilon()) { r.dropped_cha += t2; r.cha_below_10eps = true; }
   }
   const LD pre = mm / (16 * PIl * PIl);
   r.chi0 *= pre; r.cha *= pre; r.s_chi0 *= pre; r.s_cha *= pre; r.dropped_cha *= pre;
   return r;
}

static void compare(const std::string& model, const std::string& what, const std::string& cell, double lib, LD ref, LD scale, const J& c, const std::string& keysuffix = "") {
   const double e = std::isfinite(lib) ? static_cast<double>(fabsl(lib - ref) / std::max(scale, (LD)1e-300)) : std::numeric_limits<double>::quiet_NaN();
   J w = c; w.str("quantity", what).d("lib", lib).ld("ref", ref).ld("sum_abs_terms", scale).d("err", e);
   out->cell(model + "|" + what + "|" + cell, e, &w);
   if (!(e <= 1e-8)) out->fail("C03:" + model + ":" + what + keysuffix, what + ": library " + vh::num(lib) + " vs independent " + vh::num(ref) + ", deviation " + vh::num(e) + " of sum|terms|", w, e);
}

static void check_mssm(const MSSMNoFV_onshell& m, const J& c, const std::string& how) {
   const Ref1L r = mssm_ref(m.get_g1(), m.get_g2(), m.get_vd(), m.get_vu(), m.get_Mu(), m.get_MassB(), m.get_MassWB(), m.get_ml2(1, 1), m.get_me2(1, 1), m.get_Ye(1, 1), m.get_Ye(1, 1) * m.get_Ae(1, 1), m.get_MM());
   if (!r.ok) { ++out->inconclusive; out->count("mssm-reference-not-applicable(tachyon)"); return; }
   const std::string cell = how + "|sgn" + (m.get_Mu() > 0 ? "+" : "-") + (m.get_MassB() > 0 ? "+" : "-") + (m.get_MassWB() > 0 ? "+" : "-") + "|tb" + vh::decade(m.get_TB());
   const double l0 = amu1LChi0(m), lc = amu1LChipm(m), lt = calculate_amu_1loop(m);
   compare("MSSM", "chi0", cell, l0, r.chi0, r.s_chi0, c);
   // known finding (the MSSM face of the THDM one below): F2C(x) returns its x = 0 convention (0) for 0 < x < 10 eps, which drops the m_chi F2C term of a chargino
   // lighter than 4.7e-8 sneutrino masses (det X ~ 0 by accident).  The key of the finding is given only when the deviation is that dropped term (to 1e-8 of
   // the term sum); anything else in the region keeps the plain key.
   const std::string sc = (r.cha_below_10eps && std::isfinite(lc) && fabsl(lc - (r.cha - r.dropped_cha)) <= 1e-8L * r.s_cha) ? ":chargino-F2C-below-10eps" : "";
   const std::string ss = (r.cha_below_10eps && std::isfinite(lt) && fabsl(lt - (r.chi0 + r.cha - r.dropped_cha)) <= 1e-8L * (r.s_chi0 + r.s_cha)) ? ":chargino-F2C-below-10eps" : "";
   compare("MSSM", "chipm", cell, lc, r.cha, r.s_cha, c, sc);
   compare("MSSM", "sum", cell, lt, r.chi0 + r.cha, r.s_chi0 + r.s_cha, c, ss);
}

static void case_mssm(vh::Rng& r) {
   MSSMNoFV_onshell m;
   const double tb = r.LU(1, 100), mu = r.sign() * r.LU(50, 1e4), m1 = r.sign() * r.LU(50, 1e4), m2 = r.sign() * r.LU(50, 1e4);
   m.set_TB(tb); m.set_Mu(mu); m.set_MassB(m1); m.set_MassWB(m2); m.set_MassG(r.sign() * r.LU(500, 5000)); m.set_MA0(r.LU(200, 3000)); m.set_scale(r.LU(200, 3000));
   double ml[3], me[3], Ae[3];
   for (int i = 0; i < 3; ++i) { ml[i] = r.LU(80, 1e4); me[i] = r.LU(80, 1e4); Ae[i] = r.U(-1e4, 1e4); const double q = r.LU(500, 5000);
      m.set_ml2(i, i, ml[i] * ml[i]); m.set_me2(i, i, me[i] * me[i]); m.set_mq2(i, i, q * q); m.set_mu2(i, i, q * q * 1.1); m.set_md2(i, i, q * q * 0.9); m.set_Ae(i, i, Ae[i]); m.set_Au(i, i, r.U(-1, 1) * 1000); m.set_Ad(i, i, r.U(-1, 1) * 1000); }
   J c; c.str("model", "MSSM").d("tb", tb).d("mu", mu).d("M1", m1).d("M2", m2).arr("ml", ml, ml + 3).arr("me", me, me + 3).arr("Ae", Ae, Ae + 3);
   try { m.calculate_masses(); } catch (const Error&) { ++out->inconclusive; out->count("mssm-rejected"); return; }
   if (m.get_problems().have_problem()) { ++out->inconclusive; out->count("mssm-problem"); return; }
   // a nearly massless chargino (2 % of the cases): mu moved to where the determinant of the chargino mass matrix vanishes, M2 mu = g2^2 vu vd / 2, up to 1e-14 .. 1e-3
   if (r.chance(0.02)) {
      const double mu0 = m.get_g2() * m.get_g2() * m.get_vu() * m.get_vd() / (2 * m2) * (1 + r.sign() * r.LU(1e-14, 1e-3));
      m.set_Mu(mu0); c.d("mu", mu0).i("nearly_massless_chargino", 1);
      try { m.calculate_masses(); } catch (const Error&) { ++out->inconclusive; out->count("mssm-rejected(nearly massless chargino)"); return; }
      if (m.get_problems().have_problem()) { ++out->inconclusive; out->count("mssm-problem(nearly massless chargino)"); return; }
      out->count("points with a nearly massless chargino");
   }
   ++out->conclusive;
   check_mssm(m, c, "onshell-input");
   // non-resummed: the reference evaluates the converted copy's parameters
   try {
      MSSMNoFV_onshell t(m); t.convert_to_non_tan_beta_resummed();
      const Ref1L rr = mssm_ref(t.get_g1(), t.get_g2(), t.get_vd(), t.get_vu(), t.get_Mu(), t.get_MassB(), t.get_MassWB(), t.get_ml2(1, 1), t.get_me2(1, 1), std::sqrt(2.0) * t.get_MM() / t.get_vd(), (std::sqrt(2.0) * t.get_MM() / t.get_vd()) * t.get_Ae(1, 1), t.get_MM());
      if (rr.ok) { const double ln = calculate_amu_1loop_non_tan_beta_resummed(m);
         const std::string sn = (rr.cha_below_10eps && std::isfinite(ln) && fabsl(ln - (rr.chi0 + rr.cha - rr.dropped_cha)) <= 1e-8L * (rr.s_chi0 + rr.s_cha)) ? ":chargino-F2C-below-10eps" : "";
         compare("MSSM", "non-tan-beta-resummed-sum", "onshell-input", ln, rr.chi0 + rr.cha, rr.s_chi0 + rr.s_cha, c, sn); }
   } catch (const Error&) { out->count("non-resummed-spectrum-rejected"); }
   // a re-used object: the calculated model, some parameters changed through the setters (as in a scan loop), recalculated
   if (r.chance(0.25)) {
      MSSMNoFV_onshell u(m);
      const int what = r.range(4);
      if (what == 0) u.set_ml2(1, 1, ml[1] * ml[1] * r.LU(0.3, 3)); else if (what == 1) u.set_TB(tb * r.U(0.5, 1.5)); else if (what == 2) { u.set_Mu(mu * r.U(0.5, 2)); u.set_MassWB(m2 * r.U(0.5, 2)); }
      else { const double k = r.LU(0.5, 4); u.set_Mu(mu * k); u.set_MassB(m1 * k); u.set_MassWB(m2 * k); u.set_ml2(1, 1, ml[1] * ml[1] * k * k); u.set_me2(1, 1, me[1] * me[1] * k * k); }
      try { u.calculate_masses(); if (!u.get_problems().have_problem()) { J cu = c; cu.i("changed_after_first_calculation", what); check_mssm(u, cu, "re-used-object"); } else out->count("re-used-object-problem"); }
      catch (const Error&) { out->count("re-used-object-rejected"); }
   }
   // through the DR-bar -> on-shell conversion
   if (r.chance(0.25)) {
      MSSMNoFV_onshell b(m); b.get_problems().clear();
      const double pert = 0.05;
      b.set_Mu(mu * (1 + r.U(-pert, pert))); b.set_MassB(m1 * (1 + r.U(-pert, pert))); b.set_MassWB(m2 * (1 + r.U(-pert, pert)));
      b.set_ml2(1, 1, ml[1] * ml[1] * (1 + r.U(-pert, pert))); b.set_me2(1, 1, me[1] * me[1] * (1 + r.U(-pert, pert)));
      try { b.convert_to_onshell(1e-8, 1000); } catch (const Error&) { out->count("conversion-rejected"); return; }
      if (b.get_problems().have_problem()) { out->count("conversion-problem"); return; }
      check_mssm(b, c, "after-convert_to_onshell");
   }
}

// flavour-summed one-loop expression of arXiv:1607.06292 minus the SM-Higgs term, with the Yukawa matrices the model reports
static void case_thdm(vh::Rng& r) {
   gen::ThdmOpts op; op.delta = r.chance(0.5) ? 1e-2 : 0.3; op.pi = op.delta;
   thdm::Config cfg; cfg.running_couplings = r.chance(0.5);
   SM sm = gen::rand_sm(r);
   J c; THDM* mp = nullptr;
   std::string basis; int ytype = 0;
   try {
      if (r.chance(0.6)) { thdm::Mass_basis b = gen::rand_mass_basis(r, op); c = gen::json(b); basis = "mass"; ytype = static_cast<int>(b.yukawa_type); mp = new THDM(b, sm, cfg); }
      else {
         thdm::Gauge_basis g; g.yukawa_type = static_cast<thdm::Yukawa_type>(1 + r.range(6)); for (int i = 0; i < 7; ++i) g.lambda(i) = r.U(i < 2 ? 0.05 : -2, 2);
         g.tan_beta = r.LU(0.3, 50); g.m122 = r.LU(1e3, 1e7); g.zeta_u = r.U(-2, 2); g.zeta_d = r.U(-2, 2); g.zeta_l = r.U(-2, 2);
         g.Delta_u = gen::rand33(r, op.delta); g.Delta_d = gen::rand33(r, op.delta); g.Delta_l = gen::rand33(r, op.delta); g.Pi_u = gen::rand33(r, op.pi); g.Pi_d = gen::rand33(r, op.pi); g.Pi_l = gen::rand33(r, op.pi);
         c = gen::json(g); basis = "gauge"; ytype = static_cast<int>(g.yukawa_type); mp = new THDM(g, sm, cfg);
      }
   } catch (const Error&) { ++out->inconclusive; out->count("thdm-rejected"); return; }
   const THDM& m = *mp;
   c.str("model", "THDM").str("basis", basis).i("running", cfg.running_couplings);
   ++out->conclusive;
   const LD mm = m.get_MFe(1), mw = m.get_MVWm(), mz = m.get_MVZ(), mhSM = m.get_sm().get_mh();
   const LD sw2 = 1 - mw * mw / (mz * mz), e2 = 4 * PIl * m.get_alpha_em(), g2 = sqrtl(e2 / sw2), v = 2 * mw / g2;
   const Eigen::Matrix<double, 3, 1> ml = m.get_MFe(), mv = m.get_MFv();
   const Eigen::Matrix<std::complex<double>, 3, 3> yh = m.get_ylh(), yH = m.get_ylH(), yA = m.get_ylA(), yHp = m.get_ylHp();
   LD res = 0, sabs = 0, dropped = 0;   // dropped: the F2C terms whose argument lies in (0, 10 eps), which the library evaluates with its x = 0 convention
   auto add = [&](LD t) { res += t; sabs += fabsl(t); };
   auto neutral = [&](const Eigen::Matrix<std::complex<double>, 3, 3>& y, LD mS, int sign) {
      for (int g = 0; g < 3; ++g) {
         const LD x = (LD)ml(g) * ml(g) / (mS * mS);
         const std::complex<LD> a(y(g, 1).real(), y(g, 1).imag()), b(y(1, g).real(), y(1, g).imag());
         const LD n2 = std::norm(a) + std::norm(b), re = (std::conj(a) * std::conj(b)).real();
         add(n2 * F(MPREF_F1C, x) / 24 / (mS * mS));
         add(sign * re * ml(g) / ml(1) * F(MPREF_F2C, x) / 3 / (mS * mS));
         if (x > 0 && x < 10 * std::numeric_limits<double>::epsilon()) dropped += sign * re * ml(g) / ml(1) * F(MPREF_F2C, x) / 3 / (mS * mS);
      }
   };
   neutral(yh, m.get_Mhh(0), +1); neutral(yH, m.get_Mhh(1), +1); neutral(yA, m.get_MAh(1), -1);
   { const LD mS = m.get_MHm(1); for (int g = 0; g < 3; ++g) { const LD n2 = std::norm(std::complex<LD>(yHp(g, 1).real(), yHp(g, 1).imag()));
        add(-n2 / 48 * F(MPREF_F1N, (LD)mv(1) * mv(1) / (mS * mS)) / (mS * mS)); add(-n2 / 48 * F(MPREF_F1N, (LD)mv(g) * mv(g) / (mS * mS)) / (mS * mS)); } }
   { const LD ySM = mm / v, x = mm * mm / (mhSM * mhSM); add(-(2 * ySM * ySM) * F(MPREF_F1C, x) / 24 / (mhSM * mhSM)); add(-(ySM * ySM) * F(MPREF_F2C, x) / 3 / (mhSM * mhSM)); }
   const LD pre = mm * mm / (8 * PIl * PIl);
   const double lib = calculate_amu_1loop(m);
   // known finding: F2C(x) returns its x = 0 convention (0) for 0 < x < 10 eps, which drops the electron-loop term m_e/m_mu F2C(m_e^2/m_S^2)
   // of a neutral scalar heavier than m_e/sqrt(10 eps) = 10.9 TeV
   const double xe_min = std::pow(ml(0) / std::max({m.get_Mhh(0), m.get_Mhh(1), m.get_MAh(1)}), 2);
   // ... and the key of that finding is given only when the deviation is that dropped term (to 1e-8 of the term sum): anything else in the region keeps the plain key
   const bool is_dropped_term = std::isfinite(lib) && fabsl(lib - pre * (res - dropped)) <= 1e-8L * pre * sabs;
   const std::string sfx = (xe_min > 0 && xe_min < 10 * std::numeric_limits<double>::epsilon() && is_dropped_term) ? ":electron-loop-F2C-below-10eps" : "";
   // the Yukawa type is in the case record; cells by basis x running x off-diagonal size
   compare("THDM", "1loop", basis + "|type" + std::to_string(ytype) + (cfg.running_couplings ? "|run" : "|norun") + (op.delta > 0.1 ? "|large-offdiag" : "|small-offdiag") + (sfx.empty() ? "" : "|mS>10.9TeV"), lib, pre * res, pre * sabs, c, sfx);
   delete mp;
}

int main(int argc, char** argv) {
   vh::Args a(argc, argv);
   vh::Out o(a); out = &o;
   gen::CerrCapture cap;
   for (long i = a.first(); i < a.last(); ++i) {
      o.cur = i;
      vh::Rng r(a.seed, a.worker, i);
      ++o.evaluations;
      if (i % 3 == 2) case_thdm(r); else case_mssm(r);
      if (i < 2) { J s; s.str("kind", i % 3 == 2 ? "THDM" : "MSSM"); o.sample(s); }
   }
   o.finish();
   return 0;
}
