// C07: MSSM contributions decouple like 1/M_SUSY^2 under a common rescaling of all dimensionful SUSY parameters.
#include "gen.hpp"
#include "gm2calc/gm2_1loop.hpp"
#include "gm2calc/gm2_2loop.hpp"
#include "gm2calc/gm2_uncertainty.hpp"
#include "MSSMNoFV/gm2_1loop_helpers.hpp"
#include "MSSMNoFV/gm2_2loop_helpers.hpp"
#include "gm2_ffunctions.hpp"

using namespace gm2calc;
using vh::J;
static vh::Out* out;
static const int NK = 7;   // k = 1, 2, 4, ..., 64

static double S1of(const MSSMNoFV_onshell& m) {
   const auto aan = AAN(m), bbn = BBN(m); const auto aac = AAC(m), bbc = BBC(m); const auto x = x_im(m); const auto xk = x_k(m);
   const double mm = m.get_MM(); double s = 0;
   for (int i = 0; i < 4; ++i) for (int k = 0; k < 2; ++k) { const double ms2 = m.get_MSm(k) * m.get_MSm(k); s += std::fabs(aan(i, k) * F1N(x(i, k)) / (12 * ms2)) + std::fabs(m.get_MChi(i) * bbn(i, k) * F2N(x(i, k)) / (6 * mm * ms2)); }
   const double msv2 = m.get_MSvmL() * m.get_MSvmL();
   for (int k = 0; k < 2; ++k) s += (std::fabs(aac(k) * F1C(xk(k)) / 12) + std::fabs(m.get_MCha(k) * bbc(k) * F2C(xk(k)) / (3 * mm))) / msv2;
   return s * mm * mm / (16 * M_PI * M_PI);
}

int main(int argc, char** argv) {
   vh::Args a(argc, argv);
   vh::Out o(a); out = &o;
   // frozen constants (lib/thresholds.py documents the calibration); overridable for calibration runs
   const double C1 = a.getd("c1", 1.5), CT = a.getd("ct", 0.5), CF = a.getd("cf", 10.0), C2 = a.getd("c2", 100.0), CP = a.getd("cp", 1.5), CA = a.getd("ca", 100.0), ENV = a.getd("env", 30.0);
   const double MZ = 91.1876;
   gen::CerrCapture cap;
   for (long i = a.first(); i < a.last(); ++i) {
      o.cur = i;
      vh::Rng r(a.seed, a.worker, i);
      ++o.evaluations;
      gen::MssmPoint p = gen::rand_mssm(r, 300, r.chance(0.5) ? 1500 : 3000, 1.5, 80);
      for (int g = 0; g < 3; ++g) p.Ae[g] = r.U(-1, 1) * 300;
      // exact ties of the base point (benchmark shapes: 'all SUSY masses equal M_SUSY', bino = smuons, wino = higgsino): the arguments of the loop functions then
      // differ only by the electroweak terms and run into the degenerate branches as k grows
      bool tied = false;
      { const int tie = r.range(12); const double M = std::fabs(p.m1); tied = tie < 5;
        auto sg = [](double x) { return x < 0 ? -1.0 : 1.0; };
        if (tie == 0) { p.mu = sg(p.mu) * M; p.m2 = sg(p.m2) * M; p.m3 = sg(p.m3) * M; p.ma = M; p.Q = M; for (int g = 0; g < 3; ++g) { p.ml[g] = M; p.me[g] = M; p.mq[g] = M; p.mU[g] = M; p.mD[g] = M; } }
        else if (tie == 1) { p.ml[1] = M; p.me[1] = M; }
        else if (tie == 2) { p.m2 = sg(p.m2) * std::fabs(p.mu); }
        else if (tie == 3) { p.ml[1] = p.me[1]; p.ml[2] = p.me[2]; }
        else if (tie == 4) { p.mu = sg(p.mu) * M; p.m2 = sg(p.m2) * M; p.ml[1] = M; }
        if (tie < 5) o.count("base points with exact ties of mass parameters"); }
      J c = p.json();
      double mmin = std::min({std::fabs(p.mu), std::fabs(p.m1), std::fabs(p.m2), std::fabs(p.m3), p.ma});   // lightest SUSY mass parameter of the base point
      for (int g = 0; g < 3; ++g) mmin = std::min({mmin, p.ml[g], p.me[g], p.mq[g], p.mU[g], p.mD[g]});
      double a1[NK], a2[NK], af[NK], aph[NK], a2a[NK], t[NK], u[NK], s1[NK], s2[NK];
      bool ok = true;
      // how the family of scaled models is produced: fresh objects, one object rescaled in place through the setters, or copies of the initialised base point rescaled
      const int mode = static_cast<int>(i % 3);
      static const char* const MODE[3] = {"fresh-objects", "rescaled-in-place", "rescaled-copies-of-base"};
      c.str("family", MODE[mode]);
      try {
         MSSMNoFV_onshell base = gen::make_mssm(p, 1), running = base;
         for (int j = 0; j < NK && ok; ++j) {
            const double k = std::ldexp(1.0, j);
            MSSMNoFV_onshell m = mode == 0 ? gen::make_mssm(p, k) : (mode == 1 ? running : base);
            if (mode != 0) { gen::fill_mssm(m, p, k); m.calculate_masses(); if (mode == 1) running = m; }
            if (m.get_problems().have_problem()) { ok = false; break; }
            a1[j] = calculate_amu_1loop(m); a2[j] = calculate_amu_2loop(m); af[j] = amu2LFSfapprox(m); aph[j] = amu2LChi0Photonic(m) + amu2LChipmPhotonic(m);
            a2a[j] = amu2LaSferm(m) + amu2LaCha(m); t[j] = tan_beta_cor(m); u[j] = calculate_uncertainty_amu_2loop(m); s1[j] = S1of(m);
            s2[j] = (std::fabs(af[j]) + std::fabs(amu2LChi0Photonic(m)) + std::fabs(amu2LChipmPhotonic(m)) + std::fabs(amu2LaSferm(m)) + std::fabs(amu2LaCha(m))) * k * k;
         }
      } catch (const Error&) { ok = false; }
      if (!ok) { ++o.inconclusive; o.count("base-point-rejected"); continue; }
      ++o.conclusive;
      auto judge = [&](const std::string& name, int j, double stat, double limit, const std::string& what) {
         J w = c; w.str("clause", name).i("k", 1 << j).d("statistic", stat).d("limit", limit).arr("a1L", a1, a1 + NK).arr("a2L", a2, a2 + NK).arr("tan_beta_cor", t, t + NK).arr("delta2L", u, u + NK);
         o.cell(name + "|k" + std::to_string(1 << j) + "|" + MODE[mode] + (tied ? "|ties" : ""), stat / limit, &w);
         if (!(stat <= limit)) o.fail("C07:" + name, what + " at k=" + std::to_string(1 << j) + ": " + vh::num(stat) + " > " + vh::num(limit), w);
      };
      for (int j = 0; j + 1 < NK; ++j) {
         const double k = std::ldexp(1.0, j), eps2 = std::pow(MZ / (k * mmin), 2);
         // one loop: 4 a(2k) = a(k) up to (MZ/M)^2 of the sum of absolute terms
         judge("1L-scaling", j, std::fabs(4 * a1[j + 1] - a1[j]) / s1[j], C1 * eps2 + 1e-12, "|4 a1L(2k) - a1L(k)| / sum|terms|");
         judge("tan_beta_cor-fixed", j, std::fabs(t[j + 1] - t[j]), CT * eps2 + 1e-13, "|tan_beta_cor(2k) - tan_beta_cor(k)|");
         // fermion/sfermion two-loop part has no k-dependent logarithm
         judge("2L-fsf-scaling", j, std::fabs(4 * af[j + 1] - af[j]) / (0.05 * s1[j]), CF * eps2 + 1e-10, "|4 a2L,fsf(2k) - a2L,fsf(k)| / (0.05 sum|1L terms|)");
         // uncertainty: never below the floor; excess bounded by a 1/k^2 envelope
         judge("delta2L-floor", j, u[j] >= 2.3e-10 ? 0 : 1, 0, "two-loop uncertainty below 2.3e-10");
         if (j >= 1) {
            double env = 0; for (int q = 0; q < j; ++q) env = std::max(env, (u[q] - 2.3e-10) * std::ldexp(1.0, 2 * q));
            judge("delta2L-excess-envelope", j, (u[j] - 2.3e-10) * k * k, ENV * env + 1e-22, "excess of the two-loop uncertainty over its floor, times k^2");
         }
         // literal band of the quantifier: reported always, enforced where meaningful (no sign change, not near a zero of A + B ln k)
         {
            const double ratio = a2[j + 1] / a2[j];
            // meaningful = no strong cancellation between the parts: then the logarithmic drift per step (<~ 0.1 S2) cannot move the ratio out of the band
            const bool meaningful = ratio > 0 && std::fabs(a2[j]) * k * k >= 0.5 * s2[j] && std::fabs(a2[j + 1]) * 4 * k * k >= 0.5 * s2[j + 1] && j >= 1;
            o.count(std::string("2L-literal-band:") + ((ratio >= 0.2 && ratio <= 0.35) ? "inside" : "outside") + (meaningful ? "(enforced)" : "(reported)"));
            // not enforced: correct code leaves the band even without cancellation between the parts (15 of 90 798 such steps, ratios 0.19 .. 0.38)
            { J w = c; w.d("ratio", ratio).i("k", 1 << j); o.cell(std::string("2L-literal-band(reported)|") + (meaningful ? "no-cancellation" : "cancelling-parts") + "|k" + std::to_string(1 << j), std::max({0.2 - ratio, ratio - 0.35, 0.0}), &w); }
            const double r1 = a1[j + 1] / a1[j];
            o.count(std::string("1L-literal-ratio:") + (std::fabs(r1 - 0.25) <= 2 * eps2 ? "within-2eps2" : "outside(zero-crossing)"));
         }
      }
      // two-loop total, photonic and 2L(a) parts: D_j = k_j^2 a(k_j) is affine in j up to EW-breaking corrections (enforced from k >= 4)
      for (int j = 1; j + 1 < NK; ++j) {
         const double km = std::ldexp(1.0, j - 1), eps2 = std::pow(MZ / (km * mmin), 2);
         const double S2 = std::max({s2[j - 1], s2[j], s2[j + 1]});
         auto dd = [&](const double* x) { return std::fabs(x[j + 1] * std::ldexp(1.0, 2 * (j + 1)) - 2 * x[j] * std::ldexp(1.0, 2 * j) + x[j - 1] * std::ldexp(1.0, 2 * (j - 1))) / S2; };
         // exactly tied left/right soft masses: the sfermion mixing angle is 45 degrees for every k (instead of falling like 1/k), and the corrections to the
         // Barr-Zee sfermion terms are still of second order (the statistic falls by 4 per doubling of k) but with a coefficient up to 1.6 times the limit
         // calibrated on generic points (158 eps2 at tan(beta) = 62, all soft masses equal; 1.5e5 tied families): the constant of the tied regime is 5 times larger
         const double tf = tied ? 5 : 1;
         if (km >= 4) {
            judge("2L-total-affine-in-ln-k", j, dd(a2), tf * C2 * eps2 + 1e-9, "second difference of k^2 a2L / S2");
            judge("2L-photonic-affine-in-ln-k", j, dd(aph), CP * eps2 + 1e-9, "second difference of k^2 a2L,photonic / S2");
            judge("2L(a)-affine-in-ln-k", j, dd(a2a), tf * CA * eps2 + 1e-9, "second difference of k^2 a2L(a) / S2");
         } else { J w = c; o.cell("2L-total-second-difference(reported)|k" + std::to_string(1 << (j - 1)), dd(a2) / (C2 * eps2), &w); }
      }
      o.sample(c, 2);
   }
   o.finish();
   return 0;
}
