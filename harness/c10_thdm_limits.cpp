// C10: THDM contributions vanish in the SM limit (exact cancellation of the light-Higgs terms) and decouple with the heavy scale.
#include "gen.hpp"
#include "gm2calc/gm2_1loop.hpp"
#include "gm2calc/gm2_2loop.hpp"
#include "thdm_terms.hpp"

using namespace gm2calc;
using vh::J;
static vh::Out* out;

static void judge(const std::string& name, const std::string& cell, double stat, double limit, const J& c, const std::string& what) {
   J w = c; w.str("clause", name).d("statistic", stat).d("limit", limit);
   out->cell(name + "|" + cell, limit > 0 ? stat / limit : stat, &w);
   if (!(stat <= limit)) out->fail("C10:" + name, what + ": " + vh::num(stat) + " > " + vh::num(limit), w);
}

// oracle 1: cos(beta-alpha) = 0, mh = m_hSM = m, running off => a1L and fermionic a2L do not depend on m
static void sm_limit(vh::Rng& r) {
   thdm::Mass_basis b = gen::rand_mass_basis(r);
   b.sin_beta_minus_alpha = r.sign();
   b.mH = r.LU(200, 1e4); b.mA = r.LU(10, 1e4); b.mHp = r.LU(10, 1e4);
   if (r.chance(0.3)) { b.zeta_u = r.U(-50, 50); b.zeta_d = r.U(-50, 50); b.zeta_l = r.U(-50, 50); }
   thdm::Config cfg; cfg.running_couplings = false;
   const double m1 = r.U(10, 190), m2 = r.U(10, 190);
   J c = gen::json(b); c.d("m1", m1).d("m2", m2);
   const std::string ty = "type" + std::to_string(static_cast<int>(b.yukawa_type)) + (b.sin_beta_minus_alpha > 0 ? "|sba=+1" : "|sba=-1");
   try {
      double a1[2], aF[2], t1 = 0, tF = 0, s1 = 0, sF = 0;
      double h1[2], hF[2], ht1 = 0, htF = 0;
      const double ms[2] = {m1, m2};
      for (int k = 0; k < 2; ++k) {
         thdm::Mass_basis bb = b; bb.mh = ms[k];
         // "m_h equal to the SM Higgs mass": the SM mass is set to the light-Higgs mass the model reports (the model recomputes it from
         // lambda_i, which reproduces the input only up to the conditioning measured in C08)
         THDM m0(bb, SM(), cfg);
         SM sm; sm.set_mh(m0.get_Mhh(0));
         THDM m(bb, sm, cfg);
         a1[k] = calculate_amu_1loop(m); aF[k] = calculate_amu_2loop_fermionic(m);
         if (k == 0) {   // size of the light-Higgs term itself: same model, SM Higgs mass tripled
            SM sm3; sm3.set_mh(3 * m0.get_Mhh(0)); THDM m3(bb, sm3, cfg);
            t1 = std::fabs(calculate_amu_1loop(m3) - a1[0]); tF = std::fabs(calculate_amu_2loop_fermionic(m3) - aF[0]);
            s1 = tt::oneloop_terms(tt::fill_1L(m)).sabs; tt::Sum n, ch; tt::fermionic_terms(tt::fill_F(m), n, ch); sF = n.sabs + ch.sabs;
            // (i) the subtraction mechanism observed at the helper boundary: same parameter set, only mh(0) = m_hSM changed,
            //     so that the heavy-Higgs terms are bit-identical and cannot add noise
            thdm::THDM_1L_parameters p1 = tt::fill_1L(m); thdm::THDM_F_parameters pF = tt::fill_F(m);
            for (int q = 0; q < 2; ++q) {
               p1.mh(0) = ms[q]; p1.mhSM = ms[q]; pF.mh(0) = ms[q]; pF.mhSM = ms[q];
               // each judged evaluation is preceded by one that differs from it in exactly one group of inputs (fermion masses, couplings, gauge-boson masses):
               // the subtracted SM-Higgs terms must be those of the current parameter set
               { thdm::THDM_F_parameters pp = pF; thdm::THDM_1L_parameters p2 = p1; const int what = static_cast<int>((out->cur + q) % 4);
                 if (what == 0) { pp.mu *= 1.03; pp.md *= 0.97; pp.ml *= 1.01; p2.ml *= 1.01; } else if (what == 1) { pp.alpha_em *= 1.01; pp.mm *= 1.01; p2.alpha_em *= 1.01; p2.mm *= 1.01; }
                 else if (what == 2) { pp.mw *= 0.99; pp.mz *= 1.01; p2.mw *= 0.99; p2.mz *= 1.01; } else { pp.yuh *= 1.1; pp.ydh *= 0.9; pp.ylh *= 1.05; p2.ylh *= 1.05; }
                 (void)thdm::amu2L_F(pp); (void)thdm::amu1L(p2); }
               h1[q] = thdm::amu1L(p1); hF[q] = thdm::amu2L_F(pF);
            }
            p1.mh(0) = ms[0]; p1.mhSM = 3 * ms[0]; pF.mh(0) = ms[0]; pF.mhSM = 3 * ms[0];
            ht1 = std::fabs(thdm::amu1L(p1) - h1[0]); htF = std::fabs(thdm::amu2L_F(pF) - hF[0]);
         }
      }
      ++out->conclusive;
      c.arr("a1L", a1, a1 + 2).arr("a2LF", aF, aF + 2).d("T_h_1L", t1).d("T_h_F", tF).arr("helper_a1L", h1, h1 + 2).arr("helper_a2LF", hF, hF + 2);
      judge("SM-limit:1L-exact-cancellation(helper-level)", ty, std::fabs(h1[0] - h1[1]) / std::max({std::fabs(h1[0]), std::fabs(h1[1]), ht1, 1e-300}), 1e-9, c, "amu1L depends on the common value of mh = m_hSM with all other parameters bit-identical");
      judge("SM-limit:2LF-exact-cancellation(helper-level)", ty, std::fabs(hF[0] - hF[1]) / std::max({std::fabs(hF[0]), std::fabs(hF[1]), htF, 1e-300}), 1e-9, c, "amu2L_F depends on the common value of mh = m_hSM with all other parameters bit-identical");
      // (ii) model level: the heavy masses are recomputed from lambda_i(mh) and change in their last bits, to which the other terms respond
      //      (one-loop: ~ eps x conditioning; Barr-Zee functions: up to 3e-7 of the term sum, see C09) - allowed as noise on the term sums
      const double mmin2 = std::pow(std::min({b.mA, b.mHp, b.mH}), 2), tbc = b.tan_beta + 1 / b.tan_beta;
      const double Sm = std::pow(std::max({b.mH, b.mA, b.mHp}), 2) + std::fabs(b.m122) * tbc + 246.0 * 246.0 * (std::fabs(b.lambda_6) + std::fabs(b.lambda_7)) * tbc;
      const double noise1 = 1e-15 * Sm / mmin2;   // relative change of the reconstructed heavy masses
      if (noise1 > 1e-10) out->count("SM-limit:model-level-ill-conditioned(skipped)");
      else {
         judge("SM-limit:1L-independent-of-common-higgs-mass", ty, std::fabs(a1[0] - a1[1]), 1e-9 * std::max({std::fabs(a1[0]), std::fabs(a1[1]), t1}) + 10 * noise1 * s1, c, "a1L depends on the common value of mh = m_hSM");
         judge("SM-limit:2LF-independent-of-common-higgs-mass", ty, std::fabs(aF[0] - aF[1]), 1e-9 * std::max({std::fabs(aF[0]), std::fabs(aF[1]), tF}) + 1e-5 * sF, c, "fermionic a2L depends on the common value of mh = m_hSM");
      }
      // the light-Higgs term must be there to cancel (otherwise the test is vacuous)
      if (!(ht1 > 0 && htF > 0)) out->count("SM-limit:light-higgs-term-zero");
      out->sample(c, 1);
   } catch (const Error&) { ++out->inconclusive; out->count("sm-limit-point-rejected"); }
}

// The bosonic two-loop part has known singular configurations (findings of C11: Kaellen(mS^2, mH+^2, MW^2) = 0, mH+ = MW, mh = 2 MW - the light Higgs mass
// of a decoupling family is the same for every M, so a family that lands on mh = 2 MW stays there).  A spike there is C11's finding, not a failure to decouple:
// such families are not judged for 2LB (neighbourhoods of 3e-3 MW; the count of skipped families is reported).
static bool near_known_bosonic_singularity(const THDM& m) {
   const double MW = m.get_sm().get_mw(), eps = 3e-3, mHp = m.get_MHm(1);
   const double S[3] = {m.get_Mhh(0), m.get_Mhh(1), m.get_MAh(1)};
   for (int i = 0; i < 3; ++i) {
      if (std::fabs(std::fabs(S[i] - mHp) - MW) < eps * MW || std::fabs(S[i] + mHp - MW) < eps * MW) return true;   // on the scale of MW: heavy states are split by O(MW)
   }
   return std::fabs(mHp - MW) < eps * MW || std::fabs(S[0] - 2 * MW) < eps * 2 * MW;
}

// family evaluation shared by the generic (oracle 2) and the exactly aligned (oracle 3) families: make(M) returns the model at heavy scale M
template <class Make>
static void judge_family(Make make, const std::string& prefix, const std::string& ty, const J& c, const double lim[3], const double* klim = nullptr) {
   const double MZ = 91.1876;
   const int NP = 5;
   double K[3][2][NP]; double aM2[3][2][NP]; bool touches_singular = false;
   // the property's sqrt(10) grid, for the literal-ratio statistic
   double grid[3][4];
   try {
      for (int band = 0; band < 2; ++band) for (int j = 0; j < NP; ++j) {
         const double M = (band == 0 ? 1000.0 : 10000.0) * std::pow(10.0, 0.5 * j / (NP - 1));
         THDM m = make(M);
         const double a[3] = {calculate_amu_1loop(m), calculate_amu_2loop_fermionic(m), calculate_amu_2loop_bosonic(m)};
         touches_singular = touches_singular || near_known_bosonic_singularity(m);
         const double L = std::log(M / MZ);
         for (int q = 0; q < 3; ++q) { aM2[q][band][j] = a[q] * M * M; K[q][band][j] = std::fabs(a[q]) * M * M / (1 + L * L); }
      }
      for (int j = 0; j < 4; ++j) {
         const double M = 1000.0 * std::pow(10.0, 0.5 * j);
         THDM m = make(M);
         grid[0][j] = calculate_amu_1loop(m); grid[1][j] = calculate_amu_2loop_fermionic(m); grid[2][j] = calculate_amu_2loop_bosonic(m);
      }
   } catch (const Error&) { ++out->inconclusive; out->count(prefix + "-family-rejected"); return; }
   ++out->conclusive;
   const char* nm[3] = {"1L", "2LF", "2LB"};
   for (int q = 0; q < 3; ++q) {
      double lo = 0, hi = 0; bool fin = true;
      for (int j = 0; j < NP; ++j) { lo = std::max(lo, K[q][0][j]); hi = std::max(hi, K[q][1][j]); fin = fin && std::isfinite(K[q][0][j]) && std::isfinite(K[q][1][j]); }
      J w = c; w.arr("aM2_low_band", aM2[q][0], aM2[q][0] + NP).arr("aM2_high_band", aM2[q][1], aM2[q][1] + NP);
      if (!fin) { out->fail("C10:" + prefix + ":" + nm[q] + ":nonfinite", "non-finite contribution along the decoupling family", w); continue; }
      if (lo == 0) { out->count(prefix + ":" + nm[q] + ":vanishes-in-low-band"); continue; }
      if (q == 2 && touches_singular) { out->count(prefix + ":2LB: family touches a known singular configuration of the bosonic part (C11 findings): not judged"); continue; }
      judge(prefix + ":" + nm[q] + ":band-maxima-ratio", ty, hi / lo, lim[q], w, std::string(nm[q]) + ": max_high K / max_low K with K = |a| M^2/(1+ln^2(M/MZ))");
      if (klim && klim[q] > 0) judge(prefix + ":" + nm[q] + ":K-high-band", ty, hi, klim[q], w, std::string(nm[q]) + ": max over M in [10, 31.6] TeV of |a| M^2/(1+ln^2(M/MZ)) [GeV^2]");
      for (int j = 0; j < 3; ++j) {
         const double ratio = std::fabs(grid[q][j + 1]) / std::fabs(grid[q][j]);
         out->count("literal-step-ratio:" + prefix + ":" + nm[q] + (ratio <= 0.45 ? ":<=0.45" : ":>0.45(reported)"));
      }
   }
   out->sample(c, 1);
}

static void general_Pi(thdm::Gauge_basis& g) {   // Pi_f of the size of an aligned model
   const double cb = 1 / std::sqrt(1 + g.tan_beta * g.tan_beta); SM s0; const double v = s0.get_v();
   g.Pi_u = cb * std::sqrt(2.0) / v * (g.zeta_u + g.tan_beta) * Eigen::Matrix<double, 3, 3>(s0.get_mu().asDiagonal());
   g.Pi_d = cb * std::sqrt(2.0) / v * (g.zeta_d + g.tan_beta) * Eigen::Matrix<double, 3, 3>(s0.get_md().asDiagonal());
   g.Pi_l = cb * std::sqrt(2.0) / v * (g.zeta_l + g.tan_beta) * Eigen::Matrix<double, 3, 3>(s0.get_ml().asDiagonal());
}

// oracle 2: gauge basis, fixed quartic couplings, heavy scale M raised: K(M) = |a| M^2/(1 + ln^2(M/MZ)) stays bounded
static void decoupling(vh::Rng& r, double T1, double TF, double TB) {
   thdm::Gauge_basis g; g.yukawa_type = static_cast<thdm::Yukawa_type>(1 + r.range(6));
   for (int i = 0; i < 7; ++i) g.lambda(i) = r.U(-2, 2);
   g.lambda(0) = r.U(0.02, 2); g.lambda(1) = r.U(0.02, 2);
   g.tan_beta = r.LU(0.3, 50);
   g.zeta_u = r.U(-2, 2); g.zeta_d = r.U(-2, 2); g.zeta_l = r.U(-2, 2);
   if (g.yukawa_type == thdm::Yukawa_type::general) general_Pi(g);
   thdm::Config cfg; cfg.running_couplings = false;
   const double tb = g.tan_beta, sbcb = tb / (1 + tb * tb);
   const double lim[3] = {T1, TF, TB};
   judge_family([&](double M) { g.m122 = M * M * sbcb; THDM m0(g, SM(), cfg); SM sm; sm.set_mh(m0.get_Mhh(0));   // light-Higgs sector = the SM's
                                return THDM(g, sm, cfg); },
                "decoupling", "type" + std::to_string(static_cast<int>(g.yukawa_type)), gen::json(g), lim);
}

// oracle 3: the property's own setting - cos(beta-alpha) = 0 exactly AND the heavy masses raised at fixed quartic couplings.  Two constructions:
//   gauge basis with lambda_1 = lambda_2 = lambda_345 and lambda_6 = lambda_7 = 0 (alignment without decoupling for every tan(beta)),
//   mass basis with sin(beta-alpha) = +-1 and mX^2 = M^2 + c_X v^2 (c_X small enough for |lambda_i| <= 2), lambda_6,7 free.
static void aligned_decoupling(vh::Rng& r, const double lim[3], const double klg[3], const double klm[3]) {
   thdm::Config cfg; cfg.running_couplings = false;
   const thdm::Yukawa_type yt = static_cast<thdm::Yukawa_type>(1 + r.range(6));
   const double tb = r.LU(0.3, 50), sbcb = tb / (1 + tb * tb);
   const std::string ty = "type" + std::to_string(static_cast<int>(yt));
   if (r.chance(0.5)) {
      thdm::Gauge_basis g; g.yukawa_type = yt; g.tan_beta = tb;
      const double L = r.U(0.02, 2); double l4, l5, l3; int tries = 0;
      do { l4 = r.U(-2, 2); l5 = r.U(-2, 2); l3 = L - l4 - l5; } while (std::fabs(l3) > 2 && ++tries < 100);
      if (std::fabs(l3) > 2) { l4 = 0; l5 = 0; l3 = L; }
      g.lambda << L, L, l3, l4, l5, 0, 0;
      g.zeta_u = r.U(-2, 2); g.zeta_d = r.U(-2, 2); g.zeta_l = r.U(-2, 2);
      if (yt == thdm::Yukawa_type::general) general_Pi(g);
      judge_family([&](double M) { g.m122 = M * M * sbcb; THDM m0(g, SM(), cfg); SM sm; sm.set_mh(m0.get_Mhh(0)); return THDM(g, sm, cfg); },
                   "aligned-decoupling(gauge)", ty, gen::json(g), lim, klg);
   } else {
      thdm::Mass_basis b = gen::rand_mass_basis(r); b.yukawa_type = yt; b.tan_beta = tb;
      b.sin_beta_minus_alpha = r.sign(); b.mh = r.U(20, 300);
      const double v2 = 246.22 * 246.22, small = std::min(tb * tb, 1 / (tb * tb));
      const double cH = r.U(-1, 1) * small, cA = r.U(-1, 1), cP = r.U(-1, 1);
      b.lambda_6 = r.chance(0.3) ? 0 : r.U(-2, 2) * std::min(1.0, 1 / (tb * tb * tb)); b.lambda_7 = r.chance(0.3) ? 0 : r.U(-2, 2) * std::min(1.0, tb * tb * tb);
      judge_family([&](double M) { b.m122 = M * M * sbcb; b.mH = std::sqrt(M * M + cH * v2); b.mA = std::sqrt(M * M + cA * v2); b.mHp = std::sqrt(M * M + cP * v2);
                                   THDM m0(b, SM(), cfg); SM sm; sm.set_mh(m0.get_Mhh(0)); return THDM(b, sm, cfg); },
                   "aligned-decoupling(mass)", ty + (b.sin_beta_minus_alpha > 0 ? "|sba=+1" : "|sba=-1"), gen::json(b), lim, klm);
   }
}

int main(int argc, char** argv) {
   vh::Args a(argc, argv);
   vh::Out o(a); out = &o;
   const double T1 = a.getd("t1", 10.0), TF = a.getd("tf", 70.0), TB = a.getd("tb", 2000.0);
   const double AL[3] = {a.getd("a1", 3.0), a.getd("af", 6.0), TB};   // exactly aligned families: observed maxima 0.78 / 2.0 over 5e5 families (saturating)
   // bosonic part of exactly aligned families: the band ratio is blind to a remainder that does not fall with M (a constant gives ~33, zero crossings in the
   // low band give up to ~100 on correct code), its size in the high band is not: observed maxima 9.9e-8 (gauge construction) and 1.5e-4 GeV^2 (mass
   // construction, lambda_7 and tan(beta)-enhanced lepton couplings), the same in every Yukawa type (bounded parameters => bounded K); limits 10x above
   const double KLG[3] = {0, 0, a.getd("kbg", 1e-6)}, KLM[3] = {0, 0, a.getd("kbm", 2e-3)};
   gen::CerrCapture cap;
   for (long i = a.first(); i < a.last(); ++i) {
      o.cur = i;
      vh::Rng r(a.seed, a.worker, i);
      ++o.evaluations;
      if (i % 2 == 0) sm_limit(r); else if (i % 4 == 1) decoupling(r, T1, TF, TB); else aligned_decoupling(r, AL, KLG, KLM);
   }
   o.finish();
   return 0;
}
