// C18: uncertainty estimates are finite, non-negative, floored and composed as documented.
#include "gen.hpp"
#include "gm2calc/gm2_1loop.hpp"
#include "gm2calc/gm2_2loop.hpp"
#include "gm2calc/gm2_uncertainty.hpp"
#include "gm2_uncertainty_helpers.hpp"
extern "C" {
#include "gm2calc/gm2_uncertainty.h"
#include "gm2_uncertainty_helpers.h"
}

using namespace gm2calc;
using vh::J;

static bool fin(double x) { return std::isfinite(x); }
static double rel(double a, double b) { return std::fabs(a - b) / std::max({std::fabs(a), std::fabs(b), 1e-300}); }

int main(int argc, char** argv) {
   vh::Args a(argc, argv);
   vh::Out o(a);
   gen::CerrCapture cap;
   for (long i = a.first(); i < a.last(); ++i) {
      o.cur = i;
      vh::Rng r(a.seed, a.worker, i);
      ++o.evaluations;
      if (i % 2 == 0) {
         // ---------------- MSSM
         const bool lightspec = r.chance(0.3);
         gen::MssmPoint p = gen::rand_mssm(r, lightspec ? 100 : 100, lightspec ? 500 : 5000, 1.5, 80);
         J c = p.json(); c.str("model", "MSSM");
         try {
            gm2calc::MSSMNoFV_onshell m = gen::make_mssm(p);
            const double a1 = calculate_amu_1loop(m), a2 = calculate_amu_2loop(m);
            if (!fin(a1) || !fin(a2)) { ++o.inconclusive; o.count("mssm-nonfinite-amu"); continue; }
            const double u0 = calculate_uncertainty_amu_0loop(m), u1 = calculate_uncertainty_amu_1loop(m), u2 = calculate_uncertainty_amu_2loop(m);
            c.d("a1L", a1).d("a2L", a2).d("u0", u0).d("u1", u1).d("u2", u2);
            ++o.conclusive;
            const std::string cell = std::string("MSSM|tb") + vh::decade(p.tb) + "|sgn" + (p.mu > 0 ? "+" : "-") + (p.m1 > 0 ? "+" : "-") + (p.m2 > 0 ? "+" : "-") +
               "|a1a2" + ((a1 > 0) == (a2 > 0) ? "same" : "opposite");
            const double cha = amu2LaCha(m), sf = amu2LaSferm(m);
            const double u2ref = 2.3e-10 + 0.3 * (std::fabs(cha) + std::fabs(sf));
            o.cell(cell, rel(u2, u2ref), &c);
            if (!(fin(u0) && fin(u1) && fin(u2))) o.fail("C18:MSSM:nonfinite", "uncertainty not finite for finite a_mu", c);
            else {
               if (!(u0 >= 0 && u1 >= 0 && u2 >= 0)) o.fail("C18:MSSM:negative", "negative uncertainty", c);
               if (!(u2 >= 2.3e-10)) o.fail("C18:MSSM:floor", "2L uncertainty below 2.3e-10", c);
               if (!vh::same_bits(u1, std::fabs(a2) + u2)) o.fail("C18:MSSM:u1-composition", "u1 != |a2L| + u2", c);
               if (!vh::same_bits(u0, std::fabs(a1))) o.fail("C18:MSSM:u0-composition", "u0 != |a1L|", c);
               if (!(rel(u2, u2ref) <= 1e-14)) o.fail("C18:MSSM:u2-formula", "u2 != 2.3e-10 + 0.3(|2L(a)cha|+|2L(a)sferm|)", c);
               // overloads with precomputed a_mu
               if (!vh::same_bits(calculate_uncertainty_amu_0loop(m, a1), u0)) o.fail("C18:MSSM:overload0", "0-loop overload disagrees", c);
               if (!vh::same_bits(calculate_uncertainty_amu_1loop(m, a2), u1)) o.fail("C18:MSSM:overload1", "1-loop overload disagrees", c);
               // the overload must use its argument
               const double x = r.U(-1, 1) * 1e-8;
               if (!vh::same_bits(calculate_uncertainty_amu_0loop(m, x), std::fabs(x))) o.fail("C18:MSSM:overload0-arg", "0-loop overload ignores its argument", c);
               if (!vh::same_bits(calculate_uncertainty_amu_1loop(m, x), std::fabs(x) + u2)) o.fail("C18:MSSM:overload1-arg", "1-loop overload ignores its argument", c);
               // the same relations through the C entry points (public functions and the helpers of gm2_uncertainty_helpers.h that the Mathematica interface uses)
               { const ::MSSMNoFV_onshell* h = reinterpret_cast<const ::MSSMNoFV_onshell*>(&m);
                 if (!vh::same_bits(gm2calc_mssmnofv_calculate_uncertainty_amu_0loop(h), u0) || !vh::same_bits(gm2calc_mssmnofv_calculate_uncertainty_amu_1loop(h), u1) || !vh::same_bits(gm2calc_mssmnofv_calculate_uncertainty_amu_2loop(h), u2))
                    o.fail("C18:MSSM:C-entry-points", "the C functions gm2calc_mssmnofv_calculate_uncertainty_amu_{0,1,2}loop differ from the C++ functions", c);
                 if (!vh::same_bits(gm2calc_mssmnofv_calculate_uncertainty_amu_0loop_amu1L(h, x), std::fabs(x)) || !vh::same_bits(gm2calc_mssmnofv_calculate_uncertainty_amu_0loop_amu1L(h, a1), u0))
                    o.fail("C18:MSSM:C-helper0", "gm2calc_mssmnofv_calculate_uncertainty_amu_0loop_amu1L != |a1L|", c);
                 if (!vh::same_bits(gm2calc_mssmnofv_calculate_uncertainty_amu_1loop_amu2L(h, x), std::fabs(x) + u2) || !vh::same_bits(gm2calc_mssmnofv_calculate_uncertainty_amu_1loop_amu2L(h, a2), u1))
                    o.fail("C18:MSSM:C-helper1", "gm2calc_mssmnofv_calculate_uncertainty_amu_1loop_amu2L != |a2L| + delta(2L)", c); }
            }
            o.sample(c, 2);
         } catch (const Error&) { ++o.inconclusive; o.count("mssm-rejected"); }
      } else {
         // ---------------- THDM, including heavy masses near the muon mass (force-output)
         const bool light = r.chance(0.25);
         gen::ThdmOpts op; if (light) { op.mlo = 0.05; op.mhi = 10; }
         thdm::Mass_basis b = gen::rand_mass_basis(r, op);
         if (light) { b.m122 = r.U(-1, 1) * 10; if (r.chance(0.2)) { double* ms[3] = {&b.mH, &b.mA, &b.mHp}; *ms[r.range(3)] = 0.1056583715 * (1 + r.sign() * r.LU(1e-15, 1e-2)); if (b.mh > b.mH) b.mh = b.mH * r.u01(); } }
         else if (r.chance(0.5)) { b.mh = r.LU(10, 300); b.mH = r.LU(b.mh, 1e4); }
         // exactly degenerate heavy states (custodial mA = mH+, mH = mA, all three): the lightest new state is then not unique
         std::string degen;
         if (r.chance(0.2)) { const int k = r.range(5);
            if (k == 0) { b.mHp = b.mA; degen = "|mA=mHp"; } else if (k == 1) { b.mA = b.mH; degen = "|mH=mA"; } else if (k == 2) { b.mHp = b.mH; degen = "|mH=mHp"; } else if (k == 3) { b.mA = b.mHp = b.mH; degen = "|mH=mA=mHp"; }
            else { b.mHp = b.mA; if (b.mH < b.mA) std::swap(b.mH, b.mA), b.mHp = b.mA; if (b.mh > b.mH) b.mh = 0.5 * b.mH; degen = "|mA=mHp<mH"; } }
         thdm::Config cfg; cfg.running_couplings = r.chance(0.5); cfg.force_output = light;
         J c = gen::json(b); c.str("model", "THDM").i("running", cfg.running_couplings).i("force", cfg.force_output);
         try {
            THDM m(b, gen::rand_sm(r), cfg);
            const double a1 = calculate_amu_1loop(m), a2 = calculate_amu_2loop(m);
            if (!fin(a1) || !fin(a2)) { ++o.inconclusive; o.count("thdm-nonfinite-amu"); continue; }
            const double u0 = calculate_uncertainty_amu_0loop(m), u1 = calculate_uncertainty_amu_1loop(m), u2 = calculate_uncertainty_amu_2loop(m);
            c.d("a1L", a1).d("a2L", a2).d("u0", u0).d("u1", u1).d("u2", u2);
            ++o.conclusive;
            const double mNP = std::fmin(std::fabs(m.get_Mhh(1)), std::fmin(std::fabs(m.get_MAh(1)), std::fabs(m.get_MHm(1))));
            const double mm = m.get_MFe(1);
            const double pi = 3.14159265358979323846;
            const double u2ref = 2e-12 + (std::fabs(a1) + std::fabs(a2)) * std::fabs(4 * m.get_alpha_em() / pi * std::log(mNP / mm));
            const std::string cell = std::string("THDM|type") + std::to_string(static_cast<int>(b.yukawa_type)) + (light ? "|mNP~mmu" : "|heavy") + (cfg.running_couplings ? "|run" : "|norun") +
               "|a1a2" + ((a1 > 0) == (a2 > 0) ? "same" : "opposite") + (mNP < mm ? "|mNP<mmu" : "") + degen + (!degen.empty() && (vh::same_bits(m.get_MAh(1), m.get_MHm(1)) || vh::same_bits(m.get_MAh(1), m.get_Mhh(1)) || vh::same_bits(m.get_MHm(1), m.get_Mhh(1))) ? "(bit-identical masses)" : "");
            o.cell(cell, rel(u2, u2ref), &c);
            if (!(fin(u0) && fin(u1) && fin(u2))) o.fail("C18:THDM:nonfinite", "uncertainty not finite for finite a_mu", c);
            else {
               if (!(u0 >= 0 && u1 >= 0 && u2 >= 0)) o.fail("C18:THDM:negative", "negative uncertainty", c);
               if (!(u2 >= 2e-12)) o.fail("C18:THDM:floor", "2L uncertainty below 2e-12", c);
               if (!vh::same_bits(u1, std::fabs(a2) + u2)) o.fail("C18:THDM:u1-composition", "u1 != |a2L| + u2", c);
               if (!vh::same_bits(u0, std::fabs(a1) + std::fabs(a2))) o.fail("C18:THDM:u0-composition", "u0 != |a1L| + |a2L|", c);
               if (!(rel(u2, u2ref) <= 1e-14)) o.fail("C18:THDM:u2-formula", "u2 != 2e-12 + (|a1L|+|a2L|)|4 alpha/pi ln(mNP/mmu)|", c);
               if (!vh::same_bits(calculate_uncertainty_amu_0loop(m, a1, a2), u0)) o.fail("C18:THDM:overload0", "0-loop overload disagrees", c);
               if (!vh::same_bits(calculate_uncertainty_amu_1loop(m, a1, a2), u1)) o.fail("C18:THDM:overload1", "1-loop overload disagrees", c);
               if (!vh::same_bits(calculate_uncertainty_amu_2loop(m, a1, a2), u2)) o.fail("C18:THDM:overload2", "2-loop overload disagrees", c);
               const double x = r.U(-1, 1) * 1e-9, y = r.U(-1, 1) * 1e-9;
               const double d = std::fabs(4 * m.get_alpha_em() / pi * std::log(mNP / mm));
               if (!vh::same_bits(calculate_uncertainty_amu_0loop(m, x, y), std::fabs(x) + std::fabs(y))) o.fail("C18:THDM:overload0-arg", "0-loop overload ignores its arguments", c);
               const double v2 = calculate_uncertainty_amu_2loop(m, x, y);
               if (!(rel(v2, 2e-12 + (std::fabs(x) + std::fabs(y)) * d) <= 1e-14)) o.fail("C18:THDM:overload2-arg", "2-loop overload ignores its arguments", c);
               if (!vh::same_bits(calculate_uncertainty_amu_1loop(m, x, y), std::fabs(y) + v2)) o.fail("C18:THDM:overload1-arg", "1-loop overload ignores its arguments", c);
               { const gm2calc_THDM* h = reinterpret_cast<const gm2calc_THDM*>(&m);
                 if (!vh::same_bits(gm2calc_thdm_calculate_uncertainty_amu_0loop(h), u0) || !vh::same_bits(gm2calc_thdm_calculate_uncertainty_amu_1loop(h), u1) || !vh::same_bits(gm2calc_thdm_calculate_uncertainty_amu_2loop(h), u2))
                    o.fail("C18:THDM:C-entry-points", "the C functions gm2calc_thdm_calculate_uncertainty_amu_{0,1,2}loop differ from the C++ functions", c);
                 if (!vh::same_bits(gm2calc_thdm_calculate_uncertainty_amu_0loop_amu1L_amu2L(h, x, y), std::fabs(x) + std::fabs(y)) || !vh::same_bits(gm2calc_thdm_calculate_uncertainty_amu_2loop_amu1L_amu2L(h, x, y), v2)
                     || !vh::same_bits(gm2calc_thdm_calculate_uncertainty_amu_1loop_amu1L_amu2L(h, x, y), std::fabs(y) + v2))
                    o.fail("C18:THDM:C-helpers", "the helpers gm2calc_thdm_calculate_uncertainty_amu_{0,1,2}loop_amu1L_amu2L differ from the C++ overloads", c); }
            }
            o.sample(c, 2);
         } catch (const Error&) { ++o.inconclusive; o.count("thdm-rejected"); }
      }
   }
   cap.take();
   o.finish();
   return 0;
}
