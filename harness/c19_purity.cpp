// C19: calculations are pure - deterministic, argument-preserving, history-independent and thread-safe.
// --mode single : state digests before/after every call, repeated calls, copies, evaluation orders (any build)
// --mode threads: N threads constructing models and evaluating on own and on shared const models; results compared
//                 bit-exactly with a sequential run of the same seed (meant for the ThreadSanitizer build)
#include "gen.hpp"
#include "gm2calc/gm2_1loop.hpp"
#include "gm2calc/gm2_2loop.hpp"
#include "gm2calc/gm2_uncertainty.hpp"
#include "MSSMNoFV/gm2_1loop_helpers.hpp"
#include "MSSMNoFV/gm2_2loop_helpers.hpp"
#include <atomic>
#include <functional>
#include <sched.h>
#include <thread>
#include <unistd.h>
#include <fcntl.h>

using namespace gm2calc;
using vh::J;
static vh::Out* out;

typedef std::vector<double> Vec;
struct MF { const char* n; std::function<double(const MSSMNoFV_onshell&)> f; };
struct TF { const char* n; std::function<double(const THDM&)> f; };
static const std::vector<MF> MFS = {
   {"calculate_amu_1loop", [](const MSSMNoFV_onshell& m) { return calculate_amu_1loop(m); }}, {"calculate_amu_1loop_non_tan_beta_resummed", [](const MSSMNoFV_onshell& m) { return calculate_amu_1loop_non_tan_beta_resummed(m); }},
   {"amu1LChi0", [](const MSSMNoFV_onshell& m) { return amu1LChi0(m); }}, {"amu1LChipm", [](const MSSMNoFV_onshell& m) { return amu1LChipm(m); }},
   {"calculate_amu_2loop", [](const MSSMNoFV_onshell& m) { return calculate_amu_2loop(m); }}, {"calculate_amu_2loop_non_tan_beta_resummed", [](const MSSMNoFV_onshell& m) { return calculate_amu_2loop_non_tan_beta_resummed(m); }},
   {"amu2LFSfapprox", [](const MSSMNoFV_onshell& m) { return amu2LFSfapprox(m); }}, {"amu2LFSfapprox_non_tan_beta_resummed", [](const MSSMNoFV_onshell& m) { return amu2LFSfapprox_non_tan_beta_resummed(m); }},
   {"amu2LChipmPhotonic", [](const MSSMNoFV_onshell& m) { return amu2LChipmPhotonic(m); }}, {"amu2LChi0Photonic", [](const MSSMNoFV_onshell& m) { return amu2LChi0Photonic(m); }},
   {"amu2LaSferm", [](const MSSMNoFV_onshell& m) { return amu2LaSferm(m); }}, {"amu2LaCha", [](const MSSMNoFV_onshell& m) { return amu2LaCha(m); }},
   {"calculate_uncertainty_amu_0loop", [](const MSSMNoFV_onshell& m) { return calculate_uncertainty_amu_0loop(m); }}, {"calculate_uncertainty_amu_1loop", [](const MSSMNoFV_onshell& m) { return calculate_uncertainty_amu_1loop(m); }},
   {"calculate_uncertainty_amu_2loop", [](const MSSMNoFV_onshell& m) { return calculate_uncertainty_amu_2loop(m); }}, {"amu1Lapprox", [](const MSSMNoFV_onshell& m) { return amu1Lapprox(m); }},
   {"tan_beta_cor", [](const MSSMNoFV_onshell& m) { return tan_beta_cor(m); }}, {"delta_bottom_correction", [](const MSSMNoFV_onshell& m) { return delta_bottom_correction(m); }}};
static const std::vector<TF> TFS = {
   {"calculate_amu_1loop", [](const THDM& m) { return calculate_amu_1loop(m); }}, {"calculate_amu_2loop", [](const THDM& m) { return calculate_amu_2loop(m); }},
   {"calculate_amu_2loop_fermionic", [](const THDM& m) { return calculate_amu_2loop_fermionic(m); }}, {"calculate_amu_2loop_bosonic", [](const THDM& m) { return calculate_amu_2loop_bosonic(m); }},
   {"calculate_uncertainty_amu_0loop", [](const THDM& m) { return calculate_uncertainty_amu_0loop(m); }}, {"calculate_uncertainty_amu_1loop", [](const THDM& m) { return calculate_uncertainty_amu_1loop(m); }},
   {"calculate_uncertainty_amu_2loop", [](const THDM& m) { return calculate_uncertainty_amu_2loop(m); }}};

static std::string digest(const MSSMNoFV_onshell& m) {
   std::ostringstream s; s << std::hexfloat << m;
   auto a = [&](double x) { s.write(reinterpret_cast<const char*>(&x), sizeof x); };
   a(m.get_EL()); a(m.get_EL0()); a(m.get_g1()); a(m.get_g2()); a(m.get_g3()); a(m.get_vd()); a(m.get_vu()); a(m.get_Mu()); a(m.get_BMu()); a(m.get_MassB()); a(m.get_MassWB()); a(m.get_MassG()); a(m.get_mHd2()); a(m.get_mHu2()); a(m.get_scale());
   for (int i = 0; i < 3; ++i) for (int k = 0; k < 3; ++k) { a(m.get_Ye(i, k)); a(m.get_Yd(i, k)); a(m.get_Yu(i, k)); a(m.get_TYe(i, k)); a(m.get_Ae(i, k)); a(m.get_Au(i, k)); a(m.get_Ad(i, k)); a(m.get_ml2(i, k)); a(m.get_me2(i, k)); a(m.get_mq2(i, k)); a(m.get_mu2(i, k)); a(m.get_md2(i, k)); }
   for (int i = 0; i < 4; ++i) { a(m.get_MChi(i)); for (int k = 0; k < 4; ++k) { a(m.get_ZN(i, k).real()); a(m.get_ZN(i, k).imag()); } }
   for (int i = 0; i < 2; ++i) { a(m.get_MCha(i)); a(m.get_MSm(i)); a(m.get_MStau(i)); a(m.get_MSt(i)); a(m.get_MSb(i)); a(m.get_Mhh(i)); a(m.get_MAh(i)); a(m.get_MHpm(i)); for (int k = 0; k < 2; ++k) { a(m.get_ZM(i, k)); a(m.get_UM(i, k).real()); a(m.get_UP(i, k).real()); } }
   a(m.get_MSvmL()); a(m.get_physical().MAh(1)); a(m.get_physical().MSm(0)); a(m.get_physical().MChi(0)); a(m.get_problems().have_problem()); a(m.get_problems().have_warning());
   return s.str();
}
static std::string digest(const THDM& m) {
   std::ostringstream s; s << std::hexfloat; m.print(s);
   auto a = [&](double x) { s.write(reinterpret_cast<const char*>(&x), sizeof x); };
   a(m.get_tan_beta()); a(m.get_v()); a(m.get_alpha_h()); a(m.get_lambda1()); a(m.get_lambda2()); a(m.get_lambda3()); a(m.get_lambda4()); a(m.get_lambda5()); a(m.get_lambda6()); a(m.get_lambda7()); a(m.get_m122());
   for (int i = 0; i < 2; ++i) { a(m.get_Mhh(i)); a(m.get_MAh(i)); a(m.get_MHm(i)); }
   for (int i = 0; i < 3; ++i) { a(m.get_MFu(i)); a(m.get_MFd(i)); a(m.get_MFe(i)); for (int k = 0; k < 3; ++k) { a(m.get_Gamma_u()(i, k).real()); a(m.get_Pi_u()(i, k).real()); a(m.get_yuh()(i, k).real()); a(m.get_ydHp()(i, k).imag()); a(m.get_ylA()(i, k).real()); } }
   return s.str();
}

// smf: factors on the default SM inputs. MSSM: alpha(MZ), alpha(0), g3, MZ, MW, mt, mb(mb), mtau, mmu ; THDM: alpha_em(MZ), alpha_em(0), alpha_s(MZ), mz, mw, mt, mb, mtau, mmu, mh(SM), mc, ms
constexpr int NSM = 12;
struct Pt { bool mssm; gen::MssmPoint mp; thdm::Mass_basis tb; bool running; bool complex_ckm; double smf[NSM] = {1, 1, 1, 1, 1, 1, 1, 1, 1, 1, 1, 1}; };
static const char* const SMN_M[NSM] = {"alpha_MZ", "alpha_thompson", "g3", "MZ", "MW", "mt", "mb_mb", "mtau", "mmu", "-", "-", "-"};
static const char* const SMN_T[NSM] = {"alpha_em_mz", "alpha_em_0", "alpha_s_mz", "mz", "mw", "mt", "mb", "mtau", "mmu", "mh_SM", "mc", "ms"};
static void apply_sm(MSSMNoFV_onshell& m, const Pt& p) {
   const double* f = p.smf; bool any = false; for (int i = 0; i < NSM; ++i) any = any || f[i] != 1.0;
   if (!any) return;   // default inputs untouched: bit-identical to the plain default model
   const MSSMNoFV_onshell d;
   m.set_alpha_MZ(f[0] * (d.get_EL() * d.get_EL() / (4 * M_PI))); m.set_alpha_thompson(f[1] * (d.get_EL0() * d.get_EL0() / (4 * M_PI))); m.set_g3(f[2] * d.get_g3());
   m.get_physical().MVZ = f[3] * d.get_physical().MVZ; m.get_physical().MVWm = f[4] * d.get_physical().MVWm; m.get_physical().MFt = f[5] * d.get_physical().MFt;
   m.get_physical().MFb = f[6] * d.get_physical().MFb; m.get_physical().MFtau = f[7] * d.get_physical().MFtau; m.get_physical().MFm = f[8] * d.get_physical().MFm;
}
static Pt gen_point(vh::Rng& r) {
   Pt p; p.mssm = r.chance(0.5);
   p.mp = gen::rand_mssm(r, 200, 2000, 3, 50); for (int g = 0; g < 3; ++g) { p.mp.mq[g] = r.LU(800, 4000); p.mp.mU[g] = r.LU(800, 4000); p.mp.mD[g] = r.LU(800, 4000); p.mp.Ae[g] = r.U(-1, 1) * 300; p.mp.Au[g] = r.U(-1, 1) * 800; p.mp.Ad[g] = r.U(-1, 1) * 800; }
   gen::ThdmOpts op; op.mlo = 60; op.mhi = 2000; op.tblo = 0.5; op.tbhi = 40;
   p.tb = gen::rand_mass_basis(r, op); p.tb.mh = r.U(100, 140); p.tb.mH = r.LU(150, 2000); p.tb.sin_beta_minus_alpha = r.sign() * r.U(0.9, 1); p.tb.m122 = r.U(-1, 1) * 1e5;
   p.tb.yukawa_type = static_cast<thdm::Yukawa_type>(1 + r.range(4));   // types without "ignored parameter" warnings need zeta = 0 = Pi
   p.tb.zeta_u = p.tb.zeta_d = p.tb.zeta_l = 0; p.tb.Pi_u.setZero(); p.tb.Pi_d.setZero(); p.tb.Pi_l.setZero();
   p.running = r.chance(0.5); p.complex_ckm = r.chance(0.5);
   // one MSSM point in three where the conversion is hardest (left and right smuon parameters within 3 %, large mu tan(beta)): the fixed-point iteration for
   // me2 fails there and the root-finder fallback runs - code that ordinary points never execute, in the sequential and in the threaded runs
   if (r.chance(0.33)) { p.mp.tb = r.LU(20, 60); p.mp.mu = r.sign() * r.LU(1000, 3000); p.mp.ml[1] = r.LU(200, 1500); p.mp.me[1] = p.mp.ml[1] * (1 + r.U(-0.03, 0.03)); }
   return p;
}
static SM sm_of(const Pt& p) {
   SM sm; if (p.complex_ckm) sm.set_ckm_from_wolfenstein(0.2257, 0.814, 0.135, 0.349);
   const double* f = p.smf;
   sm.set_alpha_em_mz(f[0] * sm.get_alpha_em_mz()); sm.set_alpha_em_0(f[1] * sm.get_alpha_em_0()); sm.set_alpha_s_mz(f[2] * sm.get_alpha_s_mz()); sm.set_mz(f[3] * sm.get_mz()); sm.set_mw(f[4] * sm.get_mw());
   sm.set_mu(2, f[5] * sm.get_mu(2)); sm.set_md(2, f[6] * sm.get_md(2)); sm.set_ml(2, f[7] * sm.get_ml(2)); sm.set_ml(1, f[8] * sm.get_ml(1)); sm.set_mh(f[9] * sm.get_mh()); sm.set_mu(1, f[10] * sm.get_mu(1)); sm.set_md(1, f[11] * sm.get_md(1));
   return sm;
}
static MSSMNoFV_onshell make_mssm_pt(const Pt& p) { MSSMNoFV_onshell m; apply_sm(m, p); gen::fill_mssm(m, p.mp); m.calculate_masses(); return m; }
// all results of a point, model constructed here (construction is part of what may run concurrently)
static bool eval_point(const Pt& p, Vec& res, bool via_conversion) {
   res.clear();
   try {
      if (p.mssm) {
         MSSMNoFV_onshell m = make_mssm_pt(p);
         if (m.get_problems().have_problem() || m.get_problems().have_warning()) return false;
         if (via_conversion) { MSSMNoFV_onshell b(m); b.set_Mu(p.mp.mu * 1.01); b.set_MassB(p.mp.m1 * 0.99); b.set_ml2(1, 1, p.mp.ml[1] * p.mp.ml[1] * 0.98); b.set_me2(1, 1, p.mp.me[1] * p.mp.me[1] * 1.04); b.convert_to_onshell(1e-8, 1000); if (b.get_problems().have_warning() || b.get_problems().have_problem()) return false; for (auto& f : MFS) res.push_back(f.f(b)); }
         for (auto& f : MFS) res.push_back(f.f(m));
      } else {
         thdm::Config c; c.running_couplings = p.running;
         THDM m(p.tb, sm_of(p), c);
         for (auto& f : TFS) res.push_back(f.f(m));
      }
   } catch (const Error&) { return false; }
   return true;
}
static bool same_vec(const Vec& a, const Vec& b) { if (a.size() != b.size()) return false; for (size_t i = 0; i < a.size(); ++i) if (!vh::same_bits(a[i], b[i])) return false; return true; }

static std::string hash_of(const Vec& v, bool ok) {
   uint64_t h = 1469598103934665603ULL; auto mix = [&](const void* q, size_t n) { const unsigned char* b = static_cast<const unsigned char*>(q); for (size_t k = 0; k < n; ++k) { h ^= b[k]; h *= 1099511628211ULL; } };
   mix(&ok, sizeof ok); for (double x : v) mix(&x, sizeof x);
   char buf[32]; std::snprintf(buf, sizeof buf, "%016llx", static_cast<unsigned long long>(h)); return buf;
}

static void single_case(vh::Rng& r) {
   gen::CerrCapture cap;
   // first thing in the case: all results of a point with its own SM inputs, as a digest. The driver repeats a sample of cases in processes of their
   // own (--only) and compares: what the bulk process has computed before (function-local statics initialised from the first point, caches) must not matter.
   { vh::Rng rd(r.next(), 17, 3); Pt d = gen_point(rd); for (int i = 0; i < NSM; ++i) d.smf[i] = rd.chance(0.3) ? 1.0 : rd.U(0.99, 1.01); Vec dv; const bool ok = eval_point(d, dv, false); out->digest(hash_of(dv, ok)); }
   const Pt p = gen_point(r);
   J c = p.mssm ? p.mp.json() : gen::json(p.tb); c.str("model", p.mssm ? "MSSM" : "THDM");
   try {
      if (p.mssm) {
         MSSMNoFV_onshell m = gen::make_mssm(p.mp);
         if (m.get_problems().have_problem()) { ++out->inconclusive; return; }
         if (r.chance(0.3)) { m.set_Mu(p.mp.mu * 1.01); m.convert_to_onshell(1e-8, 1000); }
         ++out->conclusive;
         const std::string d0 = digest(m);
         for (auto& f : MFS) {
            const double v1 = f.f(m); const std::string d1 = digest(m); const double v2 = f.f(m);
            const MSSMNoFV_onshell copy(m); const double v3 = f.f(copy);
            const bool okd = d1 == d0, okr = vh::same_bits(v1, v2), okc = vh::same_bits(v1, v3);
            out->cell(std::string("MSSM|") + f.n + "|argument-unchanged", okd ? 0 : 1); out->cell(std::string("MSSM|") + f.n + "|repeat-bit-identical", okr ? 0 : 1); out->cell(std::string("MSSM|") + f.n + "|copy-bit-identical", okc ? 0 : 1);
            if (!okd) out->fail(std::string("C19:argument-modified:MSSM:") + f.n, std::string(f.n) + " changed the model it was given", c);
            if (!okr) out->fail(std::string("C19:not-deterministic:MSSM:") + f.n, std::string(f.n) + " returns different values on repeated calls: " + vh::num(v1) + " vs " + vh::num(v2), c);
            if (!okc) out->fail(std::string("C19:copy-differs:MSSM:") + f.n, std::string(f.n) + " differs on a copy of the model", c);
         }
      } else {
         thdm::Config cfg; cfg.running_couplings = p.running;
         THDM m(p.tb, sm_of(p), cfg);
         ++out->conclusive;
         const std::string d0 = digest(m);
         for (auto& f : TFS) {
            const double v1 = f.f(m); const std::string d1 = digest(m); const double v2 = f.f(m);
            const THDM copy(m); const double v3 = f.f(copy);
            const bool okd = d1 == d0, okr = vh::same_bits(v1, v2), okc = vh::same_bits(v1, v3);
            out->cell(std::string("THDM|") + f.n + "|argument-unchanged", okd ? 0 : 1); out->cell(std::string("THDM|") + f.n + "|repeat-bit-identical", okr ? 0 : 1); out->cell(std::string("THDM|") + f.n + "|copy-bit-identical", okc ? 0 : 1);
            if (!okd) out->fail(std::string("C19:argument-modified:THDM:") + f.n, std::string(f.n) + " changed the model it was given", c);
            if (!okr) out->fail(std::string("C19:not-deterministic:THDM:") + f.n, std::string(f.n) + " returns different values on repeated calls", c);
            if (!okc) out->fail(std::string("C19:copy-differs:THDM:") + f.n, std::string(f.n) + " differs on a copy of the model", c);
         }
      }
   } catch (const Error&) { ++out->inconclusive; return; }
   // history independence: a set of points evaluated in two different orders, interleaved with other work
   const int K = 5; std::vector<Pt> pts; std::vector<Vec> first(K), second(K); std::vector<bool> ok1(K), ok2(K);
   for (int k = 0; k < K; ++k) pts.push_back(gen_point(r));
   for (int k = 0; k < K; ++k) ok1[k] = eval_point(pts[k], first[k], k % 2 == 0);
   std::vector<int> perm(K); for (int k = 0; k < K; ++k) perm[k] = k; for (int k = K - 1; k > 0; --k) std::swap(perm[k], perm[r.range(k + 1)]);
   for (int k : perm) { Vec dummy; Pt other = gen_point(r); eval_point(other, dummy, false); ok2[k] = eval_point(pts[k], second[k], k % 2 == 0); }
   bool same = true; for (int k = 0; k < K; ++k) same = same && ok1[k] == ok2[k] && same_vec(first[k], second[k]);
   out->cell("history|evaluation-order-independence", same ? 0 : 1);
   if (!same) out->fail("C19:history-dependence", "results of a point depend on what was evaluated before it in the same process", c);
   // object re-use: a model object that held another point before, re-filled through the setters and recalculated, gives the bits of a fresh object
   for (int rep = 0; rep < 2; ++rep) {
      Pt X = gen_point(r), Y = gen_point(r); X.mssm = Y.mssm = true;
      if (rep == 1) { Y = X; const double k = std::ldexp(1.0, 1 + r.range(5)); Y.mp.mu *= k; Y.mp.m1 *= k; Y.mp.m2 *= k; Y.mp.m3 *= k; Y.mp.ma *= k; Y.mp.Q *= k; for (int g = 0; g < 3; ++g) { Y.mp.ml[g] *= k; Y.mp.me[g] *= k; Y.mp.mq[g] *= k; Y.mp.mU[g] *= k; Y.mp.mD[g] *= k; Y.mp.Ae[g] *= k; Y.mp.Au[g] *= k; Y.mp.Ad[g] *= k; } }
      try {
         MSSMNoFV_onshell fresh = make_mssm_pt(X);
         MSSMNoFV_onshell reused = make_mssm_pt(Y); gen::fill_mssm(reused, X.mp); reused.calculate_masses();
         if (fresh.get_problems().have_problem() || reused.get_problems().have_problem()) { out->count("object re-use: point with problems"); continue; }
         bool same = true; std::string first;
         for (auto& f : MFS) { const double a = f.f(fresh), b = f.f(reused); if (!vh::same_bits(a, b)) { if (same) first = std::string(f.n) + ": fresh " + vh::num(a) + " vs re-used " + vh::num(b); same = false; } }
         out->cell(std::string("object-reuse|MSSM|") + (rep ? "previous point = same point scaled by k" : "previous point unrelated"), same ? 0 : 1);
         if (!same) { J w = X.mp.json(); w.str("model", "MSSM").obj("previous_point", Y.mp.json()); out->fail("C19:object-reuse:MSSM", "a re-filled and recalculated model object gives other results than a fresh one (" + first + ")", w); }
      } catch (const Error&) { out->count("object re-use: point rejected"); }
   }
   // neighbour histories: P' differs from P in exactly one input (an SM input or a model parameter). P' evaluated right after P must give the
   // same bits as P' evaluated right after an unrelated point Q - what a result remembered under an incomplete key would break.
   for (int rep = 0; rep < 4; ++rep) {
      Pt P = gen_point(r); for (int i = 0; i < NSM; ++i) P.smf[i] = r.chance(0.5) ? 1.0 : r.U(0.99, 1.01);
      Pt N = P; std::string what;
      const double fac = r.chance(0.5) ? 1 + r.sign() * r.LU(1e-6, 2e-2) : 1 + r.sign() * r.U(0.05, 0.3);
      if (r.chance(0.6)) { const int j = r.range(P.mssm ? 9 : NSM); N.smf[j] = P.smf[j] * fac; what = std::string("SM:") + (P.mssm ? SMN_M[j] : SMN_T[j]); }
      else if (P.mssm) {
         double* q[] = {&N.mp.tb, &N.mp.mu, &N.mp.m1, &N.mp.m2, &N.mp.m3, &N.mp.ma, &N.mp.Q, &N.mp.ml[1], &N.mp.me[1], &N.mp.ml[2], &N.mp.me[2], &N.mp.mq[2], &N.mp.mU[2], &N.mp.mD[2], &N.mp.Ae[1], &N.mp.Ae[2], &N.mp.Au[2], &N.mp.Ad[2], &N.mp.mq[0], &N.mp.ml[0]};
         static const char* const qn[] = {"tb", "mu", "m1", "m2", "m3", "ma", "Q", "ml2", "me2", "ml3", "me3", "mq3", "mU3", "mD3", "Ae2", "Ae3", "Au3", "Ad3", "mq1", "ml1"};
         const int j = r.range(20); *q[j] *= fac; what = std::string("MSSM:") + qn[j];
      } else {
         double* q[] = {&N.tb.mh, &N.tb.mH, &N.tb.mA, &N.tb.mHp, &N.tb.tan_beta, &N.tb.m122, &N.tb.lambda_6, &N.tb.lambda_7};
         static const char* const qn[] = {"mh", "mH", "mA", "mHp", "tan_beta", "m122", "lambda_6", "lambda_7"};
         const int j = r.range(9);
         if (j == 8) { N.running = !P.running; what = "THDM:running_couplings"; } else { *q[j] *= fac; if (j >= 6 && *q[j] == 0) *q[j] = 0.01; what = std::string("THDM:") + qn[j]; }
      }
      const Pt Q = gen_point(r);
      Vec dq, dp, afterQ, afterP, pAfterQ, pAfterN, dn;
      eval_point(Q, dq, false); const bool o1 = eval_point(N, afterQ, false);
      eval_point(P, dp, false); const bool o2 = eval_point(N, afterP, false);
      eval_point(Q, dq, false); const bool o3 = eval_point(P, pAfterQ, false);
      eval_point(N, dn, false); const bool o4 = eval_point(P, pAfterN, false);
      if (!(o1 || o2 || o3 || o4)) { out->count("neighbour history: point not evaluable"); continue; }
      const bool sameN = o1 == o2 && same_vec(afterQ, afterP), sameP = o3 == o4 && same_vec(pAfterQ, pAfterN);
      const bool differs = !same_vec(afterQ, pAfterQ);   // the varied input matters for at least one result
      const std::string cell = "neighbour-history|" + what + (differs ? "" : "|(no result depends on it)");
      out->cell(cell, sameN && sameP ? 0 : 1);
      if (!(sameN && sameP)) {
         J w = P.mssm ? P.mp.json() : gen::json(P.tb); w.str("model", P.mssm ? "MSSM" : "THDM").str("varied_input", what).d("factor", fac); w.arr("sm_factors", P.smf, P.smf + NSM);
         size_t k = 0; const Vec& a = sameN ? pAfterQ : afterQ; const Vec& b = sameN ? pAfterN : afterP; while (k < a.size() && k < b.size() && vh::same_bits(a[k], b[k])) ++k;
         w.i("first_differing_result", static_cast<long>(k)); if (k < a.size() && k < b.size()) w.d("after_unrelated_point", a[k]).d("after_neighbour", b[k]);
         out->fail("C19:history-dependence:neighbour:" + what, "a point evaluated right after a point differing only in " + what + " gives other results than after an unrelated point", w);
      }
   }
   out->sample(c, 1);
}

static std::atomic<long> seqno{0};
static void thread_case(vh::Rng& r, int nthreads, int iters) {
   // points: per thread its own list, plus shared const models
   std::vector<std::vector<Pt>> pts(nthreads);
   for (int t = 0; t < nthreads; ++t) for (int k = 0; k < iters; ++k) {
      Pt p = gen_point(r);
      // the points that go through convert_to_onshell (k % 3 == 0) are MSSM points of the hard kind in every thread, so that the rarely executed
      // fallback code (root finder for me2) runs in several threads of the same case
      if (k % 3 == 0) { p.mssm = true; p.mp.tb = r.LU(20, 60); p.mp.mu = r.sign() * r.LU(1000, 3000); p.mp.ml[1] = r.LU(200, 1500); p.mp.me[1] = p.mp.ml[1] * (1 + r.U(-0.03, 0.03)); }
      pts[t].push_back(p);
   }
   std::vector<std::vector<Vec>> seq(nthreads, std::vector<Vec>(iters)), par(nthreads, std::vector<Vec>(iters));
   std::vector<std::vector<char>> okseq(nthreads, std::vector<char>(iters)), okpar(nthreads, std::vector<char>(iters));
   for (int t = 0; t < nthreads; ++t) for (int k = 0; k < iters; ++k) okseq[t][k] = eval_point(pts[t][k], seq[t][k], k % 3 == 0);
   // shared const models
   Pt sp; do { sp = gen_point(r); sp.mssm = true; } while (false);
   MSSMNoFV_onshell shared_m; bool have_m = false; try { shared_m = gen::make_mssm(sp.mp); have_m = !shared_m.get_problems().have_problem(); } catch (const Error&) {}
   Pt st = gen_point(r); st.mssm = false; thdm::Config cfg; cfg.running_couplings = st.running; THDM* shared_t = nullptr; try { shared_t = new THDM(st.tb, sm_of(st), cfg); } catch (const Error&) {}
   // (a function may refuse the shared point - the non-resummed variants recompute the spectrum and can meet a tachyon: such a point is not used as shared model)
   Vec sh_m_seq, sh_t_seq;
   if (have_m) { try { for (auto& f : MFS) sh_m_seq.push_back(f.f(shared_m)); } catch (const Error&) { have_m = false; sh_m_seq.clear(); out->count("shared MSSM model refused by a function (not used)"); } }
   if (shared_t) { try { for (auto& f : TFS) sh_t_seq.push_back(f.f(*shared_t)); } catch (const Error&) { delete shared_t; shared_t = nullptr; sh_t_seq.clear(); out->count("shared THDM model refused by a function (not used)"); } }
   const MSSMNoFV_onshell& csm = shared_m;
   std::vector<Vec> sh_m_par(nthreads), sh_t_par(nthreads);
   std::vector<std::vector<long>> order(nthreads);
   std::vector<uint64_t> yseed(nthreads); for (auto& y : yseed) y = r.next();
   std::atomic<int> go{0};
   auto work = [&](int t) {
      uint64_t ys = yseed[t]; auto maybe_yield = [&]() { ys = ys * 6364136223846793005ULL + 1442695040888963407ULL; if ((ys >> 60) < 5) sched_yield(); };
      while (go.load() == 0) sched_yield();
      for (int k = 0; k < iters; ++k) {
         okpar[t][k] = eval_point(pts[t][k], par[t][k], k % 3 == 0); order[t].push_back(seqno.fetch_add(1)); maybe_yield();
         if (have_m && k % 2 == 0) { sh_m_par[t].clear(); for (auto& f : MFS) { sh_m_par[t].push_back(f.f(csm)); maybe_yield(); } }
         if (shared_t && k % 2 == 1) { sh_t_par[t].clear(); for (auto& f : TFS) { sh_t_par[t].push_back(f.f(*shared_t)); maybe_yield(); } }
      }
   };
   std::vector<std::thread> th; for (int t = 0; t < nthreads; ++t) th.emplace_back(work, t);
   go.store(1); for (auto& x : th) x.join();
   bool same = true, shared_same = true; long evals = 0;
   for (int t = 0; t < nthreads; ++t) { for (int k = 0; k < iters; ++k) { same = same && okseq[t][k] == okpar[t][k] && same_vec(seq[t][k], par[t][k]); ++evals; }
      if (have_m && !sh_m_par[t].empty()) shared_same = shared_same && same_vec(sh_m_par[t], sh_m_seq); if (shared_t && !sh_t_par[t].empty()) shared_same = shared_same && same_vec(sh_t_par[t], sh_t_seq); }
   // interleaving signature: the global completion order of (thread, iteration)
   std::vector<std::pair<long, int>> ev; for (int t = 0; t < nthreads; ++t) for (long s : order[t]) ev.push_back({s, t}); std::sort(ev.begin(), ev.end());
   uint64_t hsh = 1469598103934665603ULL; for (auto& e : ev) { hsh ^= static_cast<uint64_t>(e.second + 1); hsh *= 1099511628211ULL; }
   J c; c.i("threads", nthreads).i("iterations", iters).i("model_constructions_and_evaluation_sets", evals); char hb[32]; std::snprintf(hb, sizeof hb, "%016llx", static_cast<unsigned long long>(hsh)); c.str("completion_order_hash", hb);
   out->count(std::string("interleaving:") + hb);
   out->cell("threads" + std::to_string(nthreads) + "|own-models=sequential", same ? 0 : 1, &c); out->cell("threads" + std::to_string(nthreads) + "|shared-const-model=sequential", shared_same ? 0 : 1, &c);
   if (!same) out->fail("C19:threads:result-differs-from-sequential", "results computed concurrently on distinct model objects differ from the sequential results", c);
   if (!shared_same) out->fail("C19:threads:shared-const-model-result-differs", "read-only evaluations on a shared model differ from the sequential results", c);
   ++out->conclusive; delete shared_t;
   out->sample(c, 1);
}

int main(int argc, char** argv) {
   vh::Args a(argc, argv);
   vh::Out o(a); out = &o;
   const std::string mode = a.get("mode", "single");
   if (mode == "threads") {   // library warnings go to fd 2: point it at a per-process file instead of swapping rdbuf (which would race)
      const std::string ef = a.get("stderr-file", "");
      if (!ef.empty()) { int fd = open(ef.c_str(), O_WRONLY | O_CREAT | O_APPEND, 0644); (void)fd; }
   }
   const int iters = static_cast<int>(a.getd("iters", 6));
   for (long i = a.first(); i < a.last(); ++i) {
      o.cur = i;
      vh::Rng r(a.seed, a.worker, i);
      ++o.evaluations;
      if (mode == "single") single_case(r);
      else { static const int TN[] = {2, 3, 4, 8, 16}; const int forced = static_cast<int>(a.getd("threads", 0)); thread_case(r, forced ? forced : TN[i % 5], iters); }
   }
   o.finish();
   return 0;
}
