// C01: one-variable loop functions, real/complex dilogarithm and Clausen function against a
// 200-digit reference of their published closed forms, with boundary-concentrated sampling.
#include "gm2_ffunctions.hpp"
#include "gm2_dilog.hpp"
#include "mpref.h"
#include "vh.hpp"
#include <complex>
#include <sstream>
#include <iostream>

using vh::J;
typedef long double LD;

struct Fn { const char* name; int id; double (*f)(double); double tol; };
static double dilog_r(double x) { return gm2calc::dilog(x); }
static const Fn FNS[] = {
   {"F1C", MPREF_F1C, gm2calc::F1C, 1e-7}, {"F2C", MPREF_F2C, gm2calc::F2C, 1e-7}, {"F3C", MPREF_F3C, gm2calc::F3C, 1e-7}, {"F4C", MPREF_F4C, gm2calc::F4C, 1e-7},
   {"F1N", MPREF_F1N, gm2calc::F1N, 1e-7}, {"F2N", MPREF_F2N, gm2calc::F2N, 1e-7}, {"F3N", MPREF_F3N, gm2calc::F3N, 1e-7}, {"F4N", MPREF_F4N, gm2calc::F4N, 1e-7},
   {"G3", MPREF_G3, gm2calc::G3, 1e-7}, {"G4", MPREF_G4, gm2calc::G4, 1e-7}, {"f_PS", MPREF_fPS, gm2calc::f_PS, 1e-7}, {"f_S", MPREF_fS, gm2calc::f_S, 1e-7},
   {"f_sferm", MPREF_fsferm, gm2calc::f_sferm, 1e-7}, {"f_CSl", MPREF_fCSl, gm2calc::f_CSl, 1e-7}, {"F1", MPREF_F1, gm2calc::F1, 1e-7}, {"F1t", MPREF_F1t, gm2calc::F1t, 1e-7},
   {"F2", MPREF_F2, gm2calc::F2, 1e-7}, {"F3", MPREF_F3, gm2calc::F3, 1e-7}, {"dilog", MPREF_dilog, dilog_r, 1e-13}, {"Cl2", MPREF_Cl2, gm2calc::clausen_2, 1e-13},
};
static const int NFN = sizeof(FNS) / sizeof(*FNS);
static const double PI = 3.14159265358979323846;

static vh::Out* out;

// scale for isolated zeros (DESIGN 4.1): 1e-2 * max(|f(x/2)|, |f(2x)|), computed only when needed
static LD zero_scale(const Fn& fn, double x) {
   if (fn.id == MPREF_Cl2) return 0.01L * 1.0149416064096536L;   // periodic: x/2 and 2x of a zero are zeros again; use the global maximum
   if (fn.id == MPREF_dilog && std::fabs(x) > 1) { const LD l = logl(fabsl(static_cast<LD>(x))); return 0.01L * (static_cast<LD>(PI) * PI / 6 + l * l / 2); }   // 1e-2 * sum |terms| of the inversion formula
   LD a = fabsl(mpref_eval1(fn.id, x / 2)), b = fabsl(mpref_eval1(fn.id, 2 * x));
   return 0.01L * std::max(a, b);
}

static std::string finding_key(const Fn& fn, double x, double err) {
   const std::string n = fn.name;
   // (the large-x cancellation of F1, F2, f_sferm loses up to 1.5e-3 over the sampled range - 2 000 000 cases; a larger error in that region is something else)
   if ((n == "F1" || n == "F2" || n == "f_sferm") && !(err <= 0.05)) return "C01:" + n + ":accuracy";
   if (!std::isfinite(err)) return "C01:" + n + ":accuracy";   // a non-finite value is never one of the known inaccuracies
   // predicates of the known findings (DESIGN 6, rows 8, 8b): outside them a failure has the generic key
   if (n == "Cl2" && std::fabs(x) >= 6.283185307179586) return "C01:Cl2:argument-reduction";   // the double nearest 2 pi and beyond
   if (n == "F1" && x > 1e6) return "C01:F1:large-x-cancellation";
   if (n == "F2" && x > 1e6) return "C01:F2:large-x-cancellation";
   if (n == "f_sferm" && x > 1e6) return "C01:f_sferm:large-x-cancellation";
   if (n == "f_CSl" && x > 1e3) return "C01:f_CSl:large-x-cancellation";
   return "C01:" + n + ":accuracy";
}

static const char* regime(const Fn& fn, double x) {
   const bool poly = fn.id >= MPREF_dilog;
   if (x == 0) return "zero";
   if (poly) {
      const double ax = std::fabs(x);
      if (fn.id == MPREF_Cl2) { if (ax >= 6.283185307179586) return "beyond-principal-period"; if (std::fabs(ax - PI) < 0.05 || ax < 0.05 || std::fabs(ax - 2 * PI) < 0.05) return "near-zero-of-Cl2"; return "principal-period"; }
      if (std::fabs(x - 1) < 0.05) return "near1"; if (std::fabs(x + 1) < 0.05) return "near-1"; if (std::fabs(x - 0.5) < 0.02) return "near1/2"; if (std::fabs(x - 2) < 0.05) return "near2";
      return x < 0 ? "negative" : "positive";
   }
   if (x < 0) return "negative";
   if (x < 1e-14) return "below-domain";
   if (x < 1e-13) return "just-above-1e-14";
   if (std::fabs(x - 0.25) < 1e-3) return "near1/4";
   const double rc = std::fabs(x - 1) / (1 + std::max(x, 1.0));
   if (rc < 0.008) return "deep-taylor";
   if (rc < 0.05) return "window-edge";
   if (std::fabs(x / 100 - 1) < 0.1) return "near1e2";
   if (std::fabs(x / 1000 - 1) < 0.1) return "near1e3";
   return "generic";
}

// one accuracy observation; returns the relative error on the scale rule
static double observe(const Fn& fn, double x, const char* origin) {
   const double v = fn.f(x);
   { const double vrep = fn.f(x); if (!vh::same_bits(v, vrep)) { J w; w.str("fn", fn.name).d("x", x).d("first", v).d("second", vrep); out->fail(std::string("C01:") + fn.name + ":not-deterministic", std::string(fn.name) + "(" + vh::num(x) + ") gives " + vh::num(v) + " and then " + vh::num(vrep), w); } }
   const LD ref = mpref_eval1(fn.id, x);
   LD den = fabsl(ref);
   LD err = fabsl(static_cast<LD>(v) - ref) / std::max(den, static_cast<LD>(1e-300));
   if (!(err <= fn.tol)) {   // possibly an isolated zero: apply the scale rule
      const LD S = zero_scale(fn, x);
      err = fabsl(static_cast<LD>(v) - ref) / std::max(std::max(den, S), static_cast<LD>(1e-300));
      if (std::isnan(v)) err = std::numeric_limits<double>::quiet_NaN();
   }
   const char* rg = regime(fn, x);
   J w; w.str("fn", fn.name).d("x", x).d("value", v).ld("ref", ref).d("err", static_cast<double>(err)).str("origin", origin);
   const bool below = (fn.id < MPREF_dilog) && x > 0 && x < 1e-14;
   out->cell(std::string(fn.name) + "|" + rg + "|" + vh::decade(x), static_cast<double>(err), &w);
   if (!(err <= fn.tol)) {
      if (below) out->count(std::string("below-domain-exceed:") + fn.name);   // outside the stated domain: reported only
      else out->fail(finding_key(fn, x, static_cast<double>(err)), std::string(fn.name) + "(" + vh::num(x) + ") = " + vh::num(v) + ", reference " + vh::num(ref) + ", error " + vh::num(static_cast<double>(err)) + " > " + vh::num(fn.tol), w, static_cast<double>(err));
   }
   return static_cast<double>(err);
}

static double ulps(double x, int n) { for (int i = 0; i < std::abs(n); ++i) x = std::nextafter(x, n > 0 ? INFINITY : -INFINITY); return x; }

// continuity across a nominal boundary b: accuracy on a ladder on both sides and jumps between adjacent doubles
static void ladder(const Fn& fn, double b, vh::Rng& r) {
   std::vector<double> pts;
   for (int k = -3; k <= 3; ++k) pts.push_back(ulps(b, k));
   for (double d = 1e-15; d < 2e-3; d *= 10) { pts.push_back(b * (1 + d * r.U(1, 3))); pts.push_back(b * (1 - d * r.U(1, 3))); }
   for (double x : pts) {
      if (fn.id < MPREF_dilog && x < 1e-14) continue;
      observe(fn, x, "ladder");
      // adjacent doubles: the jump must not exceed the true variation by more than 2 tol |f|
      const double xp = std::nextafter(x, INFINITY);
      const double v0 = fn.f(x), v1 = fn.f(xp);
      const LD r0 = mpref_eval1(fn.id, x), r1 = mpref_eval1(fn.id, xp);
      LD scale = std::max(fabsl(r0), fabsl(r1));
      LD jump = fabsl(static_cast<LD>(v1) - v0), truth = fabsl(r1 - r0);
      LD ex = (jump - truth) / std::max(scale, static_cast<LD>(1e-300));
      if (ex > 2 * fn.tol) { const LD S = zero_scale(fn, x); ex = (jump - truth) / std::max(std::max(scale, S), static_cast<LD>(1e-300)); }
      J w; w.str("fn", fn.name).d("x", x).d("x_next", xp).d("f", v0).d("f_next", v1).d("excess_jump", static_cast<double>(ex)).d("boundary", b);
      out->cell(std::string(fn.name) + "|adjacent-doubles|" + vh::decade(b), static_cast<double>(std::max(ex, static_cast<LD>(0))), &w);
      if (!(ex <= 2 * fn.tol)) {
         std::string key = finding_key(fn, x, 0);
         if (key.find(":accuracy") != std::string::npos) key = finding_key(fn, xp, 0);   // a pair that straddles the predicate of a known finding belongs to it
         if (key.find(":accuracy") != std::string::npos) key = std::string("C01:") + fn.name + ":discontinuity";
         out->fail(key, std::string(fn.name) + " jumps by " + vh::num(static_cast<double>(ex)) + " (relative, beyond the true variation) between adjacent doubles at " + vh::num(x), w);
      }
   }
}

static double gen_x(const Fn& fn, vh::Rng& r, int mode) {
   switch (mode) {
   case 0: return r.LU(1e-14, 1e12);
   case 1: return 1 + r.sign() * std::pow(10.0, r.U(-15, -0.5));
   case 2: { static const double w[] = {0.01, 0.02, 0.03, 0.04, 0.06, 0.08}; double c = w[r.range(6)] * r.U(0.7, 1.3); // relative closeness c = |x-1|/(1+max(x,1))
      return r.chance(0.5) ? (1 + c) / (1 - c) : 1 - 2 * c; }
   case 3: return 0.25 * (1 + r.sign() * std::pow(10.0, r.U(-16, -0.5)));
   case 4: return (r.chance(0.5) ? 1e2 : 1e3) * (1 + r.sign() * std::pow(10.0, r.U(-16, -0.7)));
   case 5: return r.LU(1e-16, 1e-13);
   case 6: return r.LU(1e-3, 1e3);
   case 7: return r.LU(1e6, 1e12);
   default: return r.LU(1e-14, 1e-6);
   }
}
static double gen_poly(const Fn& fn, vh::Rng& r, int mode) {
   if (fn.id == MPREF_Cl2) {
      switch (mode) {
      case 0: return r.U(-2 * PI, 2 * PI);
      case 1: { double k = r.range(5) * PI / 2; return r.sign() * k * (1 + r.sign() * std::pow(10.0, r.U(-16, -1))); }
      case 2: return r.sign() * std::pow(10.0, r.U(-300, 0));
      case 3: return r.sign() * r.LU(2 * PI, 1e15);           // beyond the principal period (known finding)
      case 4: return r.sign() * (r.range(40) + 1) * PI * (1 + r.sign() * std::pow(10.0, r.U(-16, -3)));
      default: return r.U(0, PI);
      }
   }
   switch (mode) {
   case 0: return r.sign() * r.LU(1e-300, 1e300);
   case 1: { static const double b[] = {-1, 0.5, 1, 2}; return b[r.range(4)] * (1 + r.sign() * std::pow(10.0, r.U(-16, -1))); }
   case 2: return r.sign() * std::pow(10.0, r.U(-20, 0));
   case 3: return r.U(-3, 3);
   case 4: return 12.5951703698450161286 * (1 + r.sign() * std::pow(10.0, r.U(-16, -1)));   // zero of Re Li2
   default: return r.sign() * r.LU(1, 1e8);
   }
}

static void exact_points() {
   // documented values at exactly 0, 1/4 and 1 (DESIGN C01)
   struct E { const char* fn; double x; double expect; bool bitexact; };
   const double pi2 = PI * PI;
   const E tab[] = {
      {"F1C", 0, 4, true}, {"F1N", 0, 2, true}, {"F2N", 0, 3, true}, {"F3N", 0, 8.0 / 105, false}, {"F4N", 0, -0.75 * (pi2 - 9), false},
      {"F2C", 0, 0, true}, {"F4C", 0, 0, true}, {"f_PS", 0, 0, true}, {"f_S", 0, 0, true}, {"f_sferm", 0, 0, true}, {"f_CSl", 0, 0, true}, {"F1", 0, 0, true}, {"F1t", 0, 0, true},
      {"F1C", 1, 1, false}, {"F2C", 1, 1, false}, {"F3C", 1, 1, false}, {"F4C", 1, 1, false}, {"F1N", 1, 1, false}, {"F2N", 1, 1, false}, {"F3N", 1, 1, false}, {"F4N", 1, 1, false},
      {"G3", 1, 1.0 / 3, false}, {"G4", 1, 1.0 / 6, false},
      {"f_PS", 0.25, std::log(4.0), false}, {"F1", 0.25, -0.5, false}, {"F2", 0.25, 1 - std::log(4.0), false}, {"F3", 0.25, 4.75, false}, {"F1t", 0.25, std::log(2.0), false},
      {"f_S", 0.25, -1.0, false}, {"f_sferm", 0.25, 0.125 * (2 - 2 * std::log(4.0)), false},
      {"dilog", 0, 0, true}, {"dilog", 1, pi2 / 6, false}, {"dilog", -1, -pi2 / 12, false}, {"dilog", 0.5, pi2 / 12 - 0.5 * std::log(2.0) * std::log(2.0), false},
      {"Cl2", 0, 0, true}, {"Cl2", PI / 2, 0.915965594177219015, false},
   };
   for (const E& e : tab) {
      const Fn* fn = nullptr;
      for (int i = 0; i < NFN; ++i) if (std::string(FNS[i].name) == e.fn) fn = &FNS[i];
      const double v = fn->f(e.x);
      const double err = e.bitexact ? (v == e.expect ? 0 : 1) : std::fabs(v - e.expect) / std::fabs(e.expect);
      J w; w.str("fn", e.fn).d("x", e.x).d("value", v).d("documented", e.expect);
      out->cell(std::string(e.fn) + "|exact-point|" + vh::num(e.x), err, &w);
      if (!(err <= (e.bitexact ? 0 : fn->tol))) out->fail(std::string("C01:") + e.fn + ":documented-value", std::string(e.fn) + "(" + vh::num(e.x) + ") = " + vh::num(v) + ", documented " + vh::num(e.expect), w);
   }
   // exact value at the other special points from the reference
   for (int i = 0; i < NFN; ++i) { if (FNS[i].id >= MPREF_dilog) continue; observe(FNS[i], 0.25, "exact-point"); observe(FNS[i], 1.0, "exact-point"); }
   // the polylogarithms at the doubles a caller gets from k*M_PI, 2^k*M_PI and small integers (arguments whose range reduction lands exactly on a special point)
   for (int i = 0; i < NFN; ++i) {
      if (FNS[i].id < MPREF_dilog) continue;
      for (int k = -24; k <= 24; ++k) { observe(FNS[i], k * PI, "exact-point(k*pi)"); observe(FNS[i], k * (PI / 2), "exact-point(k*pi/2)"); observe(FNS[i], static_cast<double>(k), "exact-point(integer)"); }
      for (int k = 0; k <= 12; ++k) for (int sg = -1; sg <= 1; sg += 2) { observe(FNS[i], sg * std::ldexp(PI, k), "exact-point(2^k*pi)"); observe(FNS[i], sg * std::ldexp(1.0, k), "exact-point(2^k)"); observe(FNS[i], sg * std::ldexp(1.0, -k), "exact-point(2^-k)"); }
   }
}

static void negatives(const Fn& fn, vh::Rng& r) {
   if (fn.id >= MPREF_dilog) return;
   const double x = -(r.chance(0.3) ? r.LU(1e-14, 1e-10) : r.LU(1e-14, 1e12));
   std::stringstream ss; std::streambuf* old = std::cerr.rdbuf(ss.rdbuf());
   // a call history around the judged call: a valid call before, the same negative argument again, another function of the family with the
   // same argument, the same function again - every evaluation of a negative argument must be NaN whatever was evaluated before
   const double xv = r.LU(1e-3, 1e3);
   const int other = r.range(NFN);
   const double v0 = fn.f(xv);
   const double v = fn.f(x), vrep = fn.f(x);
   const double vo = FNS[other].id < MPREF_dilog ? FNS[other].f(x) : std::numeric_limits<double>::quiet_NaN();
   const double vagain = fn.f(x);
   const double v0again = fn.f(xv);
   std::cerr.rdbuf(old);
   J w; w.str("fn", fn.name).d("x", x).d("value", v).d("repeated", vrep).str("other_fn", FNS[other].name).d("other_value", vo).d("after_other", vagain).d("valid_argument", xv);
   out->cell(std::string(fn.name) + "|negative|" + vh::decade(x), std::isnan(v) ? 0 : 1, &w);
   if (!std::isnan(v)) out->fail(std::string("C01:") + fn.name + ":negative-not-nan", std::string(fn.name) + "(" + vh::num(x) + ") = " + vh::num(v) + " instead of NaN", w);
   const bool hist_ok = std::isnan(vrep) && std::isnan(vo) && std::isnan(vagain) && vh::same_bits(v0, v0again);
   out->cell(std::string(fn.name) + "|negative|call-history", hist_ok ? 0 : 1, &w);
   if (!hist_ok) out->fail(std::string("C01:") + fn.name + ":negative-not-nan:call-history", std::string(fn.name) + "(" + vh::num(x) + ") evaluated repeatedly / interleaved with " + FNS[other].name + ": " + vh::num(vrep) + ", " + vh::num(vo) + ", " + vh::num(vagain) + " (all must be NaN), valid argument before/after: " + vh::num(v0) + " / " + vh::num(v0again), w);
}

static void complex_dilog(vh::Rng& r) {
   double re, im;
   switch (r.range(9)) {
   case 0: { double m = r.LU(1e-10, 1e8), ph = r.U(-PI, PI); re = m * std::cos(ph); im = m * std::sin(ph); break; }
   case 1: { double ph = r.U(-PI, PI), m = 1 + r.sign() * std::pow(10.0, r.U(-16, -1)); re = m * std::cos(ph); im = m * std::sin(ph); break; }   // |z| = 1
   case 2: re = 0.5 * (1 + r.sign() * std::pow(10.0, r.U(-16, -1))); im = r.U(-2, 2); break;                                                    // Re z = 1/2
   case 3: re = r.U(-3, 3); im = r.sign() * std::pow(10.0, r.U(-300, -3)); break;                                                               // Im z = 0+-
   case 4: re = r.sign() * r.LU(1e-3, 1e8); im = r.chance(0.5) ? 0.0 : -0.0; break;                                                                // on the real axis
   case 5: re = 1 + r.sign() * std::pow(10.0, r.U(-16, -1)); im = r.sign() * std::pow(10.0, r.U(-16, -1)); break;                                // near z = 1
   case 6: { double rz = r.U(0.5, 3), nz = 2 * rz * (1 + r.sign() * std::pow(10.0, r.U(-16, -1))); double i2 = nz - rz * rz; if (i2 < 0) i2 = 0; re = rz; im = r.sign() * std::sqrt(i2); break; }   // |z|^2 = 2 Re z
   case 7: re = r.sign() * std::pow(10.0, r.U(-12, -6)); im = r.sign() * std::pow(10.0, r.U(-12, -6)); break;                                     // tiny |z|
   default: re = r.U(-2, 2); im = r.U(-2, 2); break;
   }
   if (std::hypot(re, im) > 1e8) { re *= 1e-1; im *= 1e-1; }
   const std::complex<double> v = gm2calc::dilog(std::complex<double>(re, im));
   LD rr, ri; mpref_cdilog(re, im, &rr, &ri);
   const LD den = std::max(std::sqrt(rr * rr + ri * ri), static_cast<LD>(1e-300));
   const LD err = std::sqrt((v.real() - rr) * (v.real() - rr) + (v.imag() - ri) * (v.imag() - ri)) / den;
   const double m = std::hypot(re, im);
   const char* rg = im == 0 ? "real-axis" : (std::fabs(m - 1) < 0.01 ? "unit-circle" : (std::fabs(re - 0.5) < 0.01 ? "Re=1/2" : (std::fabs(im) < 1e-3 ? "near-real-axis" : "generic")));
   J w; w.str("fn", "cdilog").d("re", re).d("im", im).d("vre", v.real()).d("vim", v.imag()).ld("rre", rr).ld("rim", ri).d("err", static_cast<double>(err));
   out->cell(std::string("cdilog|") + rg + "|" + vh::decade(m), static_cast<double>(err), &w);
   if (!(err <= 1e-13)) out->fail("C01:cdilog:accuracy", "complex dilog error " + vh::num(static_cast<double>(err)) + " at (" + vh::num(re) + "," + vh::num(im) + ")", w);
}

int main(int argc, char** argv) {
   vh::Args a(argc, argv);
   vh::Out o(a); out = &o;
   static const double BOUNDS[] = {2.220446049250313e-15, 1e-14, 1.4901161193847656e-8, 2.2e-4, 1e-2, 0.25, 0.5, 0.92, 0.94, 0.96, 0.98, 0.99, 1.0, 1.0101010101010102, 1.0204081632653061,
                                   1.0416666666666667, 1.0638297872340425, 1.0927835051546393, 1.1041666666666667, 2.0, 4.0, 100.0, 1000.0};
   static const double PBOUNDS[] = {-2.0, -1.0, -0.5, 0.5, 1.0, 2.0, PI / 2, PI, 3 * PI / 2, 2 * PI, 1e-8};
   if (a.worker == 0 && a.only < 0) { o.cur = -1; exact_points(); }
   for (long i = a.first(); i < a.last(); ++i) {
      o.cur = i;
      vh::Rng r(a.seed, a.worker, i);
      ++o.evaluations; ++o.conclusive;
      const int sel = r.range(NFN + 2);
      if (sel >= NFN) { complex_dilog(r); continue; }
      const Fn& fn = FNS[sel];
      const int kind = r.range(20);
      if (kind == 0) { negatives(fn, r); continue; }
      if (kind <= 2) {
         if (fn.id >= MPREF_dilog) ladder(fn, PBOUNDS[r.range(sizeof(PBOUNDS) / sizeof(*PBOUNDS))] * (fn.id == MPREF_Cl2 && r.chance(0.3) ? -1 : 1), r);
         else ladder(fn, BOUNDS[r.range(sizeof(BOUNDS) / sizeof(*BOUNDS))], r);
         continue;
      }
      const double x = fn.id >= MPREF_dilog ? gen_poly(fn, r, r.range(6)) : gen_x(fn, r, r.range(9));
      const double e = observe(fn, x, "random");
      if (i < 3) { J s; s.str("fn", fn.name).d("x", x).d("err", e); o.sample(s); }
   }
   o.finish();
   return 0;
}
