// C09: equivalent THDM Yukawa parametrisations give the same results; ignored parameters have no influence.
#include "gen.hpp"
#include "thdm_terms.hpp"
#include "gm2calc/gm2_1loop.hpp"
#include "gm2calc/gm2_2loop.hpp"
#include "gm2calc/gm2_uncertainty.hpp"

using namespace gm2calc;
using vh::J;
typedef Eigen::Matrix<std::complex<double>, 3, 3> CM;
static vh::Out* out;

struct Res {
   double a1, aF, aB, a2, u0, u1, u2, s1, sF, sB;
   CM y[12];
};
static Res observe(const THDM& m) {
   Res r;
   r.a1 = calculate_amu_1loop(m); r.aF = calculate_amu_2loop_fermionic(m); r.aB = calculate_amu_2loop_bosonic(m); r.a2 = calculate_amu_2loop(m);
   r.u0 = calculate_uncertainty_amu_0loop(m); r.u1 = calculate_uncertainty_amu_1loop(m); r.u2 = calculate_uncertainty_amu_2loop(m);
   r.s1 = tt::oneloop_terms(tt::fill_1L(m)).sabs;
   tt::Sum n, c; tt::fermionic_terms(tt::fill_F(m), n, c); r.sF = n.sabs + c.sabs;
   const auto pb = tt::fill_B(m);
   r.sB = std::fabs(thdm::amu2L_B_EWadd(pb)) + std::fabs(thdm::amu2L_B_nonYuk(pb)) + std::fabs(thdm::amu2L_B_Yuk(pb));
   const CM ys[12] = {m.get_yuh(), m.get_yuH(), m.get_yuA(), m.get_yuHp(), m.get_ydh(), m.get_ydH(), m.get_ydA(), m.get_ydHp(), m.get_ylh(), m.get_ylH(), m.get_ylA(), m.get_ylHp()};
   for (int i = 0; i < 12; ++i) r.y[i] = ys[i];
   return r;
}
static const char* YN[12] = {"yuh", "yuH", "yuA", "yuHp", "ydh", "ydH", "ydA", "ydHp", "ylh", "ylH", "ylA", "ylHp"};

static void cmp(const std::string& rel, const std::string& q, const std::string& cell, double a, double b, double scale, double tol, const J& c) {
   double e = vh::same_bits(a, b) ? 0 : std::fabs(a - b) / std::max({std::fabs(a), std::fabs(b), scale, 1e-300});
   if (std::isnan(a) != std::isnan(b) || (!std::isfinite(a) && !vh::same_bits(a, b))) e = std::numeric_limits<double>::quiet_NaN();
   J w = c; w.str("relation", rel).str("quantity", q).d("a", a).d("b", b).d("scale", scale).d("err", e);
   out->cell(rel + "|" + q + "|" + cell, tol > 0 ? e / tol : e, &w);
   if (!(e <= tol)) out->fail("C09:" + rel + ":" + q, rel + ": " + q + " differs: " + vh::num(a) + " vs " + vh::num(b) + " (" + vh::num(e) + " on scale, tol " + vh::num(tol) + ")", w);
}
static void cmp_all(const std::string& rel, const std::string& cell, const Res& x, const Res& y, double tol, double tolF, bool with_bosonic, bool with_yukawas, const J& c) {
   const double s1 = std::max(x.s1, y.s1), sF = std::max(x.sF, y.sF), sB = std::max(x.sB, y.sB);
   cmp(rel, "amu1L", cell, x.a1, y.a1, s1, tol, c);
   cmp(rel, "amu2L_fermionic", cell, x.aF, y.aF, sF, tolF, c);
   if (with_bosonic) {
      cmp(rel, "amu2L_bosonic", cell, x.aB, y.aB, sB, tol, c);
      cmp(rel, "amu2L", cell, x.a2, y.a2, sF + sB, tolF, c);
      cmp(rel, "uncertainty0", cell, x.u0, y.u0, s1 + sF + sB, tolF, c); cmp(rel, "uncertainty1", cell, x.u1, y.u1, sF + sB, tolF, c); cmp(rel, "uncertainty2", cell, x.u2, y.u2, 0.05 * (s1 + sF + sB), tolF, c);
   }
   if (with_yukawas) for (int k = 0; k < 12; ++k) {
      // scale: the largest entry among the four coupling matrices (h, H, A, H+) of the same fermion type - y^h_f = (s_ba + c_ba zeta_f) m_f/v can cancel
      // to 1e-6 of its terms (alpha ~ 0), and its rounding error is that of the terms
      double sc = 0; for (int q = 4 * (k / 4); q < 4 * (k / 4) + 4; ++q) sc = std::max({sc, x.y[q].cwiseAbs().maxCoeff(), y.y[q].cwiseAbs().maxCoeff()});
      double e = (x.y[k] - y.y[k]).cwiseAbs().maxCoeff() / std::max(sc, 1e-300);
      if (!(x.y[k].allFinite() && y.y[k].allFinite())) e = std::numeric_limits<double>::quiet_NaN();
      J w = c; w.str("relation", rel).str("quantity", YN[k]).d("err", e);
      out->cell(rel + "|" + YN[k] + "|" + cell, e / tol, &w);
      if (!(e <= tol)) out->fail("C09:" + rel + ":yukawa-getter", rel + ": " + YN[k] + " differs by " + vh::num(e) + " of the largest entry of its fermion type", w);
   }
}
static bool bit_identical(const Res& x, const Res& y) {
   const double* a = &x.a1; const double* b = &y.a1;
   for (int i = 0; i < 7; ++i) if (!vh::same_bits(a[i], b[i])) return false;
   for (int k = 0; k < 12; ++k) for (int i = 0; i < 9; ++i) if (!vh::same_bits(x.y[k].data()[i].real(), y.y[k].data()[i].real()) || !vh::same_bits(x.y[k].data()[i].imag(), y.y[k].data()[i].imag())) return false;
   return true;
}

// the same model entered through the other constructor: gauge basis with the lambda_1..7 the mass-basis model reports and the same Yukawa-sector input
static thdm::Gauge_basis to_gauge(const THDM& m, const thdm::Mass_basis& b) {
   thdm::Gauge_basis g; g.yukawa_type = b.yukawa_type;
   g.lambda << m.get_lambda1(), m.get_lambda2(), m.get_lambda3(), m.get_lambda4(), m.get_lambda5(), m.get_lambda6(), m.get_lambda7();
   g.tan_beta = b.tan_beta; g.m122 = b.m122; g.zeta_u = b.zeta_u; g.zeta_d = b.zeta_d; g.zeta_l = b.zeta_l;
   g.Delta_u = b.Delta_u; g.Delta_d = b.Delta_d; g.Delta_l = b.Delta_l; g.Pi_u = b.Pi_u; g.Pi_d = b.Pi_d; g.Pi_l = b.Pi_l;
   return g;
}

int main(int argc, char** argv) {
   vh::Args a(argc, argv);
   vh::Out o(a); out = &o;
   // One-loop, bosonic two-loop and the Yukawa getters: 1e-10 / 1e-9 on scale (observed <= 4e-12 on 6e5 pairs).
   // Fermionic two-loop: equivalent parametrisations reach the Barr-Zee functions with fermion masses that differ in the last bits
   // (different mass matrices through the SVD); those functions respond with up to 3.2e-7 of the term sum where they are least accurate
   // (light H+ ~ 10 GeV: x_t ~ 250; mH+ within 1e-5 of MW: 1e-8-shift derivative) - within their own accuracy (C02: 1e-6 per function).
   // TOL_F = 30 x the worst deviation seen on 6e5 pairs.
   const double TOL_A = a.getd("tola", 1e-10), TOL_B = a.getd("tolb", 1e-9), TOL_F = a.getd("tolf", 1e-5);
   gen::CerrCapture cap;
   for (long i = a.first(); i < a.last(); ++i) {
      o.cur = i;
      vh::Rng r(a.seed, a.worker, i);
      ++o.evaluations;
      gen::ThdmOpts op; op.zeta = 100; op.delta = 1; op.pi = 1;
      thdm::Mass_basis b = gen::rand_mass_basis(r, op);
      if (r.chance(0.5)) { b.mh = r.LU(10, 300); b.mH = r.LU(b.mh, 1e4); }
      SM sm = gen::rand_sm(r);
      thdm::Config cfg; cfg.running_couplings = r.chance(0.5);
      const double tb = b.tan_beta;
      const std::string runs = cfg.running_couplings ? "run" : "norun";
      const int rel = static_cast<int>(i % 3);
      try {
         if (rel == 0) {
            // (a) type I, II, X, Y  ==  aligned with the zeta_f of Table 1
            const int ty = 1 + r.range(4);
            b.yukawa_type = static_cast<thdm::Yukawa_type>(ty);
            // Delta_f is documented as used by types 1-5: with the same Delta_f on both sides the relation holds as well (half of the cases; the other half Delta_f = 0)
            const bool withDelta = r.chance(0.5);
            if (!withDelta) { b.Delta_u.setZero(); b.Delta_d.setZero(); b.Delta_l.setZero(); }
            thdm::Mass_basis al = b; al.yukawa_type = thdm::Yukawa_type::aligned;
            al.zeta_u = 1 / tb; al.zeta_d = (ty == 1 || ty == 3) ? 1 / tb : -tb; al.zeta_l = (ty == 1 || ty == 4) ? 1 / tb : -tb;
            J c = gen::json(b); c.i("running", cfg.running_couplings).str("relation", "type-vs-aligned");
            THDM A(b, sm, cfg), B(al, sm, cfg);
            ++o.conclusive;
            cmp_all("type-vs-aligned", "type" + std::to_string(ty) + "|" + runs + (withDelta ? "|Delta_f!=0" : "|Delta_f=0"), observe(A), observe(B), TOL_A, TOL_F, true, true, c);
            // the same relation with both models entered through the gauge-basis constructor, and the aligned model in both bases
            // (the gauge-basis model recomputes the heavy masses from lambda_i: agreement to their conditioning, 1e-7 on the term sums)
            if (i % 2 == 0) { try { THDM GA(to_gauge(A, b), sm, cfg), GB(to_gauge(B, al), sm, cfg);
               cmp_all("type-vs-aligned(gauge basis)", "type" + std::to_string(ty) + "|" + runs + (withDelta ? "|Delta_f!=0" : "|Delta_f=0"), observe(GA), observe(GB), 1e-7, TOL_F, true, true, c);
               cmp_all("mass-basis-vs-gauge-basis", std::string("aligned|") + runs, observe(B), observe(GB), 1e-7, TOL_F, true, true, c); } catch (const Error&) { o.count("gauge-basis rebuild rejected"); } }
            o.sample(c, 1);
         } else if (rel == 1) {
            // (b) running off: aligned(zeta_f, Delta_f)  ==  general with Pi_f = cos(beta) (sqrt2 M_f (zeta_f + tan beta)/v + Delta_f)
            cfg.running_couplings = false;
            thdm::Mass_basis al = b; al.yukawa_type = thdm::Yukawa_type::aligned;
            for (double* z : {&al.zeta_u, &al.zeta_d, &al.zeta_l}) if (std::fabs(tb * *z - 1) < 1e-3) *z *= 1.01;   // pole of xi(zeta)
            thdm::Mass_basis ge = al; ge.yukawa_type = thdm::Yukawa_type::general;
            const double cb = 1 / std::sqrt(1 + tb * tb), v = sm.get_v();
            const Eigen::Matrix<double, 3, 3> mu = sm.get_mu().asDiagonal(), md = sm.get_md().asDiagonal(), ml = sm.get_ml().asDiagonal();
            ge.Pi_u = cb * (std::sqrt(2.0) * mu / v * (al.zeta_u + tb) + al.Delta_u); ge.Pi_d = cb * (std::sqrt(2.0) * md / v * (al.zeta_d + tb) + al.Delta_d); ge.Pi_l = cb * (std::sqrt(2.0) * ml / v * (al.zeta_l + tb) + al.Delta_l);
            ge.Delta_u = gen::rand33(r, 1); ge.Delta_d = gen::rand33(r, 1); ge.Delta_l = gen::rand33(r, 1);   // ignored in the general type
            J c = gen::json(al); c.i("running", 0).str("relation", "aligned-vs-general");
            THDM A(al, sm, cfg), G(ge, sm, cfg);
            ++o.conclusive;
            cmp_all("aligned-vs-general", "norun", observe(A), observe(G), TOL_B, TOL_F, false, false, c);
            if (i % 2 == 0) { try { THDM GA(to_gauge(A, al), sm, cfg), GG(to_gauge(G, ge), sm, cfg);
               cmp_all("aligned-vs-general(gauge basis)", "norun", observe(GA), observe(GG), 1e-7, TOL_F, false, false, c);
               cmp_all("mass-basis-vs-gauge-basis", "general|norun", observe(G), observe(GG), 1e-7, TOL_F, true, true, c); } catch (const Error&) { o.count("gauge-basis rebuild rejected"); } }
            o.sample(c, 1);
         } else {
            // (c) parameters documented as ignored do not influence any result (bit-identical)
            const int ty = 1 + r.range(6);
            b.yukawa_type = static_cast<thdm::Yukawa_type>(ty);
            thdm::Mass_basis e2 = b; std::string what;
            if (ty <= 4) { e2.zeta_u = r.U(-100, 100); e2.zeta_d = r.U(-100, 100); e2.zeta_l = r.U(-100, 100); e2.Pi_u = gen::rand33(r, 1); e2.Pi_d = gen::rand33(r, 1); e2.Pi_l = gen::rand33(r, 1); what = "zeta,Pi-in-type1..Y"; }
            else if (ty == 5) { e2.Pi_u = gen::rand33(r, 1); e2.Pi_d = gen::rand33(r, 1); e2.Pi_l = gen::rand33(r, 1); what = "Pi-in-aligned"; }
            else { e2.zeta_u = r.U(-100, 100); e2.zeta_d = r.U(-100, 100); e2.zeta_l = r.U(-100, 100); e2.Delta_u = gen::rand33(r, 1); e2.Delta_d = gen::rand33(r, 1); e2.Delta_l = gen::rand33(r, 1); what = "zeta,Delta-in-general"; }
            J c = gen::json(b); c.i("running", cfg.running_couplings).str("relation", "ignored-parameters").str("changed", what);
            THDM A(b, sm, cfg), B(e2, sm, cfg);
            ++o.conclusive;
            const bool same = bit_identical(observe(A), observe(B));
            o.cell("ignored-parameters|" + what + "|" + runs, same ? 0 : 1, &c);
            if (!same) o.fail("C09:ignored-parameter-influences-result:" + what, "changing " + what + " changes a result or a Yukawa getter", c);
         }
      } catch (const Error& e) { ++o.inconclusive; o.count("thdm-rejected"); }
   }
   o.finish();
   return 0;
}
