// C17: the C interface mirrors the C++ interface and is exception-tight.
// Random histories of up to 40 C-API calls on an MSSM handle (and THDM handles), every call mirrored on a C++ object;
// observed: return values (bit-for-bit), error codes vs exception classes, escaping exceptions, writes beyond the given
// buffer length (exact-size heap buffers under ASan), NULL frees.  The sanitizer build supplies the memory oracle.
#include <cstdint>
#include "vh.hpp"
#include "gm2calc/MSSMNoFV_onshell.hpp"
#include "gm2calc/THDM.hpp"
#include "gm2calc/SM.hpp"
#include "gm2calc/gm2_1loop.hpp"
#include "gm2calc/gm2_2loop.hpp"
#include "gm2calc/gm2_uncertainty.hpp"
#include "gm2calc/gm2_error.hpp"
#include "gm2_uncertainty_helpers.hpp"
extern "C" {
#include "gm2calc/MSSMNoFV_onshell.h"
#include "gm2calc/THDM.h"
#include "gm2calc/SM.h"
#include "gm2calc/gm2_1loop.h"
#include "gm2calc/gm2_2loop.h"
#include "gm2calc/gm2_uncertainty.h"
#include "gm2calc/gm2_error.h"
#include "gm2_uncertainty_helpers.h"
}
#include <functional>
#include <iostream>
#include <sstream>

typedef gm2calc::MSSMNoFV_onshell Cpp;
typedef ::MSSMNoFV_onshell CH;
using vh::J;
static vh::Out* out;
static std::string history;   // textual record of the current history (goes into the replay file)

static double hostile(vh::Rng& r) {
   const double u = r.u01();
   if (u < 0.03) return std::numeric_limits<double>::quiet_NaN();
   if (u < 0.06) return INFINITY; if (u < 0.08) return -INFINITY; if (u < 0.12) return 0.0; if (u < 0.15) return -0.0; if (u < 0.2) return 1e300;
   if (u < 0.25) return -r.LU(1e-3, 1e6);
   const double x = r.LU(1e-3, 1e5); return r.chance(0.3) ? -x : x;
}
static void note(const std::string& s) { if (history.size() < 6000) history += s + "; "; }
static J casej() { J c; c.str("history", history); return c; }
static void failure(const std::string& key, const std::string& what) { out->fail(key, what, casej()); }

static const char* code_name(gm2calc_error e) { return e == gm2calc_NoError ? "NoError" : e == gm2calc_InvalidInput ? "InvalidInput" : e == gm2calc_PhysicalProblem ? "PhysicalProblem" : "UnknownError"; }
static std::string expect_code(const std::function<void()>& f) {
   try { f(); } catch (const gm2calc::EInvalidInput&) { return "InvalidInput"; } catch (const gm2calc::EPhysicalProblem&) { return "PhysicalProblem"; } catch (...) { return "UnknownError"; }
   return "NoError";
}
// C++ value or NaN if it throws
static double cppval(const std::function<double()>& f, bool& threw) { threw = false; try { return f(); } catch (...) { threw = true; return std::numeric_limits<double>::quiet_NaN(); } }
// guarded C call: nothing may escape
template <class F> static bool guarded(const char* fn, F f) {
   try { f(); return true; } catch (const std::exception& e) { failure(std::string("C17:exception-escaped:") + fn, std::string(fn) + " let a C++ exception escape: " + e.what()); }
   catch (...) { failure(std::string("C17:exception-escaped:") + fn, std::string(fn) + " let an unknown exception escape"); }
   return false;
}
static void same(const char* fn, double c, double cpp) {
   out->cell(std::string("MSSM|value|") + fn, vh::same_bits(c, cpp) ? 0 : 1);
   if (!vh::same_bits(c, cpp)) failure(std::string("C17:value-differs:") + fn, std::string(fn) + ": C returns " + vh::num(c) + ", C++ counterpart " + vh::num(cpp));
}

struct G0 { const char* n; double (*c)(const CH*); std::function<double(const Cpp&)> cpp; };
struct G1 { const char* n; double (*c)(const CH*, unsigned); std::function<double(const Cpp&, unsigned)> cpp; unsigned dim; };
struct G2 { const char* n; double (*c)(const CH*, unsigned, unsigned); std::function<double(const Cpp&, unsigned, unsigned)> cpp; unsigned dim; };
struct S0 { const char* n; void (*c)(CH*, double); std::function<void(Cpp&, double)> cpp; const char* getter; };
struct S1 { const char* n; void (*c)(CH*, unsigned, double); std::function<void(Cpp&, unsigned, double)> cpp; unsigned dim; };
struct S2 { const char* n; void (*c)(CH*, unsigned, unsigned, double); std::function<void(Cpp&, unsigned, unsigned, double)> cpp; };
struct A0 { const char* n; double (*c)(const CH*); std::function<double(const Cpp&)> cpp; };

#define G(name, expr) {#name, gm2calc_mssmnofv_get_##name, [](const Cpp& m) { return expr; }}
static const std::vector<G0> g0 = {G(EL, m.get_EL()), G(EL0, m.get_EL0()), G(gY, m.get_gY()), G(g1, m.get_g1()), G(g2, m.get_g2()), G(g3, m.get_g3()), G(TB, m.get_TB()), G(MassB, m.get_MassB()), G(MassWB, m.get_MassWB()), G(MassG, m.get_MassG()),
   G(Mu, m.get_Mu()), G(vev, m.get_vev()), G(scale, m.get_scale()), G(MW, m.get_MW()), G(MZ, m.get_MZ()), G(ME, m.get_ME()), G(MM, m.get_MM()), G(ML, m.get_ML()), G(MU, m.get_MU()), G(MC, m.get_MC()), G(MT, m.get_MT()), G(MD, m.get_MD()), G(MS, m.get_MS()),
   G(MB, m.get_MB()), G(MBMB, m.get_MBMB()), G(MAh, m.get_MAh(1)), G(MSveL, m.get_MSveL()), G(MSvmL, m.get_MSvmL()), G(MSvtL, m.get_MSvtL())};
#undef G
#define G(name, expr, dim) {#name, gm2calc_mssmnofv_get_##name, [](const Cpp& m, unsigned i) { return expr; }, dim}
static const std::vector<G1> g1 = {G(Mhh, m.get_Mhh(i), 2), G(MCha, m.get_MCha(i), 2), G(MChi, m.get_MChi(i), 4), G(MSe, m.get_MSe(i), 2), G(MSm, m.get_MSm(i), 2), G(MStau, m.get_MStau(i), 2), G(MSu, m.get_MSu(i), 2), G(MSd, m.get_MSd(i), 2),
   G(MSc, m.get_MSc(i), 2), G(MSs, m.get_MSs(i), 2), G(MSt, m.get_MSt(i), 2), G(MSb, m.get_MSb(i), 2)};
#undef G
#define G(name, expr, dim) {#name, gm2calc_mssmnofv_get_##name, [](const Cpp& m, unsigned i, unsigned k) { return expr; }, dim}
static const std::vector<G2> g2 = {G(Ae, m.get_Ae(i, k), 3), G(Ad, m.get_Ad(i, k), 3), G(Au, m.get_Au(i, k), 3), G(mq2, m.get_mq2(i, k), 3), G(md2, m.get_md2(i, k), 3), G(mu2, m.get_mu2(i, k), 3), G(ml2, m.get_ml2(i, k), 3), G(me2, m.get_me2(i, k), 3),
   G(USe, m.get_ZE(i, k), 2), G(USm, m.get_ZM(i, k), 2), G(UStau, m.get_ZTau(i, k), 2), G(USu, m.get_ZU(i, k), 2), G(USd, m.get_ZD(i, k), 2), G(USc, m.get_ZC(i, k), 2), G(USs, m.get_ZS(i, k), 2), G(USt, m.get_ZT(i, k), 2), G(USb, m.get_ZB(i, k), 2),
   G(Ye, m.get_Ye(i, k), 3), G(Yd, m.get_Yd(i, k), 3), G(Yu, m.get_Yu(i, k), 3)};
#undef G
#define S(name, stmt, getter) {#name, gm2calc_mssmnofv_set_##name, [](Cpp& m, double v) { stmt; }, getter}
static const std::vector<S0> s0 = {S(alpha_MZ, m.set_alpha_MZ(v), nullptr), S(alpha_thompson, m.set_alpha_thompson(v), nullptr), S(g3, m.set_g3(v), "g3"), S(MassB, m.set_MassB(v), "MassB"), S(MassWB, m.set_MassWB(v), "MassWB"), S(MassG, m.set_MassG(v), "MassG"),
   S(Mu, m.set_Mu(v), "Mu"), S(TB, m.set_TB(v), nullptr), S(scale, m.set_scale(v), "scale"), S(MAh_pole, m.set_MA0(v), nullptr), S(MZ_pole, m.get_physical().MVZ = v, "MZ"), S(MW_pole, m.get_physical().MVWm = v, "MW"),
   S(MT_pole, m.get_physical().MFt = v, "MT"), S(MB_running, m.get_physical().MFb = v, "MBMB"), S(ML_pole, m.get_physical().MFtau = v, "ML"), S(MM_pole, m.get_physical().MFm = v, "MM"), S(MSvmL_pole, m.get_physical().MSvmL = v, nullptr)};
#undef S
#define S(name, stmt, dim) {#name, gm2calc_mssmnofv_set_##name, [](Cpp& m, unsigned i, double v) { stmt; }, dim}
static const std::vector<S1> s1 = {S(MSm_pole, m.get_physical().MSm(i) = v, 2), S(MCha_pole, m.get_physical().MCha(i) = v, 2), S(MChi_pole, m.get_physical().MChi(i) = v, 4)};
#undef S
#define S(name, method) {#name, gm2calc_mssmnofv_set_##name, [](Cpp& m, unsigned i, unsigned k, double v) { m.method(i, k, v); }}
static const std::vector<S2> s2 = {S(Ae, set_Ae), S(Au, set_Au), S(Ad, set_Ad), S(mq2, set_mq2), S(mu2, set_mu2), S(md2, set_md2), S(ml2, set_ml2), S(me2, set_me2)};
#undef S
#define A(cname, expr) {#cname, gm2calc_mssmnofv_##cname, [](const Cpp& m) { return expr; }}
static const std::vector<A0> a0 = {A(calculate_amu_1loop, gm2calc::calculate_amu_1loop(m)), A(calculate_amu_1loop_non_tan_beta_resummed, gm2calc::calculate_amu_1loop_non_tan_beta_resummed(m)), A(amu1LChi0, gm2calc::amu1LChi0(m)),
   A(amu1LChipm, gm2calc::amu1LChipm(m)), A(calculate_amu_2loop, gm2calc::calculate_amu_2loop(m)), A(calculate_amu_2loop_non_tan_beta_resummed, gm2calc::calculate_amu_2loop_non_tan_beta_resummed(m)),
   A(amu2LFSfapprox, gm2calc::amu2LFSfapprox(m)), A(amu2LFSfapprox_non_tan_beta_resummed, gm2calc::amu2LFSfapprox_non_tan_beta_resummed(m)), A(amu2LChipmPhotonic, gm2calc::amu2LChipmPhotonic(m)),
   A(amu2LChi0Photonic, gm2calc::amu2LChi0Photonic(m)), A(amu2LaSferm, gm2calc::amu2LaSferm(m)), A(amu2LaCha, gm2calc::amu2LaCha(m)), A(calculate_uncertainty_amu_0loop, gm2calc::calculate_uncertainty_amu_0loop(m)),
   A(calculate_uncertainty_amu_1loop, gm2calc::calculate_uncertainty_amu_1loop(m)), A(calculate_uncertainty_amu_2loop, gm2calc::calculate_uncertainty_amu_2loop(m))};
#undef A

static void compare_all_getters(CH* h, const Cpp& m, vh::Rng& r, bool all) {
   for (const G0& g : g0) if (all || r.chance(0.1)) { double cv = 0; bool t; const double pv = cppval([&] { return g.cpp(m); }, t); if (guarded(g.n, [&] { cv = g.c(h); })) same((std::string("get_") + g.n).c_str(), cv, pv); }
   for (const G1& g : g1) for (unsigned i = 0; i < g.dim; ++i) if (all || r.chance(0.05)) { double cv = 0; bool t; const double pv = cppval([&] { return g.cpp(m, i); }, t); if (guarded(g.n, [&] { cv = g.c(h, i); })) same((std::string("get_") + g.n).c_str(), cv, pv); }
   for (const G2& g : g2) for (unsigned i = 0; i < g.dim; ++i) for (unsigned k = 0; k < g.dim; ++k) if (all || r.chance(0.03)) { double cv = 0; bool t; const double pv = cppval([&] { return g.cpp(m, i, k); }, t); if (guarded(g.n, [&] { cv = g.c(h, i, k); })) same((std::string("get_") + g.n).c_str(), cv, pv); }
   if (all || r.chance(0.2)) {
      for (unsigned i = 0; i < 2; ++i) for (unsigned k = 0; k < 2; ++k) { double im = 0, re = 0; if (guarded("get_UM", [&] { re = gm2calc_mssmnofv_get_UM(h, i, k, &im); })) { same("get_UM.re", re, m.get_UM(i, k).real()); same("get_UM.im", im, m.get_UM(i, k).imag()); }
         if (guarded("get_UP", [&] { re = gm2calc_mssmnofv_get_UP(h, i, k, &im); })) { same("get_UP.re", re, m.get_UP(i, k).real()); same("get_UP.im", im, m.get_UP(i, k).imag()); } }
      for (unsigned i = 0; i < 4; ++i) for (unsigned k = 0; k < 4; ++k) { double im = 0, re = 0; if (guarded("get_ZN", [&] { re = gm2calc_mssmnofv_get_ZN(h, i, k, &im); })) { same("get_ZN.re", re, m.get_ZN(i, k).real()); same("get_ZN.im", im, m.get_ZN(i, k).imag()); } }
      // the imaginary-part pointer may be NULL
      guarded("get_ZN(NULL)", [&] { (void)gm2calc_mssmnofv_get_ZN(h, 0, 0, nullptr); (void)gm2calc_mssmnofv_get_UM(h, 0, 0, nullptr); (void)gm2calc_mssmnofv_get_UP(h, 0, 0, nullptr); });
   }
}

static void string_getters(CH* h, Cpp& m, vh::Rng& r) {
   const unsigned len = static_cast<unsigned>(r.range(65));
   const bool prob = r.chance(0.5);
   char* buf = static_cast<char*>(std::malloc(len ? len : 1));   // exact size (1 byte guard object for len 0: nothing may be written)
   if (len == 0) buf[0] = 'X'; else std::memset(buf, 'X', len);
   note(std::string(prob ? "get_problems" : "get_warnings") + "(len=" + std::to_string(len) + ")");
   const bool okc = guarded(prob ? "get_problems" : "get_warnings", [&] { if (prob) gm2calc_mssmnofv_get_problems(h, buf, len); else gm2calc_mssmnofv_get_warnings(h, buf, len); });
   const std::string full = prob ? m.get_problems().get_problems() : m.get_problems().get_warnings();
   out->cell(std::string("MSSM|string-getter|len") + (len == 0 ? "0" : (len < 8 ? "1-7" : "8-64")), 0);
   if (okc) {
      if (len == 0) { if (buf[0] != 'X') failure("C17:string-getter:write-with-len-0", "string getter wrote although the buffer length is 0"); }
      else {
         const size_t n = strnlen(buf, len);
         if (n >= len) failure("C17:string-getter:unterminated", "string getter left the buffer unterminated (len=" + std::to_string(len) + ")");
         else if (full.compare(0, n, buf, n) != 0 || n != std::min<size_t>(full.size(), len - 1)) failure("C17:string-getter:content", "string getter content differs from the C++ message prefix");
      }
   }
   std::free(buf);
   guarded("get_problems(NULL)", [&] { gm2calc_mssmnofv_get_problems(h, nullptr, len); gm2calc_mssmnofv_get_warnings(h, nullptr, len); });
   int hp = 0, hw = 0;
   if (guarded("have_problem", [&] { hp = gm2calc_mssmnofv_have_problem(h); hw = gm2calc_mssmnofv_have_warning(h); })) {
      if ((hp != 0) != m.get_problems().have_problem() || (hw != 0) != m.get_problems().have_warning()) failure("C17:value-differs:have_problem", "have_problem/have_warning differ from the C++ object");
   }
}

static void mssm_history(vh::Rng& r) {
   history.clear();
   CH* h = gm2calc_mssmnofv_new(); Cpp m;
   const bool sane = r.chance(0.7);   // ~30% of histories start calculating on a fresh, uninitialised handle
   if (sane) {
      note("sane-start");
      auto both0 = [&](const S0& s, double v) { s.c(h, v); s.cpp(m, v); };
      for (const S0& s : s0) { const std::string n = s.n; if (n == "TB") both0(s, r.LU(2, 50)); else if (n == "Mu") both0(s, r.sign() * r.LU(100, 2000)); else if (n == "MassB") both0(s, r.sign() * r.LU(100, 2000)); else if (n == "MassWB") both0(s, r.sign() * r.LU(100, 2000));
         else if (n == "MassG") both0(s, r.LU(500, 3000)); else if (n == "MAh_pole") both0(s, r.LU(300, 3000)); else if (n == "scale") both0(s, r.LU(300, 2000)); }
      for (const S2& s : s2) for (unsigned i = 0; i < 3; ++i) { const std::string n = s.n; const double v = (n[0] == 'A') ? r.U(-500, 500) : std::pow(r.LU(200, 3000), 2); s.c(h, i, i, v); s.cpp(m, i, i, v); }
   } else note("fresh-handle");
   const int nops = 1 + r.range(40);
   out->count("mssm-history-length", nops);
   for (int o = 0; o < nops; ++o) {
      const int kind = r.range(12);
      if (kind < 4) {
         const int w = r.range(static_cast<int>(s0.size() + s1.size() + s2.size()));
         const double v = sane && r.chance(0.6) ? r.LU(1, 3000) : hostile(r);
         if (w < static_cast<int>(s0.size())) { const S0& s = s0[w]; note(std::string("set_") + s.n + "(" + vh::num(v) + ")"); if (guarded(s.n, [&] { s.c(h, v); })) { try { s.cpp(m, v); } catch (...) {}
               if (s.getter) for (const G0& g : g0) if (std::string(g.n) == s.getter) { double gv = 0; if (guarded(g.n, [&] { gv = g.c(h); })) { out->cell(std::string("MSSM|set-then-get|") + s.n, vh::same_bits(gv, v) ? 0 : 1); if (!vh::same_bits(gv, v)) failure(std::string("C17:set-then-get:") + s.n, std::string("set_") + s.n + "(" + vh::num(v) + ") then get_" + g.n + " returns " + vh::num(gv)); } } } }
         else if (w < static_cast<int>(s0.size() + s1.size())) { const S1& s = s1[w - s0.size()]; const unsigned i = r.range(s.dim); note(std::string("set_") + s.n + "(" + std::to_string(i) + "," + vh::num(v) + ")"); if (guarded(s.n, [&] { s.c(h, i, v); })) s.cpp(m, i, v); }
         else { const S2& s = s2[w - s0.size() - s1.size()]; const unsigned i = r.range(3), k = r.range(3); note(std::string("set_") + s.n + "(" + std::to_string(i) + "," + std::to_string(k) + "," + vh::num(v) + ")");
            if (guarded(s.n, [&] { s.c(h, i, k, v); })) { s.cpp(m, i, k, v);
               for (const G2& g : g2) if (std::string(g.n) == s.n) { double gv = 0; if (guarded(g.n, [&] { gv = g.c(h, i, k); })) { out->cell(std::string("MSSM|set-then-get|") + s.n, vh::same_bits(gv, v) ? 0 : 1); if (!vh::same_bits(gv, v)) failure(std::string("C17:set-then-get:") + s.n, std::string("set_") + s.n + " then get returns " + vh::num(gv) + " instead of " + vh::num(v)); } } } }
      } else if (kind < 6) { compare_all_getters(h, m, r, false); }
      else if (kind == 6) {
         const int w = r.range(3);
         gm2calc_error e = gm2calc_NoError; std::string exp;
         const double prec = std::pow(10.0, r.U(-10, -4)); const unsigned maxit = 1 + r.range(50);
         std::stringstream ss; std::streambuf* old = std::cerr.rdbuf(ss.rdbuf());
         if (w == 0) { note("calculate_masses"); if (guarded("calculate_masses", [&] { e = gm2calc_mssmnofv_calculate_masses(h); })) exp = expect_code([&] { m.calculate_masses(); }); }
         else if (w == 1) { note("convert_to_onshell"); if (guarded("convert_to_onshell", [&] { e = gm2calc_mssmnofv_convert_to_onshell(h); })) exp = expect_code([&] { m.convert_to_onshell(); }); }
         else { note("convert_to_onshell_params(" + vh::num(prec) + "," + std::to_string(maxit) + ")"); if (guarded("convert_to_onshell_params", [&] { e = gm2calc_mssmnofv_convert_to_onshell_params(h, prec, maxit); })) exp = expect_code([&] { m.convert_to_onshell(prec, maxit); }); }
         std::cerr.rdbuf(old);
         if (!exp.empty()) { out->cell(std::string("MSSM|error-code|") + exp, exp == code_name(e) ? 0 : 1); if (exp != code_name(e)) failure("C17:error-code", std::string("C returns ") + code_name(e) + " where the C++ call gives " + exp); }
         compare_all_getters(h, m, r, true);
      } else if (kind == 7) { string_getters(h, m, r); }
      else if (kind < 11) {
         const A0& f = a0[r.range(static_cast<int>(a0.size()))]; note(f.n);
         std::stringstream ss; std::streambuf* old = std::cerr.rdbuf(ss.rdbuf());
         double cv = 0; bool threw; const bool okc = guarded(f.n, [&] { cv = f.c(h); }); const double pv = cppval([&] { return f.cpp(m); }, threw);
         std::cerr.rdbuf(old);
         if (okc) { if (threw) { out->cell(std::string("MSSM|NaN-when-C++-throws|") + f.n, std::isnan(cv) ? 0 : 1); if (!std::isnan(cv)) failure(std::string("C17:not-NaN-when-cpp-throws:") + f.n, std::string(f.n) + " returns " + vh::num(cv) + " although the C++ counterpart throws"); } else same(f.n, cv, pv); }
      } else {
         const double x = hostile(r); note("uncertainty-overloads(" + vh::num(x) + ")");
         double c1 = 0, c2 = 0; bool t1, t2;
         if (guarded("uncertainty_amu_0loop_amu1L", [&] { c1 = gm2calc_mssmnofv_calculate_uncertainty_amu_0loop_amu1L(h, x); })) { const double p = cppval([&] { return gm2calc::calculate_uncertainty_amu_0loop(m, x); }, t1); if (t1 ? !std::isnan(c1) : !vh::same_bits(c1, p)) failure("C17:value-differs:uncertainty_amu_0loop_amu1L", "overload differs from C++"); }
         if (guarded("uncertainty_amu_1loop_amu2L", [&] { c2 = gm2calc_mssmnofv_calculate_uncertainty_amu_1loop_amu2L(h, x); })) { const double p = cppval([&] { return gm2calc::calculate_uncertainty_amu_1loop(m, x); }, t2); if (t2 ? !std::isnan(c2) : !vh::same_bits(c2, p)) failure("C17:value-differs:uncertainty_amu_1loop_amu2L", "overload differs from C++"); }
         out->cell("MSSM|value|uncertainty-overloads", 0);
      }
   }
   { std::stringstream ss; std::streambuf* old = std::cerr.rdbuf(ss.rdbuf()); note("print_mssmnofv"); guarded("print_mssmnofv", [&] { print_mssmnofv(h); }); std::cerr.rdbuf(old); }
   compare_all_getters(h, m, r, true);
   guarded("free", [&] { gm2calc_mssmnofv_free(h); });
   guarded("free(NULL)", [&] { gm2calc_mssmnofv_free(nullptr); });
}

// ------------------------------------------------------------------ THDM / SM
static void thdm_history(vh::Rng& r) {
   history.clear();
   gm2calc_SM csm; gm2calc_sm_set_to_default(&csm);
   { gm2calc::SM d;   // defaults mirror the C++ defaults
      bool ok = vh::same_bits(csm.alpha_em_0, d.get_alpha_em_0()) && vh::same_bits(csm.alpha_em_mz, d.get_alpha_em_mz()) && vh::same_bits(csm.alpha_s_mz, d.get_alpha_s_mz()) && vh::same_bits(csm.mh, d.get_mh()) && vh::same_bits(csm.mw, d.get_mw()) && vh::same_bits(csm.mz, d.get_mz());
      for (int i = 0; i < 3; ++i) { ok = ok && vh::same_bits(csm.mu[i], d.get_mu(i)) && vh::same_bits(csm.md[i], d.get_md(i)) && vh::same_bits(csm.ml[i], d.get_ml(i)) && vh::same_bits(csm.mv[i], d.get_mv(i));
         for (int k = 0; k < 3; ++k) ok = ok && vh::same_bits(csm.ckm_real[i][k], d.get_ckm(i, k).real()) && vh::same_bits(csm.ckm_imag[i][k], d.get_ckm(i, k).imag()); }
      out->cell("SM|defaults-mirror-C++", ok ? 0 : 1); if (!ok) failure("C17:SM:defaults", "gm2calc_sm_set_to_default differs from the C++ SM defaults"); }
   gm2calc::SM sm;
   if (r.chance(0.3)) { const double v = r.chance(0.5) ? hostile(r) : r.U(70, 95); csm.mw = v; sm.set_mw(v); note("sm.mw=" + vh::num(v)); }
   if (r.chance(0.2)) { const double v = hostile(r); csm.ml[1] = v; sm.set_ml(1, v); note("sm.ml[1]=" + vh::num(v)); }
   if (r.chance(0.2)) { const double v = hostile(r); csm.alpha_s_mz = v; sm.set_alpha_s_mz(v); note("sm.alpha_s=" + vh::num(v)); }
   gm2calc_THDM_config ccfg; gm2calc_thdm_config_set_to_default(&ccfg);
   { gm2calc::thdm::Config d; if ((ccfg.force_output != 0) != d.force_output || (ccfg.running_couplings != 0) != d.running_couplings) failure("C17:THDM:config-defaults", "gm2calc_thdm_config_set_to_default differs from the C++ defaults"); }
   gm2calc::thdm::Config cfg; cfg.force_output = r.chance(0.4); cfg.running_couplings = r.chance(0.5); ccfg.force_output = cfg.force_output; ccfg.running_couplings = cfg.running_couplings;
   const bool hostile_pt = r.chance(0.4);
   // out-of-range enum values: 0 and 7 are representable by the C enum in C++ (larger values would be undefined behaviour of the harness itself)
   static const int types[] = {1, 2, 3, 4, 5, 6, 0, 7, 0, 7};
   const int ty = hostile_pt ? types[r.range(10)] : 1 + r.range(6);
   auto val = [&](double lo, double hi, bool lg) { return hostile_pt && r.chance(0.3) ? hostile(r) : (lg ? r.LU(lo, hi) : r.U(lo, hi)); };
   // the caller's handle variable is not always zero before the call (re-used after a free, or never initialised): "if an error occurs, the model pointer will be set to 0"
   static gm2calc_THDM* const STALE = reinterpret_cast<gm2calc_THDM*>(static_cast<uintptr_t>(0x10));   // never dereferenced by the harness
   const bool stale_handle = r.chance(0.5);
   gm2calc_THDM* h = stale_handle ? STALE : nullptr; gm2calc_error e; std::string exp; gm2calc::THDM* pm = nullptr;
   std::stringstream ss; std::streambuf* old = std::cerr.rdbuf(ss.rdbuf());
   const bool mass = r.chance(0.6);
   if (mass) {
      gm2calc_THDM_mass_basis cb; std::memset(&cb, 0, sizeof cb); gm2calc::thdm::Mass_basis b;
      cb.yukawa_type = static_cast<gm2calc_THDM_yukawa_type>(ty); b.yukawa_type = static_cast<gm2calc::thdm::Yukawa_type>(ty);
      cb.mh = b.mh = val(50, 200, true); cb.mH = b.mH = val(200, 2000, true); cb.mA = b.mA = val(50, 2000, true); cb.mHp = b.mHp = val(80, 2000, true); cb.sin_beta_minus_alpha = b.sin_beta_minus_alpha = val(-1, 1, false);
      cb.lambda_6 = b.lambda_6 = val(-2, 2, false); cb.lambda_7 = b.lambda_7 = val(-2, 2, false); cb.tan_beta = b.tan_beta = val(0.3, 50, true); cb.m122 = b.m122 = val(-1e5, 1e5, false);
      cb.zeta_u = b.zeta_u = val(-2, 2, false); cb.zeta_d = b.zeta_d = val(-2, 2, false); cb.zeta_l = b.zeta_l = val(-2, 2, false);
      for (int i = 0; i < 3; ++i) for (int k = 0; k < 3; ++k) { cb.Delta_u[i][k] = b.Delta_u(i, k) = val(-1e-2, 1e-2, false); cb.Delta_d[i][k] = b.Delta_d(i, k) = val(-1e-2, 1e-2, false); cb.Delta_l[i][k] = b.Delta_l(i, k) = val(-1e-2, 1e-2, false);
         cb.Pi_u[i][k] = b.Pi_u(i, k) = val(-1e-2, 1e-2, false); cb.Pi_d[i][k] = b.Pi_d(i, k) = val(-1e-2, 1e-2, false); cb.Pi_l[i][k] = b.Pi_l(i, k) = val(-1e-2, 1e-2, false); }
      note("thdm_new_with_mass_basis(type=" + std::to_string(ty) + ",mh=" + vh::num(b.mh) + ",mH=" + vh::num(b.mH) + ",mA=" + vh::num(b.mA) + ",mHp=" + vh::num(b.mHp) + ",sba=" + vh::num(b.sin_beta_minus_alpha) + ",tb=" + vh::num(b.tan_beta) + ",force=" + std::to_string(cfg.force_output) + ")");
      if (!guarded("thdm_new_with_mass_basis", [&] { e = gm2calc_thdm_new_with_mass_basis(&h, &cb, &csm, &ccfg); })) { std::cerr.rdbuf(old); return; }
      exp = expect_code([&] { pm = new gm2calc::THDM(b, sm, cfg); });
   } else {
      gm2calc_THDM_gauge_basis cb; std::memset(&cb, 0, sizeof cb); gm2calc::thdm::Gauge_basis b;
      cb.yukawa_type = static_cast<gm2calc_THDM_yukawa_type>(ty); b.yukawa_type = static_cast<gm2calc::thdm::Yukawa_type>(ty);
      for (int i = 0; i < 7; ++i) cb.lambda[i] = b.lambda(i) = (i < 2 ? val(0.05, 2, false) : val(-2, 2, false));
      cb.tan_beta = b.tan_beta = val(0.3, 50, true); cb.m122 = b.m122 = val(1e3, 1e6, true); cb.zeta_u = b.zeta_u = val(-2, 2, false); cb.zeta_d = b.zeta_d = val(-2, 2, false); cb.zeta_l = b.zeta_l = val(-2, 2, false);
      for (int i = 0; i < 3; ++i) for (int k = 0; k < 3; ++k) { cb.Delta_u[i][k] = b.Delta_u(i, k) = val(-1e-2, 1e-2, false); cb.Delta_d[i][k] = b.Delta_d(i, k) = val(-1e-2, 1e-2, false); cb.Delta_l[i][k] = b.Delta_l(i, k) = val(-1e-2, 1e-2, false);
         cb.Pi_u[i][k] = b.Pi_u(i, k) = val(-1e-2, 1e-2, false); cb.Pi_d[i][k] = b.Pi_d(i, k) = val(-1e-2, 1e-2, false); cb.Pi_l[i][k] = b.Pi_l(i, k) = val(-1e-2, 1e-2, false); }
      note("thdm_new_with_gauge_basis(type=" + std::to_string(ty) + ",tb=" + vh::num(b.tan_beta) + ",m122=" + vh::num(b.m122) + ",force=" + std::to_string(cfg.force_output) + ")");
      if (!guarded("thdm_new_with_gauge_basis", [&] { e = gm2calc_thdm_new_with_gauge_basis(&h, &cb, &csm, &ccfg); })) { std::cerr.rdbuf(old); return; }
      exp = expect_code([&] { pm = new gm2calc::THDM(b, sm, cfg); });
   }
   out->cell(std::string("THDM|error-code|") + exp + (ty < 1 || ty > 6 ? "|enum-out-of-range" : ""), exp == code_name(e) ? 0 : 1);
   if (exp != code_name(e)) failure("C17:THDM:error-code", std::string("constructor: C returns ") + code_name(e) + ", C++ gives " + exp);
   out->cell(std::string("THDM|handle-vs-code|") + (stale_handle ? "handle-variable-non-zero-before-the-call" : "handle-variable-zero-before-the-call") + (e == gm2calc_NoError ? "|success" : "|error"), ((e == gm2calc_NoError) != (h != nullptr) || h == STALE) ? 1 : 0);
   if ((e == gm2calc_NoError) != (h != nullptr) || h == STALE) failure("C17:THDM:handle-vs-code", std::string("handle ") + (h == STALE ? "left at the caller's stale value" : (h ? "non-null" : "null")) + " with code " + code_name(e));
   if (e != gm2calc_NoError || h == STALE) h = nullptr;   // (never free what the library did not hand out)
   if (h && pm) {
      struct TF { const char* n; double (*c)(const gm2calc_THDM*); std::function<double(const gm2calc::THDM&)> cpp; };
      static const std::vector<TF> tf = {{"thdm_calculate_amu_1loop", gm2calc_thdm_calculate_amu_1loop, [](const gm2calc::THDM& m) { return gm2calc::calculate_amu_1loop(m); }},
         {"thdm_calculate_amu_2loop", gm2calc_thdm_calculate_amu_2loop, [](const gm2calc::THDM& m) { return gm2calc::calculate_amu_2loop(m); }},
         {"thdm_calculate_amu_2loop_fermionic", gm2calc_thdm_calculate_amu_2loop_fermionic, [](const gm2calc::THDM& m) { return gm2calc::calculate_amu_2loop_fermionic(m); }},
         {"thdm_calculate_amu_2loop_bosonic", gm2calc_thdm_calculate_amu_2loop_bosonic, [](const gm2calc::THDM& m) { return gm2calc::calculate_amu_2loop_bosonic(m); }},
         {"thdm_calculate_uncertainty_amu_0loop", gm2calc_thdm_calculate_uncertainty_amu_0loop, [](const gm2calc::THDM& m) { return gm2calc::calculate_uncertainty_amu_0loop(m); }},
         {"thdm_calculate_uncertainty_amu_1loop", gm2calc_thdm_calculate_uncertainty_amu_1loop, [](const gm2calc::THDM& m) { return gm2calc::calculate_uncertainty_amu_1loop(m); }},
         {"thdm_calculate_uncertainty_amu_2loop", gm2calc_thdm_calculate_uncertainty_amu_2loop, [](const gm2calc::THDM& m) { return gm2calc::calculate_uncertainty_amu_2loop(m); }}};
      const int n = 1 + r.range(12);
      for (int k = 0; k < n; ++k) { const TF& f = tf[r.range(static_cast<int>(tf.size()))]; note(f.n); double cv = 0; bool threw; const bool okc = guarded(f.n, [&] { cv = f.c(h); }); const double pv = cppval([&] { return f.cpp(*pm); }, threw);
         if (okc) { out->cell(std::string("THDM|value|") + f.n, (threw ? std::isnan(cv) : vh::same_bits(cv, pv)) ? 0 : 1); if (threw ? !std::isnan(cv) : !vh::same_bits(cv, pv)) failure(std::string("C17:value-differs:") + f.n, std::string(f.n) + ": C " + vh::num(cv) + " vs C++ " + (threw ? "exception" : vh::num(pv))); } }
      const double x = hostile(r), y = hostile(r); double c0 = 0; bool t;
      if (guarded("thdm_uncertainty_overloads", [&] { c0 = gm2calc_thdm_calculate_uncertainty_amu_0loop_amu1L_amu2L(h, x, y); })) { const double p = cppval([&] { return gm2calc::calculate_uncertainty_amu_0loop(*pm, x, y); }, t); if (t ? !std::isnan(c0) : !vh::same_bits(c0, p)) failure("C17:value-differs:thdm_uncertainty_0loop_overload", "overload differs"); }
      if (guarded("thdm_uncertainty_overloads", [&] { c0 = gm2calc_thdm_calculate_uncertainty_amu_1loop_amu1L_amu2L(h, x, y); })) { const double p = cppval([&] { return gm2calc::calculate_uncertainty_amu_1loop(*pm, x, y); }, t); if (t ? !std::isnan(c0) : !vh::same_bits(c0, p)) failure("C17:value-differs:thdm_uncertainty_1loop_overload", "overload differs"); }
      if (guarded("thdm_uncertainty_overloads", [&] { c0 = gm2calc_thdm_calculate_uncertainty_amu_2loop_amu1L_amu2L(h, x, y); })) { const double p = cppval([&] { return gm2calc::calculate_uncertainty_amu_2loop(*pm, x, y); }, t); if (t ? !std::isnan(c0) : !vh::same_bits(c0, p)) failure("C17:value-differs:thdm_uncertainty_2loop_overload", "overload differs"); }
   }
   std::cerr.rdbuf(old);
   delete pm;
   guarded("thdm_free", [&] { gm2calc_thdm_free(h); });
   guarded("thdm_free(NULL)", [&] { gm2calc_thdm_free(nullptr); });
   guarded("int_to_c_yukawa_type", [&] { (void)int_to_c_yukawa_type(1 + r.range(6)); });
   guarded("gm2calc_error_str", [&] { for (int k = 0; k < 4; ++k) { const char* s = gm2calc_error_str(static_cast<gm2calc_error>(k)); if (!s) failure("C17:error_str:null", "gm2calc_error_str returned NULL"); } });
   // a C caller can pass any int as the enum: called through an int-typed pointer to the same function (a cast of the value would be the harness's own
   // undefined behaviour in C++); every value gives a readable, non-empty string
   guarded("gm2calc_error_str(out-of-range)", [&] {
      const auto f = reinterpret_cast<const char* (*)(int)>(&gm2calc_error_str);
      static const int codes[] = {4, 5, 6, 7, 8, 100, -1, -2, 255, 256, 65536, 2147483647, -2147483647 - 1};
      for (int k : codes) { const char* s = f(k); const bool ok = s != nullptr && std::strlen(s) > 0 && std::strlen(s) < 200;
         out->cell("error_str|out-of-range-code", ok ? 0 : 1); if (!ok) failure("C17:error_str:out-of-range", "gm2calc_error_str(" + std::to_string(k) + ") returns " + (s ? "an empty or unterminated string" : "NULL")); } });
}

int main(int argc, char** argv) {
   vh::Args a(argc, argv);
   vh::Out o(a); out = &o;
   for (long i = a.first(); i < a.last(); ++i) {
      o.cur = i;
      vh::Rng r(a.seed, a.worker, i);
      ++o.evaluations; ++o.conclusive;
      if (i % 4 == 3) thdm_history(r); else mssm_history(r);
      if (i < 2) { J s; s.str("history", history.substr(0, 600)); o.sample(s); }
   }
   o.finish();
   return 0;
}
