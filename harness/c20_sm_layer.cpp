// C20: SM layer - CKM unitarity / range rejection, electroweak relations, running masses.
#include "gen.hpp"
#include "gm2_mf.hpp"
#include <complex>

using namespace gm2calc;
using vh::J;
typedef long double LD;
static vh::Out* out;
static const LD PIl = 3.14159265358979323846264338327950288L;

static void clause(const std::string& name, const std::string& cell, double err, double tol, const J& c, const std::string& key = "") {
   J w = c; w.str("clause", name).d("err", err).d("tol", tol);
   out->cell(name + "|" + cell, tol > 0 ? err / tol : err, &w);
   if (!(err <= tol)) out->fail(key.empty() ? "C20:" + name : key, name + ": " + vh::num(err) + " > " + vh::num(tol), w);
}

// ---- reference: Eqs. (9), (5) of hep-ph/0207126 in long double
static LD ref_alpha5(LD Q, LD lam) { const LD t = logl((Q / lam) * (Q / lam)), it = 1 / t, lt = logl(t); return 12 * PIl / 23 * it * (1 + it * (-348.0L / 529 * lt + (348.0L / 529) * (348.0L / 529) * it * ((lt - 0.5L) * (lt - 0.5L) - 78073.0L / 242208))); }
static LD ref_Fb(LD alpha) { const LD as = alpha / PIl; return powl(23.0L / 6 * as, 12.0L / 23) * (1 + as * (3731.0L / 3174 + 1.500706L * as)); }
// returns false if alpha cannot be bracketed in [0.001, 10]
static bool ref_lambda(LD alpha, LD Q, LD& lam) {
   LD a = 0.001L, b = 10.0L;
   LD fa = alpha - ref_alpha5(Q, a), fb = alpha - ref_alpha5(Q, b);
   if (!(std::isfinite(static_cast<double>(fa)) && std::isfinite(static_cast<double>(fb))) || fa * fb > 0) return false;
   for (int i = 0; i < 200; ++i) { const LD m = (a + b) / 2, fm = alpha - ref_alpha5(Q, m); if ((fm > 0) == (fa > 0)) { a = m; fa = fm; } else { b = m; fb = fm; } }
   lam = (a + b) / 2; return true;
}

static void case_ckm(vh::Rng& r) {
   SM sm;
   double p[4];
   const int mode = r.range(6);
   for (double& x : p) x = r.U(-1, 1);
   if (mode == 1) { p[0] = r.sign() * (1 - r.LU(1e-16, 1e-2)); }                    // |lambda| -> 1
   if (mode == 2) { p[1] = r.sign() * (1 - r.LU(1e-16, 1e-2)); p[0] = r.sign() * r.U(0.8, 1); }
   if (mode == 3) { p[r.range(4)] = r.sign() * (1 + r.LU(1e-15, 10)); }            // outside the admissible range
   if (mode == 4) { p[0] = r.sign(); if (r.chance(0.5)) p[1] = r.sign(); }           // exactly on the boundary
   if (mode == 5) { p[0] = 0.2257 * r.U(0.5, 2); p[1] = 0.814 * r.U(0.5, 1.2); p[2] = r.U(-0.5, 0.5); p[3] = r.U(-0.5, 0.5); }   // physical neighbourhood
   J c; c.str("input", "wolfenstein").arr("lambda_A_rhobar_etabar", p, p + 4);
   const bool admissible = std::fabs(p[0]) <= 1 && std::fabs(p[1]) <= 1 && std::fabs(p[2]) <= 1 && std::fabs(p[3]) <= 1;
   bool threw = false, wrong_class = false;
   try { sm.set_ckm_from_wolfenstein(p[0], p[1], p[2], p[3]); } catch (const EInvalidInput&) { threw = true; } catch (const std::exception&) { threw = true; wrong_class = true; }
   ++out->conclusive;
   const char* modes[] = {"uniform", "|lambda|->1", "|A|->1", "outside", "boundary", "physical"};
   if (!admissible) { clause("CKM:out-of-range-rejected", modes[mode], (threw && !wrong_class) ? 0 : 1, 0, c); return; }
   if (threw) { out->count("CKM:admissible-wolfenstein-rejected(no unitary matrix exists)"); clause("CKM:rejection-class", modes[mode], wrong_class ? 1 : 0, 0, c); return; }
   const auto V = sm.get_ckm();
   if (!V.allFinite()) { out->cell(std::string("CKM:unitarity|") + modes[mode], 1e300, &c); out->fail("C20:CKM:nan-for-admissible-wolfenstein", "CKM matrix from admissible Wolfenstein parameters is not finite", c); return; }
   clause("CKM:unitarity", modes[mode], (V * V.adjoint() - Eigen::Matrix<std::complex<double>, 3, 3>::Identity()).cwiseAbs().maxCoeff(), 1e-14, c);
}
static void case_ckm_angles(vh::Rng& r) {
   SM sm; double a[4];
   const int mode = r.range(3);
   for (double& x : a) x = mode == 0 ? r.U(-4, 4) : (mode == 1 ? r.sign() * r.LU(1e-300, 1e3) : (r.range(9) - 4) * M_PI / 4 * (1 + r.sign() * r.LU(1e-16, 1e-3)));
   J c; c.str("input", "angles").arr("theta12_theta13_theta23_delta", a, a + 4);
   sm.set_ckm_from_angles(a[0], a[1], a[2], a[3]);
   ++out->conclusive;
   const auto V = sm.get_ckm();
   clause("CKM:unitarity-from-angles", mode == 0 ? "uniform" : (mode == 1 ? "log-magnitudes" : "multiples-of-pi/4"), V.allFinite() ? (V * V.adjoint() - Eigen::Matrix<std::complex<double>, 3, 3>::Identity()).cwiseAbs().maxCoeff() : 1e300, 1e-14, c);
}
static void case_ew(vh::Rng& r) {
   SM sm; const double mz = r.LU(1, 1e3), mw = mz * (r.chance(0.2) ? 1 - r.LU(1e-12, 1e-2) : r.U(0.01, 0.999)), al = r.LU(1e-6, 0.1);
   sm.set_mw(mw); sm.set_mz(mz); sm.set_alpha_em_mz(al);
   J c; c.d("mw", mw).d("mz", mz).d("alpha_em_mz", al);
   ++out->conclusive;
   const double cw = sm.get_cw(), sw = sm.get_sw(), e = sm.get_e_mz(), g2 = sm.get_g2(), gY = sm.get_gY(), v = sm.get_v();
   const std::string cell = mw / mz > 0.99 ? "mw->mz" : "generic";
   clause("EW:cw=mw/mz", cell, std::fabs(cw - mw / mz) / (mw / mz), 1e-15, c);
   clause("EW:sw2+cw2=1", cell, std::fabs(sw * sw + cw * cw - 1), 1e-15, c);
   clause("EW:e=g2*sw", cell, std::fabs(g2 * sw / e - 1), 1e-15, c);
   clause("EW:e=gY*cw", cell, std::fabs(gY * cw / e - 1), 1e-15, c);
   clause("EW:v=2mw/g2", cell, std::fabs(v * g2 / (2 * mw) - 1), 1e-15, c);
   clause("EW:e2=4pi*alpha", cell, std::fabs(e * e / (4 * M_PI * al) - 1), 1e-15, c);
}

static void case_running(vh::Rng& r, gen::CerrCapture& cap) {
   const double as = r.chance(0.2) ? r.U(0.10, 0.13) : r.U(0.05, 0.3), mt = r.U(100, 300), mb = r.U(2, 6), mz = r.chance(0.5) ? 91.1876 : r.U(60, 130), mtau = 1.777, aem = r.LU(1e-3, 0.1);
   J c; c.d("alpha_s_mz", as).d("mt", mt).d("mb", mb).d("alpha_em", aem).d("mz", mz);
   ++out->conclusive;
   // call history: before the calls that are judged, the same functions are called with arguments that differ in exactly one place (the scale at which
   // alpha_s is given, alpha_s itself, mb or mt) - a value remembered from that call under an incomplete key would surface in the clauses below
   const int hist = r.range(6);
   static const char* const HIST[6] = {"none", "previous-call:other-mz", "previous-call:other-alpha_s", "previous-call:other-mb", "previous-call:other-mt", "previous-call:other-mz(DRbar)"};
   c.str("history", HIST[hist]);
   { const double f = r.U(0.6, 1.5);
     if (hist == 1) calculate_mb_SM6_MSbar(mb, mt, as, mz * f, 100.0); else if (hist == 2) calculate_mb_SM6_MSbar(mb, mt, as * f, mz, 100.0); else if (hist == 3) calculate_mb_SM6_MSbar(mb * f, mt, as, mz, 100.0);
     else if (hist == 4) { calculate_mb_SM6_MSbar(mb, mt * f, as, mz, 100.0); calculate_mt_SM6_MSbar(mt * f, as, mz, 100.0); } else if (hist == 5) calculate_mb_SM5_DRbar(mb, as, mz * f); }
   cap.take();
   // reference Lambda_QCD
   LD lam = 0.217L; const bool bracketed = ref_lambda(as, mz, lam);
   const bool landau = static_cast<double>(lam) >= mb / 2;   // alpha_s(mb) evaluated at or below the Landau pole of Eq. (9)
   c.ld("ref_lambda_qcd", lam).i("bracketed", bracketed).i("landau", landau);
   const std::string cell = std::string(bracketed ? "bracketed" : "fallback") + (landau ? "|landau" : "") + "|as" + vh::decade(as) + "|" + HIST[hist];
   // scan of scales
   double prev_b = 1e300, prev_t = 1e300, prev_l = 1e300; bool mono = true, fin = true; double worst_grp = 0;
   const double k = r.U(1.1, 10);
   for (double Q = 1; Q <= 1e6; Q *= r.U(1.3, 2.5)) {
      const double b = calculate_mb_SM6_MSbar(mb, mt, as, mz, Q), t = calculate_mt_SM6_MSbar(mt, as, mz, Q), l = calculate_mtau_SM6_MSbar(mtau, aem, Q);
      if (!(std::isfinite(b) && b > 0 && std::isfinite(t) && t > 0 && std::isfinite(l) && l > 0)) fin = false;
      if (!(b < prev_b && t < prev_t && l < prev_l)) mono = false;
      prev_b = b; prev_t = t; prev_l = l;
      // composition: m(kQ)/m(Q) does not depend on Q (running Q1 -> Q2 -> Q3 equals Q1 -> Q3)
      const double rb = calculate_mb_SM6_MSbar(mb, mt, as, mz, k * Q) / b, rt = calculate_mt_SM6_MSbar(mt, as, mz, k * Q) / t, rl = calculate_mtau_SM6_MSbar(mtau, aem, k * Q) / l;
      static thread_local double rb0, rt0, rl0; if (Q == 1) { rb0 = rb; rt0 = rt; rl0 = rl; }
      if (std::isfinite(rb)) worst_grp = std::max({worst_grp, std::fabs(rb / rb0 - 1), std::fabs(rt / rt0 - 1), std::fabs(rl / rl0 - 1)});
   }
   const std::string warned = cap.take();
   if (landau) {
      // known finding: no value below the Landau pole; recorded with its own key so that NaN at ordinary alpha_s is still a violation
      out->cell("running:finite-positive|" + cell, fin ? 0 : 1, &c);
      if (!fin) out->fail("C20:mb-running:landau-pole", "mb(Q) not finite/positive: Lambda_QCD = " + vh::num(lam) + " >= mb/2", c);
   } else {
      clause("running:finite-positive", cell, fin ? 0 : 1, 0, c);
      clause("running:strictly-decreasing", cell, mono ? 0 : 1, 0, c);
      clause("running:composition(m(kQ)/m(Q)-independent-of-Q)", cell, worst_grp, 1e-12, c);
      // boundary values
      const LD as_mt_1l = as / (1 - 23 / (6 * PIl) * as * logl(mz / (LD)mt));
      clause("running:mt(mt)", cell, std::fabs(calculate_mt_SM6_MSbar(mt, as, mz, mt) / static_cast<double>(mt / (1 + 4 / (3 * PIl) * as_mt_1l)) - 1), 1e-13, c);
      clause("running:mtau(mtau)", cell, std::fabs(calculate_mtau_SM6_MSbar(mtau, aem, mtau) / mtau - 1), 1e-15, c);
      const LD mb_mt_ref = mb * ref_Fb(ref_alpha5(mt, lam)) / ref_Fb(ref_alpha5(mb, lam));
      clause("running:mb(mt)", cell, std::fabs(calculate_mb_SM6_MSbar(mb, mt, as, mz, mt) / static_cast<double>(mb_mt_ref) - 1), 1e-8, c);
      // DR-bar mb at MZ against the reference (alpha_s given at the destination scale)
      const LD mbdr = mb * ref_Fb(as) / ref_Fb(ref_alpha5(mb, lam)) * (1 + as / PIl * (-1.0L / 3 - 29.0L / 72 * as / PIl));
      clause("running:mb_DRbar(MZ)", cell, std::fabs(calculate_mb_SM5_DRbar(mb, as, mz) / static_cast<double>(mbdr) - 1), 1e-8, c);
   }
   // fallback with a warning exactly when Lambda_QCD cannot be bracketed
   const bool has_warning = warned.find("lambda_QCD") != std::string::npos || warned.find("Lambda_QCD") != std::string::npos;
   { J w = c; w.str("stderr", warned.substr(0, 300)); out->cell("running:fallback-warning-iff-not-bracketed|" + std::string(bracketed ? "bracketed" : "fallback"), has_warning == !bracketed ? 0 : 1, &w);
     if (has_warning != !bracketed) out->fail(bracketed ? "C20:running:spurious-lambda-warning" : "C20:running:silent-lambda-fallback", bracketed ? "warning although Lambda_QCD can be bracketed" : "Lambda_QCD cannot be bracketed but no warning was emitted", w); }
}

// running bypassed exactly when disabled: with running off (or scale <= 0) the Yukawas do not depend on alpha_s, alpha_em
static void case_bypass(vh::Rng& r) {
   thdm::Mass_basis b = gen::rand_mass_basis(r); b.mh = r.LU(10, 300); b.mH = r.LU(b.mh, 1e4);
   // Higgs masses (= the scales the Yukawa couplings are taken at) over the whole range, down to 1 GeV - below mb(mb) too
   const bool lightS = r.chance(0.4);
   if (lightS) { b.mA = r.LU(1, 10); b.mHp = r.LU(1, 10); if (r.chance(0.5)) { b.mh = r.LU(1, 8); b.mH = r.LU(b.mh, 300); } }
   SM s1, s2; s2.set_alpha_s_mz(s1.get_alpha_s_mz() * r.U(0.5, 2));
   J c = gen::json(b);
   try {
      thdm::Config off; off.running_couplings = false; thdm::Config on; on.running_couplings = true; off.force_output = on.force_output = lightS;
      THDM a(b, s1, off), b2(b, s2, off), c1(b, s1, on), c2(b, s2, on);
      ++out->conclusive;
      typedef Eigen::Matrix<std::complex<double>, 3, 3> CM3;
      auto same = [](const CM3& x, const CM3& y) { for (int i = 0; i < 9; ++i) if (!vh::same_bits(x.data()[i].real(), y.data()[i].real()) || !vh::same_bits(x.data()[i].imag(), y.data()[i].imag())) return false; return true; };
      struct G { const char* n; CM3 (*g)(const THDM&); bool quark; };
      static const G gs[] = {{"yuh", [](const THDM& m) { return CM3(m.get_yuh()); }, true}, {"yuH", [](const THDM& m) { return CM3(m.get_yuH()); }, true}, {"yuA", [](const THDM& m) { return CM3(m.get_yuA()); }, true}, {"yuHp", [](const THDM& m) { return CM3(m.get_yuHp()); }, true},
                             {"ydh", [](const THDM& m) { return CM3(m.get_ydh()); }, true}, {"ydH", [](const THDM& m) { return CM3(m.get_ydH()); }, true}, {"ydA", [](const THDM& m) { return CM3(m.get_ydA()); }, true}, {"ydHp", [](const THDM& m) { return CM3(m.get_ydHp()); }, true},
                             {"ylh", [](const THDM& m) { return CM3(m.get_ylh()); }, false}, {"ylH", [](const THDM& m) { return CM3(m.get_ylH()); }, false}, {"ylA", [](const THDM& m) { return CM3(m.get_ylA()); }, false}, {"ylHp", [](const THDM& m) { return CM3(m.get_ylHp()); }, false}};
      const std::string reg = lightS ? "|scales-down-to-1GeV" : "|scales>10GeV";
      for (const G& g : gs) {
         const CM3 yoff1 = g.g(a), yoff2 = g.g(b2), yon1 = g.g(c1), yon2 = g.g(c2);
         // a coupling matrix that vanishes identically (alignment parameter exactly 0: y^A, y^H+ of that fermion type) cannot react to anything
         if (yoff1.cwiseAbs().maxCoeff() == 0 && yon1.cwiseAbs().maxCoeff() == 0 && yon2.cwiseAbs().maxCoeff() == 0 && yoff2.cwiseAbs().maxCoeff() == 0) { out->count(std::string("running-bypass: coupling identically zero (monitor vacuous): ") + g.n); continue; }
         // aligned model with zeta_f = 0 exactly: rho_f consists of Delta_f only, which is an input and does not run - nothing to react with
         const double zf = g.n[1] == 'u' ? b.zeta_u : (g.n[1] == 'd' ? b.zeta_d : b.zeta_l);
         const bool no_running_part = b.yukawa_type == thdm::Yukawa_type::aligned && zf == 0;
         const bool off_same = same(yoff1, yoff2);                               // running off: no dependence on alpha_s
         const bool on_off_differ = !same(yoff1, yon1);                           // running on: the couplings are taken at the Higgs scale, not at the input masses
         const bool on_dep = !g.quark || !same(yon1, yon2);                      // running on: quark couplings react to alpha_s(MZ)
         J w = c; w.str("getter", g.n).i("light_scales", lightS);
         out->cell(std::string("running-bypass|off:independent-of-alpha_s|") + g.n + reg, off_same ? 0 : 1, &w);
         out->cell(std::string("running-bypass|on-differs-from-off|") + g.n + reg, on_off_differ ? 0 : 1, &w);
         out->cell(std::string("running-bypass|on:quark-couplings-depend-on-alpha_s|") + g.n + reg, on_dep ? 0 : 1, &w);
         if (!off_same) out->fail(std::string("C20:running-not-bypassed-when-disabled:") + g.n, std::string(g.n) + " depends on alpha_s(MZ) although running couplings are disabled", w);
         if (no_running_part) { out->count(std::string("running-bypass: aligned model with zeta_f = 0 (coupling = Delta_f, no running part; on-clauses vacuous): ") + g.n); continue; }
         if (!on_off_differ || !on_dep) out->fail(std::string("C20:running-bypassed-when-enabled:") + g.n, std::string(g.n) + (on_off_differ ? " does not react to alpha_s(MZ)" : " is the same with running couplings enabled and disabled"), w);
      }
   } catch (const Error&) { ++out->inconclusive; }
}

int main(int argc, char** argv) {
   vh::Args a(argc, argv);
   vh::Out o(a); out = &o;
   gen::CerrCapture cap;
   for (long i = a.first(); i < a.last(); ++i) {
      o.cur = i;
      vh::Rng r(a.seed, a.worker, i);
      ++o.evaluations;
      switch (i % 8) {
      case 0: case 1: case 2: case_ckm(r); break;
      case 3: case_ckm_angles(r); break;
      case 4: case_ew(r); break;
      case 5: case 6: case_running(r, cap); break;
      default: case_bypass(r); break;
      }
      if (i < 2) { J s; s.i("kind", i % 8); o.sample(s); }
   }
   o.finish();
   return 0;
}
