// C02: multi-variable loop functions against 200-digit references of their defining expressions,
// plus permutation symmetry, homogeneity and documented zero limits.
#include "gm2_ffunctions.hpp"
#include "mpref.h"
#include "vh.hpp"
#include <iostream>
#include <sstream>

using vh::J;
typedef long double LD;
static vh::Out* out;

static double pert(vh::Rng& r, double x) { return x * (1 + r.sign() * std::pow(10.0, r.U(-12, -1))); }
static double relerr(double v, LD ref, LD floor_) {
   if (std::isnan(v)) return std::numeric_limits<double>::quiet_NaN();
   return static_cast<double>(fabsl(static_cast<LD>(v) - ref) / std::max(std::max(fabsl(ref), floor_), static_cast<LD>(1e-300)));
}
static std::string closeness(double a, double b) {
   if (a == b) return "equal";
   const double d = std::fabs(a - b) / std::max(std::fabs(a), std::fabs(b));
   if (d < 1e-9) return "within1e-9"; if (d < 1e-6) return "within1e-6"; if (d < 1e-3) return "within1e-3"; if (d < 1e-1) return "within1e-1"; return "apart";
}

static void check_acc(const std::string& fn, const std::string& cell, double v, LD ref, LD floor_, double tol, const J& c, const std::string& key) {
   const double e = relerr(v, ref, floor_);
   J w = c; w.str("fn", fn).d("value", v).ld("ref", ref).d("err", e).d("tol", tol);
   out->cell(fn + "|" + cell, e, &w);
   if (!(e <= tol)) out->fail(key, fn + ": value " + vh::num(v) + ", reference " + vh::num(ref) + ", error " + vh::num(e) + " > " + vh::num(tol), w, e);
}
// permutation symmetry: the current code sorts its arguments (bit-identical results); an implementation that is symmetric up to rounding also satisfies the property
static const double SYM_TOL = 1e-12;
static double PHI_CAP = 1e300;
static void check_rel(const std::string& fn, const std::string& clause, double a, double b, double floor_, double tol, const J& c) {
   double e = (vh::same_bits(a, b)) ? 0 : std::fabs(a - b) / std::max({std::fabs(a), std::fabs(b), floor_, 1e-300});
   if (std::isnan(a) != std::isnan(b)) e = std::numeric_limits<double>::quiet_NaN();
   J w = c; w.str("fn", fn).str("clause", clause).d("a", a).d("b", b).d("err", e);
   out->cell(fn + "|" + clause, e, &w);
   if (!(e <= tol)) out->fail("C02:" + fn + ":" + clause, fn + " " + clause + ": " + vh::num(a) + " vs " + vh::num(b) + " (" + vh::num(e) + " > " + vh::num(tol) + ")", w);
}

// ----------------------------------------------------------------------- Fa, Fb
static void case_FaFb(vh::Rng& r) {
   double x, y; const int m = r.range(6);
   if (m == 0) { x = r.LU(1e-6, 1e6); y = r.LU(1e-6, 1e6); }
   else if (m == 1) { x = r.LU(1e-3, 1e3); y = pert(r, x); }
   else if (m == 2) { x = pert(r, 1.0); y = pert(r, 1.0); }
   else if (m == 3) { x = r.LU(1e-3, 1e3); y = x; }
   else if (m == 4) { x = pert(r, 1.0); y = r.LU(1e-3, 1e3); }
   else { x = r.LU(1e-3, 1e3); y = x * (1 + r.sign() * r.LU(0.5e-5, 2e-5)); }   // around the is_equal_rel(x,y,1e-5) switch
   const double a[2] = {x, y};
   static const LD Fa11 = 0.25L, Fb11 = 1.0L / 12;
   J c; c.d("x", x).d("y", y);
   const std::string cell = "acc|" + closeness(x, y) + "|near1:" + closeness(x, 1.0) + "|" + vh::decade(x);
   const double va = gm2calc::Fa(x, y), vb = gm2calc::Fb(x, y);
   // known finding: the closeness test |x-y| < 1e-5 (1 + max) treats small, relatively distinct arguments as equal
   const bool smallargs = x != y && std::fabs(x - y) < 1e-5 * (1 + std::max(x, y)) && std::fabs(x - y) > 1e-3 * std::max(x, y);
   check_acc("Fa", cell, va, mpref_evaln(MPREF_Fa, a), 1e-3L * Fa11, 1e-4, c, smallargs ? "C02:Fa:small-arguments-taken-as-equal" : "C02:Fa:accuracy");
   check_acc("Fb", cell, vb, mpref_evaln(MPREF_Fb, a), 1e-3L * Fb11, 1e-4, c, smallargs ? "C02:Fb:small-arguments-taken-as-equal" : "C02:Fb:accuracy");
   check_rel("Fa", "symmetry", va, gm2calc::Fa(y, x), 0, SYM_TOL, c);
   check_rel("Fb", "symmetry", vb, gm2calc::Fb(y, x), 0, SYM_TOL, c);
}

// ----------------------------------------------------------------------- triples
static void gen_triple(vh::Rng& r, double& x, double& y, double& z, std::string& mode) {
   z = r.LU(1e-3, 1e3);
   const double QE = 2.1689e-4;   // (10 eps)^(1/4)
   switch (r.range(12)) {
   case 0: x = z * r.LU(1e-6, 1); y = z * r.LU(1e-6, 1); mode = "generic"; break;
   case 1: x = pert(r, z); y = z * r.LU(1e-6, 1); mode = "two-near-equal(largest)"; break;
   case 2: x = pert(r, z); y = pert(r, z); mode = "three-near-equal"; break;
   case 3: x = z * r.LU(1e-6, 1); y = pert(r, x); mode = "two-near-equal(smallest)"; break;
   case 4: { double sx = std::sqrt(z) * r.U(0.02, 0.98), sy = std::sqrt(z) - sx; x = sx * sx; y = pert(r, sy * sy); mode = "near-threshold"; break; }
   case 5: { int k = r.range(3); if (k == 0) { x = z; y = z * r.LU(1e-6, 1); } else if (k == 1) { x = z * r.LU(1e-6, 1); y = x; } else { x = z; y = z; } mode = "exactly-equal"; break; }
   case 6: z = pert(r, 1.0); x = pert(r, 1.0); y = r.chance(0.5) ? pert(r, 1.0) : r.LU(1e-6, 1); mode = "near-one"; break;
   case 7: x = z * QE * (1 + r.sign() * std::pow(10.0, r.U(-12, -0.3))); y = z * (r.chance(0.5) ? r.LU(1e-6, 1) : QE * (1 + r.sign() * std::pow(10.0, r.U(-12, -0.3)))); mode = "qdrt-eps-switch"; break;
   case 8: x = z * r.LU(1e-6, 2.5e-4); y = z * r.LU(1e-6, 1); mode = "small-ratio"; break;
   case 9: x = z * r.LU(2.5e-4, 1); y = z * r.LU(2.5e-4, 1); mode = "moderate-ratios"; break;
   case 10: { double sx = std::sqrt(z) * r.U(0.02, 0.98), sy = std::sqrt(z) - sx; x = sx * sx; y = sy * sy * (1 + r.sign() * r.LU(1e-3, 0.5)); mode = "around-threshold"; break; }
   default: x = z * r.LU(0.3, 1); y = z * r.LU(0.3, 1); mode = "lambda2-negative-region"; break;
   }
   if (x <= 0 || y <= 0) { x = z * 0.5; y = z * 0.25; }
}

static void case_triple(vh::Rng& r) {
   double x, y, z; std::string mode; gen_triple(r, x, y, z, mode);
   double p[3] = {x, y, z};
   for (int i = 2; i > 0; --i) std::swap(p[i], p[r.range(i + 1)]);
   double srt[3] = {x, y, z}; std::sort(srt, srt + 3);
   const double zmax = srt[2], minratio = srt[0] / srt[2];
   J c; c.d("x", p[0]).d("y", p[1]).d("z", p[2]).str("mode", mode);
   // ---- Phi and lambda_2 (squared masses)
   {
      const double v = gm2calc::Phi(p[0], p[1], p[2]);
      const LD ref = mpref_evaln(MPREF_Phi, p);
      const LD l2 = mpref_evaln(MPREF_lambda2, p);
      const double l2n = static_cast<double>(l2 / (static_cast<LD>(zmax) * zmax));
      const std::string cell = "acc|" + mode + "|lambda2" + (l2n > 0 ? "+" : "-") + vh::decade(std::fabs(l2n)) + "|minratio" + vh::decade(minratio);
      const bool series = minratio < 2.5e-4;
      // lambda^2 == 0 in double arithmetic: Phi returns 0 by design (its consequences are C11)
      const double l2d = gm2calc::lambda_2(p[0], p[1], p[2]);
      if (std::fabs(l2n) < 1e-13) out->count("Phi:lambda2-numerically-zero(skipped)");
      else {
         // the known small-ratio series error is amplified by 1/lambda^2: its key is given up to err <= PHI_CAP / (lambda^2/z^2)^2 (calibration: see lib/thresholds.py)
         const double e = relerr(v, ref, 1e-3L * zmax);
         const bool known = series && e * l2n * l2n <= PHI_CAP;
         if (series && !(e <= 1e-6)) out->cell("Phi|known-finding-magnitude err*(lambda2/z2)^2", e * l2n * l2n, nullptr);
         check_acc("Phi", cell, v, ref, 1e-3L * zmax, 1e-6, c, known ? "C02:Phi:small-ratio-series" : "C02:Phi:accuracy");
      }
      check_acc("lambda_2", "acc|" + mode, l2d, l2, 1e-3L * zmax * zmax, 1e-6, c, "C02:lambda_2:accuracy");
      // permutations: Phi sorts its arguments -> bit-exact; lambda_2 does not sort
      static const int perm[5][3] = {{0, 2, 1}, {1, 0, 2}, {1, 2, 0}, {2, 0, 1}, {2, 1, 0}};
      for (auto& q : perm) {
         check_rel("Phi", "symmetry", v, gm2calc::Phi(p[q[0]], p[q[1]], p[q[2]]), 1e-3 * zmax, 1e-9, c);   // on the floor of the accuracy clause, 1000 x tighter than it (Phi changes sign: no relative measure)
         check_rel("lambda_2", "symmetry", l2d, gm2calc::lambda_2(p[q[0]], p[q[1]], p[q[2]]), zmax * zmax, 1e-12, c);   // not sorted internally: permutations round differently (few ulp of z^2)
      }
      const double k2 = std::ldexp(1.0, r.range(41) - 20), kr = r.LU(1e-3, 1e3);
      check_rel("Phi", "homogeneity-pow2", v * k2, gm2calc::Phi(k2 * p[0], k2 * p[1], k2 * p[2]), 0, 0, c);
      check_rel("lambda_2", "homogeneity-pow2", l2d * k2 * k2, gm2calc::lambda_2(k2 * p[0], k2 * p[1], k2 * p[2]), 0, 0, c);
      // random k changes the rounded ratios: near threshold that is amplified by 1/lambda^2, and a ratio that sits on a branch
      // boundary may take the other branch; the two evaluations then agree only to the accuracy of the branches (observed <= 2e-9),
      // and not at all across the series switch of the known finding
      if (std::fabs(l2n) > 1e-3 && (minratio > 2.5e-4 || minratio < 2.0e-4)) {
         check_rel("Phi", "homogeneity-random", v * kr, gm2calc::Phi(kr * p[0], kr * p[1], kr * p[2]), 1e-3 * zmax * kr, 1e-7, c);
         check_rel("lambda_2", "homogeneity-random", l2d * kr * kr, gm2calc::lambda_2(kr * p[0], kr * p[1], kr * p[2]), 1e-3 * zmax * zmax * kr * kr, 1e-11, c);
      }
   }
   // ---- Iabc (unsquared masses): use sqrt of the triple so that squared ratios stay in [1e-6,1e6]
   {
      double a[3] = {std::sqrt(p[0]), std::sqrt(p[1]), std::sqrt(p[2])};
      if (mode == "exactly-equal") { if (p[0] == p[1]) a[1] = a[0]; if (p[1] == p[2]) a[2] = a[1]; if (p[0] == p[2]) a[2] = a[0]; }
      double as[3] = {a[0], a[1], a[2]}; std::sort(as, as + 3);
      const double cmax2 = as[2] * as[2];
      J ci; ci.d("a", a[0]).d("b", a[1]).d("c", a[2]).str("mode", mode);
      const double v = gm2calc::Iabc(a[0], a[1], a[2]);
      const std::string cell = "acc|" + mode + "|" + closeness(as[0], as[1]) + "|" + closeness(as[1], as[2]) + "|near1:" + closeness(as[2], 1.0);
      check_acc("Iabc", cell, v, mpref_evaln(MPREF_Iabc, a), 1e-3L / cmax2, 1e-6, ci, "C02:Iabc:accuracy");
      static const int perm[5][3] = {{0, 2, 1}, {1, 0, 2}, {1, 2, 0}, {2, 0, 1}, {2, 1, 0}};
      for (auto& q : perm) check_rel("Iabc", "symmetry", v, gm2calc::Iabc(a[q[0]], a[q[1]], a[q[2]]), 0, SYM_TOL, ci);
      const double k2 = std::ldexp(1.0, r.range(21) - 10), kr = r.LU(1e-2, 1e2);
      check_rel("Iabc", "homogeneity-pow2", v, gm2calc::Iabc(k2 * a[0], k2 * a[1], k2 * a[2]) * k2 * k2, 0, 0, ci);
      check_rel("Iabc", "homogeneity-random", v, gm2calc::Iabc(kr * a[0], kr * a[1], kr * a[2]) * kr * kr, 1e-3 / cmax2, 1e-7, ci);   // a ratio on a 1e-4 window edge may change branch (branches agree to ~2e-9)
   }
}

// ----------------------------------------------------------------------- FPZ, FSZ, FCWl
static void case_dq(vh::Rng& r) {
   double x, y; std::string mode;
   switch (r.range(7)) {
   case 0: x = r.LU(1e-6, 1e6); y = x * r.LU(1e-6, 1e6); mode = "generic"; break;
   case 1: x = r.LU(1e-6, 1e6); y = x; mode = "exactly-equal"; break;
   case 2: x = r.LU(1e-6, 1e6); y = x * (1 + r.sign() * r.LU(1e-3, 1e-1)); mode = "apart-1e-3..1e-1"; break;
   case 3: x = 0.25 * (1 + r.sign() * std::pow(10.0, r.U(-12, -1))); y = r.chance(0.5) ? x : x * r.LU(1.001, 1e3); mode = "x-near-1/4"; break;
   case 4: x = r.LU(5e2, 2e3); y = r.chance(0.5) ? x : x * r.LU(1.001, 1e2); mode = "x-near-1e3"; break;
   case 5: x = pert(r, 1.0); y = r.chance(0.5) ? x : pert(r, 1.0) * r.LU(1.001, 10); mode = "near-one"; break;
   default: x = r.LU(80, 120); y = r.chance(0.5) ? x : r.LU(1e-3, 1e3); mode = "x-near-1e2"; break;
   }
   if (y > 1e6) y = 1e6; if (y < 1e-6) y = 1e-6;
   if (y != x && std::fabs(y / x - 1) < 1e-3) y = x * 1.001;
   const double a[2] = {x, y};
   J c; c.d("x", x).d("y", y).str("mode", mode);
   static const double one[2] = {1.0, 1.0};
   static const LD tP = fabsl(mpref_evaln(MPREF_FPZ, one)), tS = fabsl(mpref_evaln(MPREF_FSZ, one)), tL = fabsl(mpref_evaln(MPREF_FCWl, one));
   const std::string cell = "acc|" + mode + "|" + vh::decade(x) + "|ratio" + vh::decade(y / x);
   const double vp = gm2calc::FPZ(x, y), vs = gm2calc::FSZ(x, y);
   const bool eqq = x == y && std::fabs(x - 0.25) >= 1e-8 && std::fabs(x - 0.25) < 1e-6;   // equal-argument branch divides by (1 - 4x)
   // (known finding at equal arguments near 1/4: errors up to 1.3e-4 over 1.6e6 cases; its key is given up to 2e-3)
   { const LD rP = mpref_evaln(MPREF_FPZ, a), rS = mpref_evaln(MPREF_FSZ, a);
     check_acc("FPZ", cell, vp, rP, 1e-3L * tP, 1e-6, c, (eqq && relerr(vp, rP, 1e-3L * tP) <= 2e-3) ? "C02:FPZ:equal-arguments-near-1/4" : "C02:FPZ:accuracy");
     check_acc("FSZ", cell, vs, rS, 1e-3L * tS, 1e-6, c, (eqq && relerr(vs, rS, 1e-3L * tS) <= 2e-3) ? "C02:FSZ:equal-arguments-near-1/4" : "C02:FSZ:accuracy"); }
   check_rel("FPZ", "symmetry", vp, gm2calc::FPZ(y, x), 0, SYM_TOL, c);
   check_rel("FSZ", "symmetry", vs, gm2calc::FSZ(y, x), 0, SYM_TOL, c);
   // FCWl: f_CSl loses accuracy for arguments > 1e3 (C01 known finding): the lepton function is used with x, y <= 1
   {
      // f_CSl cancels like z^2 for large z (C01 finding); the difference quotient amplifies it by 1/|1 - y/x|
      const bool large = std::max(x, y) > 100;
      const double vl = gm2calc::FCWl(x, y);
      check_acc("FCWl", cell, vl, mpref_evaln(MPREF_FCWl, a), 1e-3L * tL, 1e-6, c, large ? "C02:FCWl:large-argument-cancellation" : "C02:FCWl:accuracy");
      check_rel("FCWl", "symmetry", vl, gm2calc::FCWl(y, x), 0, SYM_TOL, c);
   }
}

// ----------------------------------------------------------------------- FCWu, FCWd, f_CSu, f_CSd on physical quark pairs
static void case_fcw(vh::Rng& r) {
   static const double MU[3] = {0.0022, 1.28, 173.34}, MD[3] = {0.0047, 0.096, 4.18};
   const double MW = 80.385;
   const int iu = r.range(3), id = r.range(3);
   double mu = MU[iu], md = MD[id];
   if (r.chance(0.3)) { mu *= r.U(0.9, 1.1); md *= r.U(0.9, 1.1); }
   double mHp; std::string mode;
   const int k = r.range(6);
   if (k == 5) { mHp = r.chance(0.5) ? mu + md : std::fabs(mu - md); mode = "at-quark-threshold(exactly, as a caller would enter it)"; }   // lambda(xu,xd,1) = 0 up to rounding: removable singularity of Phi/lambda^2
   else if (k == 0) { mHp = r.LU(50, 5000); mode = "generic"; }
   else if (k == 1) { mHp = MW; mode = "mHp=mW-exactly"; }
   else if (k == 2) { mHp = MW * (1 + r.sign() * r.LU(1e-3, 1e-1)); mode = "mHp-near-mW(>=1e-3)"; }
   else if (k == 3) { mHp = (mu + r.sign() * md) * (1 + r.sign() * r.LU(1e-3, 0.3)); mode = "near-quark-threshold(>=1e-3)"; }
   else { mHp = r.LU(50, 500); mode = "light"; }
   if (!(mHp >= 50 && mHp <= 5000)) { mHp = r.LU(50, 5000); mode = "generic"; }
   if (mHp != MW && std::fabs(mHp / MW - 1) < 1e-3) mHp = MW * 1.001;
   const double xu = mu * mu / (mHp * mHp), xd = md * md / (mHp * mHp), yu = mu * mu / (MW * MW), yd = md * md / (MW * MW), qu = 2.0 / 3, qd = -1.0 / 3;
   const double a4[4] = {xu, xd, qu, qd}, a6[6] = {xu, xd, yu, yd, qu, qd};
   J c; c.d("mu", mu).d("md", md).d("mHp", mHp).d("xu", xu).d("xd", xd).d("yu", yu).d("yd", yd).str("mode", mode);
   // distance to the thresholds mHp = mu +- md (lambda(xu,xd,1) = 0), where phi_over_y is a removable singularity: C11 classes
   const double thr = std::min(std::fabs(mHp - (mu + md)), std::fabs(mHp - std::fabs(mu - md))) / mHp;
   const std::string pair = std::string("ucd"[0] == 'u' ? "" : "") + std::string(1, "uct"[iu]) + std::string(1, "dsb"[id]);
   const std::string cell = "acc|" + pair + "|" + mode + "|thr" + vh::decade(thr);
   (void)0;
   const double l2q = (xu - xd) * (xu - xd) - 2 * (xu + xd) + 1, zq = std::max({xu, xd, 1.0});
   c.d("lambda2_xu_xd_1", l2q);
   // Phi small-ratio series (C02:Phi:small-ratio-series) enters through Phi(xd,xu,1)/lambda^2 and is amplified next to lambda^2 = 0
   const bool phiseries = std::min(xu, xd) / zq < 2.5e-4 && std::fabs(l2q) / (zq * zq) < 1e-4;
   const std::string suffix = phiseries ? ":phi-small-ratio-series-near-threshold" : ":accuracy";
   const std::string suffix_eq = ":equal-scales-1e-8-shift";   // FCWu/FCWd at mHp == mW: numerical derivative with a 1e-8 shift
   check_acc("f_CSu", cell, gm2calc::f_CSu(xu, xd, qu, qd), mpref_evaln(MPREF_fCSu, a4), 0, 1e-6, c, "C02:f_CSu" + suffix);
   check_acc("f_CSd", cell, gm2calc::f_CSd(xu, xd, qu, qd), mpref_evaln(MPREF_fCSd, a4), 0, 1e-6, c, "C02:f_CSd" + suffix);
   if (mHp != MW) {
      check_acc("FCWu", cell, gm2calc::FCWu(xu, xd, yu, yd, qu, qd), mpref_evaln(MPREF_FCWu, a6), 0, 1e-6, c, "C02:FCWu" + suffix);
      check_acc("FCWd", cell, gm2calc::FCWd(xu, xd, yu, yd, qu, qd), mpref_evaln(MPREF_FCWd, a6), 0, 1e-6, c, "C02:FCWd" + suffix);
   } else {
      // exactly equal scales: the reference takes the limit by a 1e-40 relative displacement of mHp
      out->count("FCW:mHp=mW-exactly");
      const double h = 1e-7; // finite-difference limit in the reference is not available for 6 arguments; compare against mHp(1 +- h) average
      const double m1 = MW * (1 + h), m2 = MW * (1 - h);
      const double b1[6] = {mu * mu / (m1 * m1), md * md / (m1 * m1), yu, yd, qu, qd}, b2[6] = {mu * mu / (m2 * m2), md * md / (m2 * m2), yu, yd, qu, qd};
      const LD ru = (mpref_evaln(MPREF_FCWu, b1) + mpref_evaln(MPREF_FCWu, b2)) / 2, rd = (mpref_evaln(MPREF_FCWd, b1) + mpref_evaln(MPREF_FCWd, b2)) / 2;
      check_acc("FCWu", cell, gm2calc::FCWu(xu, xd, yu, yd, qu, qd), ru, 0, 1e-6, c, "C02:FCWu" + suffix_eq);
      check_acc("FCWd", cell, gm2calc::FCWd(xu, xd, yu, yd, qu, qd), rd, 0, 1e-6, c, "C02:FCWd" + suffix_eq);
   }
}

static void zero_limits() {
   std::stringstream ss; std::streambuf* old = std::cerr.rdbuf(ss.rdbuf());
   struct Z { const char* fn; double v; double expect; };
   const double ln23 = std::log(4.0 / 9.0) / (4.0 - 9.0);
   const Z tab[] = {
      {"Fa(0,0)", gm2calc::Fa(0, 0), 0}, {"Fb(0,0)", gm2calc::Fb(0, 0), 0},
      {"Iabc(0,0,0)", gm2calc::Iabc(0, 0, 0), 0}, {"Iabc(0,2,3)", gm2calc::Iabc(0, 2, 3), ln23}, {"Iabc(2,0,3)", gm2calc::Iabc(2, 0, 3), ln23}, {"Iabc(3,2,0)", gm2calc::Iabc(3, 2, 0), ln23},
      {"FPZ(0,2)", gm2calc::FPZ(0, 2), 0}, {"FPZ(2,0)", gm2calc::FPZ(2, 0), 0}, {"FSZ(0,2)", gm2calc::FSZ(0, 2), 0}, {"FSZ(2,0)", gm2calc::FSZ(2, 0), 0},
      {"FCWl(0,2)", gm2calc::FCWl(0, 2), 0}, {"FCWl(2,0)", gm2calc::FCWl(2, 0), 0}, {"f_CSd(0.3,0)", gm2calc::f_CSd(0.3, 0, 2.0 / 3, -1.0 / 3), 0},
      {"lambda_2(0,0,5)", gm2calc::lambda_2(0, 0, 5), 25}, {"lambda_2(0,3,5)", gm2calc::lambda_2(0, 3, 5), 4},
   };
   std::cerr.rdbuf(old);
   for (const Z& z : tab) {
      const double e = z.expect == 0 ? (z.v == 0 ? 0 : 1) : std::fabs(z.v - z.expect) / std::fabs(z.expect);
      J w; w.str("call", z.fn).d("value", z.v).d("documented", z.expect);
      out->cell(std::string("zero-limit|") + z.fn, e, &w);
      if (!(e <= 1e-15)) out->fail(std::string("C02:zero-limit:") + z.fn, std::string(z.fn) + " = " + vh::num(z.v) + ", documented limit " + vh::num(z.expect), w);
   }
}

// call histories: f(p), f(p with one argument changed), f(p) again, and the neighbour after an unrelated call - the value of a call must not depend on the
// calls before it (what a result remembered under an incomplete key, or state left behind by a branch, would break)
static void case_history(vh::Rng& r) {
   struct MF { const char* name; int nargs; double (*f)(const double*); };
   static const MF F[] = {
      {"Fa", 2, [](const double* p) { return gm2calc::Fa(p[0], p[1]); }}, {"Fb", 2, [](const double* p) { return gm2calc::Fb(p[0], p[1]); }},
      {"Iabc", 3, [](const double* p) { return gm2calc::Iabc(p[0], p[1], p[2]); }}, {"Phi", 3, [](const double* p) { return gm2calc::Phi(p[0], p[1], p[2]); }},
      {"lambda_2", 3, [](const double* p) { return gm2calc::lambda_2(p[0], p[1], p[2]); }},
      {"FPZ", 2, [](const double* p) { return gm2calc::FPZ(p[0], p[1]); }}, {"FSZ", 2, [](const double* p) { return gm2calc::FSZ(p[0], p[1]); }}, {"FCWl", 2, [](const double* p) { return gm2calc::FCWl(p[0], p[1]); }},
      {"FCWu", 4, [](const double* p) { return gm2calc::FCWu(p[0], p[1], p[2], p[3], 2.0 / 3, -1.0 / 3); }}, {"FCWd", 4, [](const double* p) { return gm2calc::FCWd(p[0], p[1], p[2], p[3], 2.0 / 3, -1.0 / 3); }},
      {"f_CSd", 2, [](const double* p) { return gm2calc::f_CSd(p[0], p[1], 2.0 / 3, -1.0 / 3); }}, {"f_CSu", 2, [](const double* p) { return gm2calc::f_CSu(p[0], p[1], 2.0 / 3, -1.0 / 3); }}};
   const MF& f = F[r.range(sizeof(F) / sizeof(*F))];
   double p[4], q[4], u[4];
   for (int k = 0; k < 4; ++k) { p[k] = r.LU(1e-3, 1e3); u[k] = r.LU(1e-3, 1e3); q[k] = p[k]; }
   if (r.chance(0.3)) p[1] = q[1] = p[0];                                   // on an equal-argument branch
   if (f.nargs == 4) { p[2] = q[2] = p[0] * r.LU(1e-2, 1); p[3] = q[3] = p[1] * (p[2] / p[0]); u[2] = u[0] * 0.3; u[3] = u[1] * 0.3; }   // (xu, yu, xd, yd) with a common mass ratio
   const int j = r.range(f.nargs);
   q[j] = r.chance(0.5) ? p[j] * (1 + r.sign() * r.LU(1e-12, 1e-2)) : p[j] * r.LU(0.1, 10);
   const double a1 = f.f(p), b1 = f.f(q), a2 = f.f(p);
   f.f(u); const double b2 = f.f(q);
   f.f(u); const double a3 = f.f(p);
   const bool ok = vh::same_bits(a1, a2) && vh::same_bits(a1, a3) && vh::same_bits(b1, b2);
   J c; c.str("fn", f.name).arr("p", p, p + f.nargs).arr("neighbour", q, q + f.nargs).arr("unrelated", u, u + f.nargs).i("changed_argument", j).d("f(p)", a1).d("f(p) after neighbour", a2).d("f(p) after unrelated", a3).d("f(q) after p", b1).d("f(q) after unrelated", b2);
   out->cell(std::string(f.name) + "|call-history", ok ? 0 : 1, &c);
   if (!ok) out->fail(std::string("C02:") + f.name + ":call-history", std::string(f.name) + ": the value of a call depends on the calls before it", c);
}

int main(int argc, char** argv) {
   vh::Args a(argc, argv);
   vh::Out o(a); out = &o;
   PHI_CAP = a.getd("phicap", 1e-7);
   if (a.worker == 0 && a.only < 0) { o.cur = -1; zero_limits(); }
   for (long i = a.first(); i < a.last(); ++i) {
      o.cur = i;
      vh::Rng r(a.seed, a.worker, i);
      ++o.evaluations; ++o.conclusive;
      if (i % 16 == 15) { case_history(r); continue; }
      switch (i % 8) {
      case 0: case 1: case_FaFb(r); break;
      case 2: case 3: case 4: case_triple(r); break;
      case 5: case 6: case_dq(r); break;
      default: case_fcw(r); break;
      }
      if (i < 2) { J s; s.i("kind", i % 8); o.sample(s); }
   }
   o.finish();
   return 0;
}
