// C05: DR-bar -> on-shell conversion reproduces the input pole masses (or warns) and recovers on-shell parameters.
#include "gen.hpp"
#include <sstream>
#include "gm2calc/gm2_1loop.hpp"
#include "gm2calc/gm2_2loop.hpp"
#include "MSSMNoFV/gm2_1loop_helpers.hpp"
#include "gm2_ffunctions.hpp"

using namespace gm2calc;
using vh::J;
static vh::Out* out;

// sum of the absolute one-loop terms: the scale on which a_mu of two nearby points is compared (DESIGN 4.1)
static double S1of(const MSSMNoFV_onshell& m) {
   const auto aan = AAN(m), bbn = BBN(m); const auto aac = AAC(m), bbc = BBC(m); const auto x = x_im(m); const auto xk = x_k(m);
   const double mm = m.get_MM(); double s = 0;
   for (int i = 0; i < 4; ++i) for (int k = 0; k < 2; ++k) { const double ms2 = m.get_MSm(k) * m.get_MSm(k); s += std::fabs(aan(i, k) * F1N(x(i, k)) / (12 * ms2)) + std::fabs(m.get_MChi(i) * bbn(i, k) * F2N(x(i, k)) / (6 * mm * ms2)); }
   const double msv2 = m.get_MSvmL() * m.get_MSvmL();
   for (int k = 0; k < 2; ++k) s += (std::fabs(aac(k) * F1C(xk(k)) / 12) + std::fabs(m.get_MCha(k) * bbc(k) * F2C(xk(k)) / (3 * mm))) / msv2;
   return s * mm * mm / (16 * M_PI * M_PI);
}

struct Miss { double dcha, dchi, dsv, dsm, msm; };
// observation hook in convert_to_onshell() (GM2CALC_VERIF builds): the model right after the fit of me2(1,1), before the final Yukawa update
namespace gm2calc { namespace verif { extern void (*after_convert_me2)(const MSSMNoFV_onshell&); } }
static thread_local double hook_me2_residual = -1;   // right-like smuon mass against its pole mass at that moment (-1: hook not reached)
static Miss misses(const MSSMNoFV_onshell& b) {
   const auto& ph = b.get_physical();
   Miss m;
   m.dcha = (b.get_MCha() - ph.MCha).abs().maxCoeff();
   int ib, ibp; b.get_ZN().col(0).cwiseAbs2().maxCoeff(&ib); ph.ZN.col(0).cwiseAbs2().maxCoeff(&ibp);   // bino-like state: largest bino component
   m.dchi = std::fabs(b.get_MChi(ib) - ph.MChi(ibp));
   m.dsv = std::fabs(b.get_MSvmL() - ph.MSvmL);
   const int ir = (std::norm(b.get_ZM()(0, 0)) > std::norm(b.get_ZM()(0, 1))) ? 1 : 0;   // mostly right-handed smuon from the fitted mixing
   Eigen::Array<double, 2, 1> sp = ph.MSm; std::sort(sp.data(), sp.data() + 2);
   m.dsm = std::fabs(b.get_MSm(ir) - sp(ir)); m.msm = sp(ir);
   return m;
}

static void on_after_convert_me2(const MSSMNoFV_onshell& m) {
   MSSMNoFV_onshell c(m); c.calculate_MSm();
   hook_me2_residual = misses(c).dsm;
}

int main(int argc, char** argv) {
   vh::Args a(argc, argv);
   vh::Out o(a); out = &o;
   gen::CerrCapture cap;
   gm2calc::verif::after_convert_me2 = &on_after_convert_me2;
   for (long i = a.first(); i < a.last(); ++i) {
      o.cur = i;
      vh::Rng r(a.seed, a.worker, i);
      ++o.evaluations;
      MSSMNoFV_onshell A;
      // one case in five in the region where the fit of the right-handed smuon parameter is hardest: left and right parameters within 3 %, large mu tan(beta)
      // (the fixed-point iteration fails there and the root finder takes over; nearly maximal mixing)
      const bool hard = r.chance(0.2);
      const double tb = hard ? r.LU(20, 60) : r.LU(2, 60), mu = r.sign() * (hard ? r.LU(1000, 3000) : r.LU(100, 3000)), m1 = r.sign() * r.LU(100, 3000), m2 = r.sign() * r.LU(100, 3000);
      A.set_TB(tb); A.set_Mu(mu); A.set_MassB(m1); A.set_MassWB(m2); A.set_MassG(r.LU(500, 5000)); A.set_MA0(r.LU(200, 3000)); A.set_scale(r.LU(200, 3000));
      double ml[3], me[3];
      for (int g = 0; g < 3; ++g) { ml[g] = r.LU(100, 3000); me[g] = (hard && g == 1) ? ml[g] * (1 + r.U(-0.03, 0.03)) : r.LU(100, 3000); A.set_ml2(g, g, ml[g] * ml[g]); A.set_me2(g, g, me[g] * me[g]);
         const double q = r.LU(500, 5000); A.set_mq2(g, g, q * q); A.set_mu2(g, g, q * q * 1.1); A.set_md2(g, g, q * q * 0.9); A.set_Ae(g, g, r.U(-1, 1) * 500); A.set_Au(g, g, r.U(-1, 1) * 1000); A.set_Ad(g, g, r.U(-1, 1) * 1000); }
      // the three call forms of the public signature convert_to_onshell(precision = 1e-8, max_iterations = 1000): both arguments, the precision only, none
      const int callform = static_cast<int>(i % 4 == 3 ? 2 : i % 2);
      const double pert = 0.05, prec = callform == 2 ? 1e-8 : std::pow(10.0, r.U(-10, -4));
      const double pm[5] = {1 + r.U(-pert, pert), 1 + r.U(-pert, pert), 1 + r.U(-pert, pert), 1 + r.U(-pert, pert), 1 + r.U(-pert, pert)};
      J c; c.d("tb", tb).d("mu", mu).d("M1", m1).d("M2", m2).arr("ml", ml, ml + 3).arr("me", me, me + 3).d("precision", prec).arr("perturbation", pm, pm + 5);
      try { A.calculate_masses(); } catch (const Error&) { ++o.inconclusive; o.count("onshell-point-rejected"); continue; }
      if (A.get_problems().have_problem()) { ++o.inconclusive; o.count("onshell-point-problem"); continue; }
      const double amu_a = calculate_amu_1loop(A) + calculate_amu_2loop(A);
      const double th0 = 0.5 * std::atan2(2 * std::fabs(A.get_mass_matrix_Sm()(0, 1)), std::fabs(A.get_mass_matrix_Sm()(0, 0) - A.get_mass_matrix_Sm()(1, 1)));   // smuon mixing angle
      const bool well0 = std::fabs(ml[1] / me[1] - 1) > 0.1 && std::fabs(me[1] / ml[1] - 1) > 0.1 && th0 < 0.05 &&
                         std::fabs(std::fabs(mu / m2) - 1) > 0.15 && std::fabs(std::fabs(m2 / mu) - 1) > 0.15 && std::fabs(std::fabs(m1 / mu) - 1) > 0.15 && std::fabs(std::fabs(mu / m1) - 1) > 0.15 &&
                         std::fabs(std::fabs(m1 / m2) - 1) > 0.15 && std::fabs(std::fabs(m2 / m1) - 1) > 0.15;
      // ---- setter-driven input without pole mixing matrices (what the C interface and an SLHA file without NMIX/SMUMIX provide): parameters and pole
      // masses only; once on a fresh object and once on a long-lived object that went through the conversions of the earlier cases (a scan loop)
      if (i % 2 == 0) {
         auto fill = [&](MSSMNoFV_onshell& m) {
            m.get_problems().clear();
            m.set_TB(tb); m.set_Mu(mu * pm[0]); m.set_MassB(m1 * pm[1]); m.set_MassWB(m2 * pm[2]); m.set_MassG(A.get_MassG()); m.set_MA0(A.get_physical().MAh(1)); m.set_scale(A.get_scale());
            for (int g = 0; g < 3; ++g) { m.set_ml2(g, g, A.get_ml2(g, g) * (g == 1 ? pm[3] : 1)); m.set_me2(g, g, A.get_me2(g, g) * (g == 1 ? pm[4] : 1)); m.set_mq2(g, g, A.get_mq2(g, g)); m.set_mu2(g, g, A.get_mu2(g, g)); m.set_md2(g, g, A.get_md2(g, g));
               m.set_Ae(g, g, A.get_Ae(g, g)); m.set_Au(g, g, A.get_Au(g, g)); m.set_Ad(g, g, A.get_Ad(g, g)); }
            m.get_physical().MSvmL = A.get_physical().MSvmL; m.get_physical().MSm = A.get_physical().MSm; m.get_physical().MChi = A.get_physical().MChi; m.get_physical().MCha = A.get_physical().MCha;
         };
         struct Res { bool thrown = false, warn = false, problem = false; double v[8] = {0, 0, 0, 0, 0, 0, 0, 0}; };
         auto run = [&](MSSMNoFV_onshell& m) { Res q; fill(m); try { m.convert_to_onshell(prec, 1000); q.warn = m.get_problems().have_warning(); q.problem = m.get_problems().have_problem();
               q.v[0] = m.get_Mu(); q.v[1] = m.get_MassB(); q.v[2] = m.get_MassWB(); q.v[3] = m.get_ml2(1, 1); q.v[4] = m.get_me2(1, 1); q.v[5] = calculate_amu_1loop(m); q.v[6] = calculate_amu_2loop(m); q.v[7] = m.get_MSm(0); }
            catch (const Error&) { q.thrown = true; } return q; };
         MSSMNoFV_onshell fresh; const Res qf = run(fresh);
         static thread_local MSSMNoFV_onshell longlived; const Res ql = run(longlived);
         // the conversion is an iteration that stops once within the requested precision, so its result depends (within that precision) on the state it starts
         // from; compared where it converged on both objects and the point is well-conditioned, on the tolerance of the recovery clause
         const double rtolh = 1e-6 + 1000 * prec / std::min({std::fabs(mu), std::fabs(m1), std::fabs(m2), ml[1], me[1]});
         J w = c; w.str("input", "setters, pole masses without mixing matrices").i("fresh_thrown", qf.thrown).i("fresh_warning", qf.warn).i("reused_thrown", ql.thrown).i("reused_warning", ql.warn).arr("fresh", qf.v, qf.v + 8).arr("reused", ql.v, ql.v + 8);
         // (whether a borderline point is rejected - e.g. a stau tachyon met in the first iteration - depends on the Yukawa couplings the object carries from before:
         //  seen 3 times in 50 000; the property quantifies over accepted inputs, so this is counted, not judged)
         if (qf.thrown != ql.thrown) o.count("no-pole-mixing: rejected on one of fresh/re-used object only (reported)");
         else if (!qf.thrown && !qf.warn && !ql.warn && !qf.problem && !ql.problem && well0) {
            double e = 0; for (int k = 0; k < 3; ++k) e = std::max(e, std::fabs(qf.v[k] / ql.v[k] - 1)); for (int k = 3; k < 5; ++k) e = std::max(e, 0.5 * std::fabs(qf.v[k] / ql.v[k] - 1));
            w.d("relative_parameter_difference", e).d("tolerance", rtolh);
            o.cell("no-pole-mixing|re-used-object=fresh-object|parameters|prec" + vh::decade(prec), e / rtolh, &w);
            if (!(e <= rtolh)) o.fail("C05:re-used-object-differs", "convert_to_onshell on an object that went through earlier conversions fits other parameters than on a fresh object with the same input: relative " + vh::num(e), w);
         } else o.count("no-pole-mixing: fresh/re-used comparison not applicable (warning, problem or ill-conditioned)");
         if (!qf.thrown && !qf.warn && !qf.problem) {
            // the clauses of the property on this path: the bino-like state is the one the fitted mixing identifies
            const auto& ph = fresh.get_physical();
            int ib; fresh.get_ZN().col(0).cwiseAbs2().maxCoeff(&ib);
            // without pole mixing matrices the input does not say which pole mass belongs to the bino-like state (with |M1| ~ |M2| the guess and the solution order
            // them differently): demanded is that the bino-like state sits on one of the input pole masses
            double dchi = 1e300; for (int j = 0; j < 4; ++j) dchi = std::min(dchi, std::fabs(fresh.get_MChi(ib) - ph.MChi(j)));
            const double dcha = (fresh.get_MCha() - ph.MCha).abs().maxCoeff(), dsv = std::fabs(fresh.get_MSvmL() - ph.MSvmL);
            const double tol = prec * 1.0001 + 1e-13 * std::max(std::fabs(mu), std::fabs(m2));
            w.d("d_chargino", dcha).d("d_bino", dchi).d("d_sneutrino", dsv);
            o.cell("no-pole-mixing|pole:charginos", dcha / prec, &w); o.cell("no-pole-mixing|pole:bino-like-neutralino", dchi / prec, &w); o.cell("no-pole-mixing|pole:muon-sneutrino", dsv / prec, &w);
            if (!(dcha <= tol)) o.fail("C05:no-pole-mixing:pole:charginos", "chargino pole masses missed by " + vh::num(dcha) + " GeV without warning (input without pole mixing matrices)", w);
            if (!(dchi <= tol)) o.fail("C05:no-pole-mixing:pole:bino-like-neutralino", "bino-like neutralino pole mass missed by " + vh::num(dchi) + " GeV without warning (input without pole mixing matrices)", w);
            if (!(dsv <= tol)) o.fail("C05:no-pole-mixing:pole:muon-sneutrino", "muon-sneutrino pole mass missed by " + vh::num(dsv) + " GeV without warning (input without pole mixing matrices)", w);
            // and the fitted parameters are those of the original point wherever the path with pole mixing matrices recovers them (compared below through B)
         } else o.count(std::string("no-pole-mixing: ") + (qf.thrown ? "rejected" : "warned"));
      }
      // SLHA-type model: A's pole spectrum (masses and mixings) with perturbed guesses of the five fitted parameters
      MSSMNoFV_onshell B(A); B.get_problems().clear();
      B.set_Mu(mu * pm[0]); B.set_MassB(m1 * pm[1]); B.set_MassWB(m2 * pm[2]); B.set_ml2(1, 1, ml[1] * ml[1] * pm[3]); B.set_me2(1, 1, me[1] * me[1] * pm[4]);
      hook_me2_residual = -1;
      try { if (callform == 0) B.convert_to_onshell(prec, 1000); else if (callform == 1) B.convert_to_onshell(prec); else B.convert_to_onshell(); }
      catch (const Error& e) { ++o.inconclusive; o.count(std::string("conversion-rejected(outside the quantifier): ") + e.what()); continue; }   // e.g. a stau tachyon for the perturbed mu
      c.str("call", callform == 0 ? "convert_to_onshell(precision, 1000)" : (callform == 1 ? "convert_to_onshell(precision)" : "convert_to_onshell()"));
      const double fit_residual = hook_me2_residual;
      ++o.conclusive;
      const std::string order = std::string(hard ? "near-degenerate-LR|" : "") + std::string(me[1] < ml[1] ? "R-lighter" : "R-heavier") + (std::fabs(m1) < std::min(std::fabs(m2), std::fabs(mu)) ? "|bino-lightest" : "|bino-not-lightest") + "|prec" + vh::decade(prec) + (callform == 0 ? "" : (callform == 1 ? "|one-argument-form" : "|no-argument-form"));
      const bool warn = B.get_problems().have_warning();
      const double amu_b = calculate_amu_1loop(B) + calculate_amu_2loop(B);
      // the report channels agree with each other: have_warning() <=> get_warnings() non-empty <=> one of the two convergence records is set; a record that is set
      // carries a finite accuracy above the requested precision, and the one of me2 is the residual of the right-like smuon observed (hook) after the fit
      {
         const auto pm1 = B.get_problems().get_Mu_MassB_MassWB_convergence_problem(), pm2 = B.get_problems().get_me2_convergence_problem();
         const std::string ws = B.get_problems().get_warnings(); std::ostringstream pw; B.get_problems().print_warnings(pw);
         const bool rec1 = pm1.precision != 0 || pm1.iterations != 0, rec2 = pm2.precision != 0 || pm2.iterations != 0;
         bool okr = warn == !ws.empty() && warn == !pw.str().empty() && warn == (rec1 || rec2);
         if (rec1) okr = okr && std::isfinite(pm1.precision) && pm1.precision > prec;
         if (rec2) okr = okr && std::isfinite(pm2.precision) && pm2.precision > prec && fit_residual >= 0 && std::fabs(pm2.precision - fit_residual) <= 1e-6 * std::max(pm2.precision, fit_residual) + 1e-12;
         J w = c; w.i("have_warning", warn).str("get_warnings", ws.substr(0, 200)).d("Mu_M1_M2_record_precision", pm1.precision).i("Mu_M1_M2_record_iterations", pm1.iterations).d("me2_record_precision", pm2.precision).i("me2_record_iterations", pm2.iterations).d("right_smuon_residual_after_the_me2_fit(hook)", fit_residual);
         o.cell(std::string("report-channels-consistent|") + (warn ? (rec1 && rec2 ? "both-records" : (rec1 ? "Mu,M1,M2-record" : "me2-record")) : "no-warning"), okr ? 0 : 1, &w);
         if (!okr) o.fail("C05:report-channels-inconsistent", "have_warning(), get_warnings(), print_warnings() and the convergence records (or the recorded me2 accuracy and the observed residual) disagree", w);
      }
      if (warn) {
         o.cell("warned|" + order, 0, &c);
         const bool fin = std::isfinite(amu_b) && std::isfinite(B.get_Mu()) && std::isfinite(B.get_MassB()) && std::isfinite(B.get_MassWB()) && std::isfinite(B.get_me2(1, 1)) && std::isfinite(B.get_ml2(1, 1));
         if (!fin) o.fail("C05:warned-but-nonfinite", "conversion warned and left non-finite parameters or a_mu", c);
         continue;
      }
      // (a) pole reproduction within the requested precision (absolute, GeV)
      const Miss m = misses(B);
      J w = c; w.d("d_chargino", m.dcha).d("d_bino", m.dchi).d("d_sneutrino", m.dsv).d("d_smuonR", m.dsm);
      const double tol = prec * 1.0001 + 1e-13 * std::max(std::fabs(mu), std::fabs(m2));
      o.cell("pole:charginos|" + order, m.dcha / prec, &w); o.cell("pole:bino-like-neutralino|" + order, m.dchi / prec, &w); o.cell("pole:muon-sneutrino|" + order, m.dsv / prec, &w);
      if (!(m.dcha <= tol)) o.fail("C05:pole:charginos", "chargino pole masses missed by " + vh::num(m.dcha) + " GeV (precision " + vh::num(prec) + ") without warning", w);
      if (!(m.dchi <= tol)) o.fail("C05:pole:bino-like-neutralino", "bino-like neutralino pole mass missed by " + vh::num(m.dchi) + " GeV without warning", w);
      if (!(m.dsv <= tol)) o.fail("C05:pole:muon-sneutrino", "muon-sneutrino pole mass missed by " + vh::num(m.dsv) + " GeV without warning", w);
      bool lagmiss = false;
      if (!(m.dsm <= tol)) {
         // known finding (yukawa-lag), identified by its mechanism: observed through the hook in convert_to_onshell(), the fit of me2(1,1) had reached the
         // requested precision - the right-like smuon sat on its pole mass - and the final update of the Yukawa couplings moved it away again, unreported.
         // A fit that had NOT reached the precision and is not reported either (wrong state, misreported accuracy) keeps the plain key.
         const bool lag = fit_residual >= 0 && fit_residual <= tol;
         w.d("right_smuon_residual_after_the_me2_fit(hook)", fit_residual);
         lagmiss = lag;
         w.i("fit_had_converged", lag);
         o.cell("pole:right-smuon|" + order + (lag ? "|yukawa-lag" : "|MISS"), m.dsm / prec, &w);
         o.fail(lag ? "C05:smuonR-pole:yukawa-lag" : "C05:pole:right-smuon", "right-like smuon pole mass missed by " + vh::num(m.dsm) + " GeV (precision " + vh::num(prec) + ") without warning", w, m.dsm / m.msm);
      } else o.cell("pole:right-smuon|" + order, m.dsm / prec, &w);
      // (b) recovery of the on-shell parameters on the well-conditioned subset
      const double rec = std::max({std::fabs(B.get_Mu() / mu - 1), std::fabs(B.get_MassB() / m1 - 1), std::fabs(B.get_MassWB() / m2 - 1), std::fabs(std::sqrt(std::fabs(B.get_ml2(1, 1))) / ml[1] - 1), std::fabs(std::sqrt(std::fabs(B.get_me2(1, 1))) / me[1] - 1)});
      const double th = 0.5 * std::atan2(2 * std::fabs(A.get_mass_matrix_Sm()(0, 1)), std::fabs(A.get_mass_matrix_Sm()(0, 0) - A.get_mass_matrix_Sm()(1, 1)));   // smuon mixing angle
      const bool well = std::fabs(ml[1] / me[1] - 1) > 0.1 && std::fabs(me[1] / ml[1] - 1) > 0.1 && th < 0.05 &&
                        std::fabs(std::fabs(mu / m2) - 1) > 0.15 && std::fabs(std::fabs(m2 / mu) - 1) > 0.15 && std::fabs(std::fabs(m1 / mu) - 1) > 0.15 && std::fabs(std::fabs(mu / m1) - 1) > 0.15 &&
                        std::fabs(std::fabs(m1 / m2) - 1) > 0.15 && std::fabs(std::fabs(m2 / m1) - 1) > 0.15;
      w.d("recovery_rel", rec).d("amu_original", amu_a).d("amu_converted", amu_b).d("smuon_mixing_angle", th).i("well_conditioned", well);
      // the achievable recovery is limited by the requested precision: d(parameter)/parameter ~ precision/mass
      // ... and, where the right-smuon pole is missed by the (known) Yukawa lag, by that miss: me2(1,1) is fitted to the shifted mass
      const double rtol = 1e-6 + 100 * prec / std::min({std::fabs(mu), std::fabs(m1), std::fabs(m2), ml[1], me[1]}) + (lagmiss ? 20 * m.dsm / std::min(ml[1], me[1]) : 0.0);
      if (well) {
         o.cell("recovery:parameters|well-conditioned|prec" + vh::decade(prec), rec / rtol, &w);
         if (!(rec <= rtol)) o.fail("C05:recovery:parameters", "on-shell parameters not recovered on a well-conditioned point: relative " + vh::num(rec), w);
         const double ea = std::fabs(amu_a - amu_b) / std::max({std::fabs(amu_a), std::fabs(calculate_amu_1loop(A)), S1of(A)});
         o.cell("recovery:amu|well-conditioned|prec" + vh::decade(prec), ea / (10 * rtol), &w);
         if (!(ea <= 10 * rtol)) o.fail("C05:recovery:amu", "a_mu of the converted point differs from the original by " + vh::num(ea), w);
      } else o.cell("recovery:parameters|ill-conditioned(reported)", rec, &w);
      o.sample(c, 1);
   }
   o.finish();
   return 0;
}
