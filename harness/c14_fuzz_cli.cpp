// C14: coverage-guided generator.  libFuzzer drives an in-process copy of main() (src/gm2calc.cpp compiled with
// -Dmain=gm2calc_main); the first byte selects the input-type option, the rest is the input delivered through a memfd.
// This harness only GENERATES inputs: verdicts come from re-running its corpus and artifacts through the real binary.
#include <cstdint>
#include <cstdio>
#include <cstdlib>
#include <string>
#include <iostream>
#include <sstream>
#include <unistd.h>
#include <sys/mman.h>
#include <fcntl.h>
int gm2calc_main(int argc, const char* argv[]);
extern "C" int LLVMFuzzerTestOneInput(const uint8_t* data, size_t size) {
   if (size < 1) return 0;
   static int fd = -1; static std::string path;
   if (fd < 0) { fd = memfd_create("in", 0); path = "/proc/self/fd/" + std::to_string(fd); }
   const int kind = data[0] % 3; ++data; --size;
   if (ftruncate(fd, 0) != 0) return 0;
   lseek(fd, 0, SEEK_SET); if (write(fd, data, size) != static_cast<ssize_t>(size)) return 0; lseek(fd, 0, SEEK_SET);
   const std::string opt = std::string(kind == 0 ? "--slha-input-file=" : kind == 1 ? "--gm2calc-input-file=" : "--thdm-input-file=") + path;
   const char* argv[] = {"gm2calc.x", opt.c_str()};
   std::ostringstream out, err; auto o = std::cout.rdbuf(out.rdbuf()); auto e = std::cerr.rdbuf(err.rdbuf());
   int rc = 0;
   try { rc = gm2calc_main(2, argv); } catch (...) { std::cout.rdbuf(o); std::cerr.rdbuf(e); abort(); }   // the real program would terminate
   std::cout.clear(); std::cerr.clear();
   std::cout.rdbuf(o); std::cerr.rdbuf(e);
   if (rc != 0 && rc != 1) abort();
   return 0;
}
