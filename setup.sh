#!/bin/bash
# Run once after a fresh restore (offline): builds what does not depend on /repo (the multiprecision
# reference and its self-test), cross-checks the reference against mpmath, and warms the build cache
# for the current tree.  Checks rebuild by content hash, so an edited tree is recompiled by the check itself.
set -e
cd "$(dirname "$0")"
export PYTHONDONTWRITEBYTECODE=1
python3 - <<'PY'
import os, subprocess, sys
sys.path.insert(0, '.')
from lib import build
o = build.mpref()
st = os.path.join(build.CACHE, 'mpref', 'selftest')
subprocess.check_call(['g++', '-std=c++14', '-O1', '-Iharness/common', 'harness/mpref_selftest.cpp', o, '-o', st])
out = subprocess.run([st], capture_output=True, text=True)
open(os.path.join(build.CACHE, 'mpref', 'selftest.out'), 'w').write(out.stdout)
if out.returncode != 0:
    print(out.stdout[-2000:]); sys.exit('mpref internal self-test failed')
r = subprocess.run(['python3-vt', 'lib/mpref_check.py'], input=out.stdout, capture_output=True, text=True)
print(r.stdout.strip()[-2000:])
if r.returncode != 0:
    print(r.stderr[-2000:]); sys.exit('mpref cross-check against mpmath failed')
PY
python3 lib/warm.py
echo "setup done"
