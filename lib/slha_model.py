"""Executable reference model of the SLHA reader (C13): a file is an ordered list of
(block, Q, tokens) assignments; last write wins; block names are case-insensitive; scale-dependent
MSSM blocks are taken only from blocks whose Q matches the Q of the last HMIX block (tolerance 0.01);
the key -> parameter tables are those of README.md.  Independent of SLHAea."""
import math

PI = 3.14159265358979323846
EPS = 2.220446049250313e-16


def parse(text):
    """-> list of blocks: dict(name=UPPER, q=float|None, lines=[tokens])."""
    blocks = []
    cur = None
    for raw in text.split("\n"):
        line = raw.split("#", 1)[0].strip()
        if not line:
            continue
        t = line.split()
        if t[0].lower() == "block":
            q = None
            if len(t) > 3 and t[2] == "Q=":
                q = float(t[3])
            cur = dict(name=t[1].upper() if len(t) > 1 else "", q=q, lines=[])
            blocks.append(cur)
        elif cur is not None:
            cur["lines"].append(t)
    return blocks


def msqrt(x):
    return math.sqrt(x) if x >= 0 else float("nan")


def signed_sqr(v):
    return math.copysign(v * v, v) if v != 0 else v * v


def kv(blocks, name, scale=0.0):
    """(key, value) pairs of all blocks called name (in file order), optionally restricted to a scale."""
    for b in blocks:
        if b["name"] != name.upper():
            continue
        if abs(scale) >= EPS:
            bq = b["q"] if b["q"] is not None else 0.0
            if not abs(scale - bq) < 0.01:
                continue
        for t in b["lines"]:
            if len(t) >= 2:
                yield int(t[0]), float(t[1])


def matrix(blocks, name, rows, cols, scale=0.0, init=None):
    m = init if init is not None else [[0.0] * cols for _ in range(rows)]
    for b in blocks:
        if b["name"] != name.upper():
            continue
        if abs(scale) >= EPS:
            bq = b["q"] if b["q"] is not None else 0.0
            if not abs(scale - bq) < 0.01:
                continue
        for t in b["lines"]:
            if len(t) >= 3:
                i, k = int(t[0]) - 1, int(t[1]) - 1
                if 0 <= i < rows and 0 <= k < cols:
                    m[i][k] = float(t[2])
    return m


SM_PHYS = {4: "MVZ", 5: "MFb", 6: "MFt", 7: "MFtau", 9: "MVWm", 11: "MFe", 13: "MFm", 21: "MFd", 22: "MFu", 23: "MFs", 24: "MFc"}
GEN3 = lambda n: {0: n + "(0)", 1: n + "(1)", 2: n + "(2)"}


def predict_sminputs_mssm(blocks, P):
    for k, v in kv(blocks, "SMINPUTS"):
        if k == 3:
            P["g3"] = msqrt(4 * PI * v)
        elif k in SM_PHYS:
            P[SM_PHYS[k]] = v


def predict_gm2calc(text, defaults):
    """GM2Calc input format: SMINPUTS then GM2CalcInput."""
    P = dict(defaults)
    b = parse(text)
    predict_sminputs_mssm(b, P)
    soft = {9: "ml2(0)", 10: "ml2(1)", 11: "ml2(2)", 12: "me2(0)", 13: "me2(1)", 14: "me2(2)", 15: "mq2(0)", 16: "mq2(1)", 17: "mq2(2)",
            18: "mu2(0)", 19: "mu2(1)", 20: "mu2(2)", 21: "md2(0)", 22: "md2(1)", 23: "md2(2)"}
    A = {24: "Ae(0,0)", 25: "Ae(1,1)", 26: "Ae(2,2)", 27: "Ad(0,0)", 28: "Ad(1,1)", 29: "Ad(2,2)", 30: "Au(0,0)", 31: "Au(1,1)", 32: "Au(2,2)"}
    for k, v in kv(b, "GM2CalcInput"):
        if k == 0: P["scale"] = v
        elif k == 1: P["EL"] = msqrt(4. * PI * v)
        elif k == 2: P["EL0"] = msqrt(4. * PI * v)
        elif k == 3: P["TB_vu/vd"] = v
        elif k == 4: P["Mu"] = v
        elif k == 5: P["MassB"] = v
        elif k == 6: P["MassWB"] = v
        elif k == 7: P["MassG"] = v
        elif k == 8: P["MAh(1)"] = v
        elif k in soft: P[soft[k]] = signed_sqr(v)
        elif k in A: P[A[k]] = v
    return P


MASS_PHYS = {1000012: "MSveL", 1000014: "MSvmL", 1000016: "MSvtL", 1000001: "MSd(0)", 2000001: "MSd(1)", 1000002: "MSu(0)", 2000002: "MSu(1)",
             1000011: "MSe(0)", 2000011: "MSe(1)", 1000013: "MSm(0)", 2000013: "MSm(1)", 1000015: "MStau(0)", 2000015: "MStau(1)",
             1000003: "MSs(0)", 2000003: "MSs(1)", 1000004: "MSc(0)", 2000004: "MSc(1)", 1000005: "MSb(0)", 2000005: "MSb(1)",
             1000006: "MSt(0)", 2000006: "MSt(1)", 25: "Mhh(0)", 35: "Mhh(1)", 36: "MAh(1)", 37: "MHpm(1)", 1000021: "MGlu",
             1000022: "MChi(0)", 1000023: "MChi(1)", 1000025: "MChi(2)", 1000035: "MChi(3)", 1000024: "MCha(0)", 1000037: "MCha(1)"}


def predict_slha(text, defaults):
    """SLHA input format (fill_slha): SMINPUTS, MASS/NMIX/SMUMIX, scale of the last HMIX block, HMIX, A, MSOFT, alpha."""
    P = dict(defaults)
    b = parse(text)
    predict_sminputs_mssm(b, P)
    for k, v in kv(b, "MASS"):
        if k == 24:
            if not abs(v) < EPS:
                P["MVWm"] = v
        elif k in MASS_PHYS:
            P[MASS_PHYS[k]] = v
    zn = matrix(b, "NMIX", 4, 4, init=[[defaults.get("ZN_re(%d,%d)" % (i, j), 0.0) for j in range(4)] for i in range(4)])
    zni = [[0.0] * 4 for _ in range(4)]
    for i in range(4):          # Haber-Kane convention: positive masses, complex rows
        if P["MChi(%d)" % i] < 0:
            for j in range(4):
                zn[i][j], zni[i][j] = 0.0 * zn[i][j], zn[i][j]
            P["MChi(%d)" % i] = -P["MChi(%d)" % i]
    for i in range(4):
        for j in range(4):
            P["ZN_re(%d,%d)" % (i, j)] = zn[i][j]
            P["ZN_im(%d,%d)" % (i, j)] = zni[i][j]
    zm = matrix(b, "SMUMIX", 2, 2, init=[[defaults.get("ZM(%d,%d)" % (i, j), 0.0) for j in range(2)] for i in range(2)])
    for i in range(2):
        for j in range(2):
            P["ZM(%d,%d)" % (i, j)] = zm[i][j]
    scale = 0.0
    for blk in b:
        if blk["name"] == "HMIX":
            scale = blk["q"] if blk["q"] is not None else 0.0
    if abs(scale) < EPS:
        return None   # "Could not determine renormalization scale from HMIX block"
    P["scale"] = scale
    h = dict(mu=0.0, tanb=0.0, mA2=0.0)
    for k, v in kv(b, "HMIX", scale):
        if k == 1: h["mu"] = v
        elif k == 2: h["tanb"] = v
        elif k == 4: h["mA2"] = v
    P["Mu"] = h["mu"]; P["TB_vu/vd"] = h["tanb"]
    scb = h["tanb"] / (1 + h["tanb"] * h["tanb"])
    P["BMu"] = h["mA2"] * scb
    for nm in ("Ae", "Au", "Ad"):
        m = matrix(b, nm.upper(), 3, 3, scale)
        for i in range(3):
            for j in range(3):
                P["%s(%d,%d)" % (nm, i, j)] = m[i][j]
    soft = {31: "ml2(0)", 32: "ml2(1)", 33: "ml2(2)", 34: "me2(0)", 35: "me2(1)", 36: "me2(2)", 41: "mq2(0)", 42: "mq2(1)", 43: "mq2(2)",
            44: "mu2(0)", 45: "mu2(1)", 46: "mu2(2)", 47: "md2(0)", 48: "md2(1)", 49: "md2(2)"}
    for k, v in kv(b, "MSOFT", scale):
        if k == 21: P["mHd2"] = v
        elif k == 22: P["mHu2"] = v
        elif k == 1: P["MassB"] = v
        elif k == 2: P["MassWB"] = v
        elif k == 3: P["MassG"] = v
        elif k in soft: P[soft[k]] = signed_sqr(v)
    a = dict(mz=0.0, th=0.0)
    for k, v in kv(b, "GM2CalcInput"):
        if k == 1: a["mz"] = v
        elif k == 2: a["th"] = v
    if a["mz"] > EPS: P["EL"] = msqrt(4. * PI * a["mz"])
    if a["th"] > EPS: P["EL0"] = msqrt(4. * PI * a["th"])
    return P


def predict_thdm(text, defaults):
    P = dict(defaults)
    b = parse(text)
    sm = {3: "alpha_s_mz", 4: "mz", 5: "sm_md(2)", 6: "sm_mu(2)", 7: "sm_ml(2)", 8: "sm_mv(2)", 9: "mw", 11: "sm_ml(0)", 12: "sm_mv(0)", 13: "sm_ml(1)", 14: "sm_mv(1)",
          21: "sm_md(0)", 22: "sm_mu(0)", 23: "sm_md(1)", 24: "sm_mu(1)"}
    for k, v in kv(b, "SMINPUTS"):
        if k == 1: P["alpha_em_mz"] = 1 / v
        elif k in sm: P[sm[k]] = v
    for k, v in kv(b, "MASS"):
        if k == 24: P["mw"] = v
    for k, v in kv(b, "GM2CalcInput"):
        if k == 33: P["mh"] = v
    w = [0.0] * 4
    for k, v in kv(b, "VCKMIN"):
        if 1 <= k <= 4: w[k - 1] = v
    P["_wolfenstein"] = w
    mbk = {3: "tan_beta", 16: "lambda_6", 17: "lambda_7", 18: "m122", 20: "sba", 21: "zeta_u", 22: "zeta_d", 23: "zeta_l", 24: "type"}
    gbk = {3: "tan_beta", 11: "lambda(0)", 12: "lambda(1)", 13: "lambda(2)", 14: "lambda(3)", 15: "lambda(4)", 16: "lambda(5)", 17: "lambda(6)", 18: "m122",
           21: "zeta_u", 22: "zeta_d", 23: "zeta_l", 24: "type"}
    for k, v in kv(b, "MINPAR"):
        if k in mbk: P["mb." + mbk[k]] = v
        if k in gbk: P["gb." + gbk[k]] = v
    for k, v in kv(b, "MASS"):
        n = {25: "mh", 35: "mH", 36: "mA", 37: "mHp"}.get(k)
        if n: P["mb." + n] = v
    for blk, nm in (("GM2CalcTHDMDeltauInput", "Delta_u"), ("GM2CalcTHDMDeltadInput", "Delta_d"), ("GM2CalcTHDMDeltalInput", "Delta_l"),
                    ("GM2CalcTHDMPiuInput", "Pi_u"), ("GM2CalcTHDMPidInput", "Pi_d"), ("GM2CalcTHDMPilInput", "Pi_l")):
        m = matrix(b, blk, 3, 3)
        for i in range(3):
            for j in range(3):
                P["mb.%s(%d,%d)" % (nm, i, j)] = m[i][j]
                P["gb.%s(%d,%d)" % (nm, i, j)] = m[i][j]
    return P


def ckm_from_wolfenstein(l, A, rho, eta):
    """standard parametrisation from the Wolfenstein parameters (for the CKM entries, compared at 1e-14)."""
    import cmath
    t12 = math.asin(l); t23 = math.asin(A * l * l)
    rpe = complex(rho, eta)
    v13 = A * l ** 3 * rpe * math.sqrt(1.0 - A * A * l ** 4) / math.sqrt(1.0 - l * l) / (1.0 - A * A * l ** 4 * rpe)
    t13 = math.asin(abs(v13)); d = cmath.phase(v13)
    c12, s12, c13, s13, c23, s23 = math.cos(t12), math.sin(t12), math.cos(t13), math.sin(t13), math.cos(t23), math.sin(t23)
    e = cmath.exp(1j * d)
    return [[c12 * c13, s12 * c13, s13 / e],
            [-s12 * c23 - c12 * s23 * s13 * e, c12 * c23 - s12 * s23 * s13 * e, s23 * c13],
            [s12 * s23 - c12 * c23 * s13 * e, -c12 * s23 - s12 * c23 * s13 * e, c23 * c13]]
