#!/usr/bin/env python3
"""Warm the build cache: library + CLI in every configuration, and every harness of every check."""
import importlib
import os
import sys
from concurrent.futures import ThreadPoolExecutor

sys.path.insert(0, os.path.dirname(os.path.dirname(os.path.abspath(__file__))))
from lib import build  # noqa: E402


def main():
    for cfg in ("san", "plain", "tsan"):
        build.library(cfg)
        build.cli(cfg)
    jobs = []
    for f in sorted(os.listdir(os.path.join(build.VERIF, "checks"))):
        if not (f.startswith("c") and f.endswith(".py")):
            continue
        mod = importlib.import_module("checks." + f[:-3])
        for name, kw in getattr(mod, "HARNESSES", {}).items():
            cfgs = kw.pop("cfgs", None) if isinstance(kw, dict) else None
            for cfg in (cfgs or getattr(mod, "WARM_CFGS", ("san",))):
                jobs.append((cfg, name, dict(kw)))
    with ThreadPoolExecutor(max_workers=4) as ex:
        list(ex.map(lambda j: build.harness(j[0], j[1], **j[2]), jobs))
    for j in jobs:
        print("built", j[0], j[1])


if __name__ == "__main__":
    main()
