#!/usr/bin/env python3-vt
"""Cross-check of the C++ multiprecision reference (harness/common/mpref_impl.hpp) against mpmath:
polylog / clsin for Li2 and Cl2, numerical quadrature of the integral representations of f_PS, f_S
and Phi, and a second, independently typed evaluation of the remaining closed forms.
Reads the table printed by mpref_selftest on stdin; exit 0 iff every entry agrees to 1e-15."""
import sys
from mpmath import mp, mpf, mpc, log, sqrt, polylog, pi, quad, clsin

mp.dps = 40
TOL = mpf("1e-15")


def li2(x):
    return polylog(2, x).real


def fPS_closed(z):
    z = mpf(z)
    if z == 0:
        return mpf(0)
    if z == mpf(1) / 4:
        return log(mpf(4))
    y = sqrt(mpc(1 - 4 * z))
    return (2 * z / y * (polylog(2, 1 - (1 - y) / (2 * z)) - polylog(2, 1 - (1 + y) / (2 * z)))).real


def fPS_int(z):
    # hep-ph/0609168 Eq. (70): f_PS(z) = z int_0^1 dx ln(x(1-x)/z) / (x(1-x) - z)   (principal value not needed for z > 1/4)
    z = mpf(z)
    f = lambda x: z * log(x * (1 - x) / z) / (x * (1 - x) - z)
    return quad(f, [0, mpf(1) / 2, 1])


def fS_int(z):
    z = mpf(z)
    f = lambda x: -z * (1 - 2 * x * (1 - x)) * log(x * (1 - x) / z) / (x * (1 - x) - z)
    return quad(f, [0, mpf(1) / 2, 1])


def phi_int(u, v):
    # Davydychev-Tausk integral representation of Phi(u,v)
    f = lambda xi: -(2 * log(xi) + log(v / u)) / (v * xi ** 2 + (1 - u - v) * xi + u)
    return quad(f, [0, 1])


def Phi_from_int(x, y, z):
    x, y, z = sorted([mpf(x), mpf(y), mpf(z)])
    u, v = x / z, y / z
    l2 = (1 - u - v) ** 2 - 4 * u * v
    return phi_int(u, v) * z * l2 / 2


def G3(x): return ((x - 1) * (x - 3) + 2 * log(x)) / (2 * (x - 1) ** 3)
def G4(x): return ((x - 1) * (x + 1) - 2 * x * log(x)) / (2 * (x - 1) ** 3)


ONE = {
    "F1C": lambda x: 2 / (1 - x) ** 4 * (2 + 3 * x - 6 * x ** 2 + x ** 3 + 6 * x * log(x)),
    "F2C": lambda x: 3 / (2 * (1 - x) ** 3) * (-3 + 4 * x - x ** 2 - 2 * log(x)),
    "F3C": lambda x: 4 / (141 * (1 - x) ** 4) * ((1 - x) * (151 * x ** 2 - 335 * x + 592) + 6 * (21 * x ** 3 - 108 * x ** 2 - 93 * x + 50) * log(x)
                                                 - 54 * x * (x ** 2 - 2 * x - 2) * log(x) ** 2 - 108 * x * (x ** 2 - 2 * x + 12) * li2(1 - x)),
    "F4C": lambda x: -9 / (122 * (1 - x) ** 3) * (8 * (x ** 2 - 3 * x + 2) + (11 * x ** 2 - 40 * x + 5) * log(x)
                                                  - 2 * (x ** 2 - 2 * x - 2) * log(x) ** 2 - 4 * (x ** 2 - 2 * x + 9) * li2(1 - x)),
    "F1N": lambda x: 2 / (1 - x) ** 4 * (1 - 6 * x + 3 * x ** 2 + 2 * x ** 3 - 6 * x ** 2 * log(x)),
    "F2N": lambda x: 3 / (1 - x) ** 3 * (1 - x ** 2 + 2 * x * log(x)),
    "F3N": lambda x: 4 / (105 * (1 - x) ** 4) * ((1 - x) * (-97 * x ** 2 - 529 * x + 2) + 6 * x ** 2 * (13 * x + 81) * log(x) + 108 * x * (7 * x + 4) * li2(1 - x)),
    "F4N": lambda x: -mpf(9) / 4 / (1 - x) ** 3 * ((x + 3) * (x * log(x) + x - 1) + (6 * x + 2) * li2(1 - x)),
    "G3": G3, "G4": G4,
    "fPS": fPS_closed,
    "fS": lambda z: (2 * z - 1) * fPS_closed(z) - 2 * z * (2 + log(z)),
    "fsferm": lambda z: z / 2 * (2 + log(z) - fPS_closed(z)),
    "fCSl": lambda z: z * (z + z * (z - 1) * (li2(1 - 1 / z) - pi ** 2 / 6) + (z - mpf(1) / 2) * log(z)),
    "F1": lambda w: (w - mpf(1) / 2) * fPS_closed(w) - w * (2 + log(w)),
    "F1t": lambda w: fPS_closed(w) / 2,
    "F2": lambda w: 1 + (log(w) - fPS_closed(w)) / 2,
    "F3": lambda w: (mpf(1) / 2 + mpf(15) / 2 * w) * (2 + log(w)) + (mpf(17) / 4 - mpf(15) / 2 * w) * fPS_closed(w),
    "dilog": li2,
    "Cl2": lambda x: clsin(2, x),
}
AT_ONE = {"F1C": 1, "F2C": 1, "F3C": 1, "F4C": 1, "F1N": 1, "F2N": 1, "F3N": 1, "F4N": 1, "G3": mpf(1) / 3, "G4": mpf(1) / 6}


def PhiDT(x, y, z):
    x, y, z = sorted([x, y, z]); u = x / z; v = y / z
    l2 = (1 - u - v) ** 2 - 4 * u * v
    if l2 == 0:
        return mpf(0)
    lam = sqrt(mpc(l2)); a = (1 + u - v - lam) / 2; b = (1 - u + v - lam) / 2
    p = ((2 * log(a) * log(b) - log(u) * log(v) - 2 * polylog(2, a) - 2 * polylog(2, b) + pi ** 2 / 3) / lam).real
    return p * z * l2 / 2


def fCS_core(xu, xd, s, c, cbar):
    lxu = log(xu); lxd = log(xd); y = (xu - xd) ** 2 - 2 * (xu + xd) + 1; phiy = PhiDT(xd, xu, mpf(1)) / y
    return (-(xu - xd) + (cbar - c * (xu - xd)) * phiy + c * (li2(1 - xd / xu) - lxu * (lxd - lxu) / 2) + (s + xd) * lxd + (s - xu) * lxu, phiy, lxu, lxd)


def fCSd(xu, xd, qu, qd):
    s = (qu + qd) / 4; c = (xu - xd) ** 2 - qu * xu + qd * xd; cbar = (xu - qu) * xu - (xd + qd) * xd
    return xd * fCS_core(xu, xd, s, c, cbar)[0]


def fCSu(xu, xd, qu, qd):
    s = 1 + (qu + qd) / 4; c = (xu - xd) ** 2 - (qu + 2) * xu + (qd + 2) * xd; cbar = (xu - qu - 2) * xu - (xd + qd + 2) * xd
    core, phiy, lxu, lxd = fCS_core(xu, xd, s, c, cbar)
    return xu * (core - mpf(4) / 3 * (xu - xd - 1) * phiy - (lxd + lxu) * (lxd - lxu) / 3)


def dq(f, x, y):
    if x == y:
        h = mpf(10) ** -12
        fp = (f(x * (1 + h)) - f(x * (1 - h))) / (2 * x * h)   # limit = x f'(x) - f(x)
        return x * fp - f(x)
    return (y * f(x) - x * f(y)) / (x - y)


def dG(G, x):
    h = mpf(10) ** -12
    return (G(x * (1 + h)) - G(x * (1 - h))) / (2 * x * h)


def Iabc(a, b, c):
    x, y, z = sorted([a * a, b * b, c * c])
    h = mpf(10) ** -9
    if x == y: y *= 1 + h
    if y == z or x == z: z *= 1 + 3 * h
    t = lambda p, q: mpf(0) if p == 0 or q == 0 else p * q * log(p / q)
    return (t(x, y) + t(y, z) + t(z, x)) / ((x - y) * (y - z) * (x - z))


MULTI = {
    "Fa": lambda a: -dG(G3, a[0]) if a[0] == a[1] else -(G3(a[0]) - G3(a[1])) / (a[0] - a[1]),
    "Fb": lambda a: -dG(G4, a[0]) if a[0] == a[1] else -(G4(a[0]) - G4(a[1])) / (a[0] - a[1]),
    "Iabc": lambda a: Iabc(*a),
    "Phi": lambda a: PhiDT(*a),
    "lambda2": lambda a: a[0] ** 2 + a[1] ** 2 + a[2] ** 2 - 2 * a[0] * a[1] - 2 * a[1] * a[2] - 2 * a[0] * a[2],
    "FPZ": lambda a: dq(fPS_closed, a[0], a[1]),
    "FSZ": lambda a: dq(ONE["fS"], a[0], a[1]),
    "FCWl": lambda a: dq(ONE["fCSl"], a[0], a[1]),
    "fCSd": lambda a: fCSd(*a), "fCSu": lambda a: fCSu(*a),
    "FCWu": lambda a: (a[2] * fCSu(a[0], a[1], a[4], a[5]) - a[0] * fCSu(a[2], a[3], a[4], a[5])) / (a[0] - a[2]),
    "FCWd": lambda a: (a[3] * fCSd(a[0], a[1], a[4], a[5]) - a[1] * fCSd(a[2], a[3], a[4], a[5])) / (a[1] - a[3]),
}
# entries whose limit is taken by finite differences in this script: looser comparison
LOOSE = mpf("1e-7")


def main():
    n = bad = nint = 0
    for line in sys.stdin:
        t = line.split()
        if not t:
            continue
        if t[0] == "SELFTEST-INTERNAL":
            if t[1] != "OK":
                print("internal 200-vs-100-digit comparison failed")
                bad += 1
            continue
        if t[0].startswith("SELFTEST-MISMATCH"):
            print(line.strip()); bad += 1; continue
        if t[0] == "T1":
            name, x, v = t[1], mpf(float(t[2])), mpf(t[3])
            if x == 1 and name in AT_ONE:
                ref = mpf(AT_ONE[name])
            elif x < 0 and name not in ("dilog", "Cl2"):
                continue
            else:
                ref = ONE[name](x)
            tol = TOL
            # at |x-1| <= 1e-3 the 40-digit mpmath evaluation of a 4th-order pole loses up to 28 digits
            if name in AT_ONE and abs(x - 1) < mpf("2e-3"):
                mp.dps = 80; ref = ONE[name](x) if x != 1 else ref; mp.dps = 40
            err = abs(v - ref) / max(abs(ref), mpf("1e-300"))
            n += 1
            if err > tol:
                print("MISMATCH", name, t[2], "cpp", t[3], "mpmath", mp.nstr(ref, 22), "rel", mp.nstr(err, 3)); bad += 1
            # integral representations (independent of any closed form)
            if name == "fPS" and mpf("0.26") < x < 200:
                e2 = abs(fPS_int(x) - v) / abs(v); nint += 1
                if e2 > mpf("1e-12"):
                    print("MISMATCH-INTEGRAL fPS", t[2], mp.nstr(e2, 3)); bad += 1
            if name == "fS" and mpf("0.26") < x < 200:
                e2 = abs(fS_int(x) - v) / abs(v); nint += 1
                if e2 > mpf("1e-12"):
                    print("MISMATCH-INTEGRAL fS", t[2], mp.nstr(e2, 3)); bad += 1
        elif t[0] == "TC":
            z = mpc(mpf(float(t[1])), mpf(float(t[2]))); re, im = mpf(t[3]), mpf(t[4])
            ref = polylog(2, z)
            err = abs(mpc(re, im) - ref) / abs(ref)
            n += 1
            if err > TOL:
                print("MISMATCH cdilog", t[1], t[2], mp.nstr(err, 3)); bad += 1
        elif t[0] == "TN":
            name, k = t[1], int(t[2]); a = [mpf(float(s)) for s in t[3:3 + k]]; v = mpf(t[3 + k])
            ref = MULTI[name](a)
            coincident = len(set(a[:3 if name in ("Iabc", "Phi") else 2])) < (3 if name in ("Iabc", "Phi") else 2)
            tol = LOOSE if (coincident and name in ("Fa", "Fb", "Iabc", "FPZ", "FSZ", "FCWl")) else TOL
            err = abs(v - ref) / max(abs(ref), mpf("1e-300"))
            n += 1
            if err > tol:
                print("MISMATCH", name, t[3:3 + k], "cpp", t[3 + k], "mpmath", mp.nstr(ref, 22), "rel", mp.nstr(err, 3)); bad += 1
            if name == "Phi" and all(x > 0 for x in a):
                x, y, z = sorted(a)
                l2 = (1 - x / z - y / z) ** 2 - 4 * x * y / z / z
                if abs(l2) > mpf("1e-3"):
                    e2 = abs(Phi_from_int(*a) - v) / abs(v); nint += 1
                    if e2 > mpf("1e-12"):
                        print("MISMATCH-INTEGRAL Phi", t[3:6], mp.nstr(e2, 3)); bad += 1
    print("mpref cross-check against mpmath: %d table entries, %d integral representations, %d mismatches" % (n, nint, bad))
    return 1 if bad or n < 600 else 0


if __name__ == "__main__":
    sys.exit(main())
