"""Helper for checks that consist of one harness program run on several builds."""
from . import build


def run(chk, name, n_quick, n_thorough, kw=None, args=(), quick_cfgs=("san",), thorough_cfgs=("san", "plain"),
        plain_factor=1.0, timeout=3600, env=None, crash_key=None):
    kw = kw or {}
    cfgs = quick_cfgs if chk.tier == "quick" else thorough_cfgs
    n = int((n_quick if chk.tier == "quick" else n_thorough) * getattr(chk, "scale", 1.0))
    total = 0
    for cfg in cfgs:
        b = chk.build(build.harness, cfg, name, **kw)
        nn = int(n * (plain_factor if cfg == "plain" else 1.0))
        chk.run_workers(b, list(args), nn, cfg=cfg, tag=cfg, timeout=timeout, env=env, crash_key=crash_key)
        total += nn
        chk.builds[cfg] = b
    return total
