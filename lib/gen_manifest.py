#!/usr/bin/env python3
"""Regenerates MANIFEST.json from the per-property table below (run after adding a check)."""
import json
import os

V = os.path.dirname(os.path.dirname(os.path.abspath(__file__)))

CHECKS = {
    "C01": dict(cat="exploration", tech="runtime monitoring: reference-model monitor (200-digit closed forms) over boundary-concentrated random arguments, ASan+UBSan build",
                text="Every observed return value of the 18 loop functions, real/complex Li2 and Cl2 is compared with a 200-digit evaluation of the published closed form (itself cross-checked against mpmath and integral representations); reach comes from sampling both sides of every nominal regime boundary, ladders of adjacent doubles, exact points and negatives. Held = no deviation on the sampled arguments; known large-argument cancellations are listed findings.",
                note="trusted: mpref reference (self-test at setup), the scale rule for isolated zeros (DESIGN 4.1); arguments below 1e-14 are outside the domain", ref="5 C01"),
    "C02": dict(cat="exploration", tech="runtime monitoring: reference-model monitor (200-digit defining expressions) plus metamorphic monitors (permutation symmetry, homogeneity) on generated argument tuples, ASan+UBSan build",
                text="Observed values of Fa, Fb, Iabc, Phi, lambda_2 and the Barr-Zee functions are compared with 200-digit references of their defining expressions on tuples concentrated on degeneracies, thresholds and branch switches; symmetry and homogeneity are checked on pairs of executions; documented zero limits exactly.",
                note="trusted: mpref reference; absolute floors 1e-3*F_typ as the property allows; ten deviations are listed known findings with input predicates", ref="5 C02"),
    "C12": dict(cat="exploration", tech="runtime monitoring: contract monitors (backward error, unitarity, sign, ordering, error bounds) and a long-double Jacobi reference over hostile matrices, ASan+UBSan build with Eigen assertions on",
                text="All decomposition routines and overloads of gm2_linalg.hpp are instantiated from the working tree for N=2,3,4 and run on hostile matrices (12 decades, exact degeneracy, rank deficiency, sign patterns, permutations); each output is checked against the documented factorisation, unitarity, sign/order conventions and an independent long-double Jacobi eigen/singular value reference.",
                note="trusted: Eigen for forming residuals; 3x3 hermitian closed-form solver held to 1e-6 (not instantiated by the models); complex symmetric Takagi statistics only", ref="5 C12"),
    "C18": dict(cat="exploration", tech="runtime monitoring: invariant monitors on the three uncertainty functions and their overloads over random MSSM/THDM models, ASan+UBSan build",
                text="For every generated model with finite a_mu the monitors assert finiteness, non-negativity, the documented floors, the bit-exact composition rules, agreement of the overloads (which must use their arguments) and the documented delta-2L formulas to 1e-14.",
                note="trusted: the library's own a_mu values in the composition clauses (their correctness is C03/C15)", ref="5 C18"),
}

PENDING = {}


def main():
    props = [json.loads(l) for l in open(os.path.join(V, "properties.jsonl"))]
    checks = []
    na = []
    for p in props:
        pid = p["id"]
        if pid in CHECKS:
            c = CHECKS[pid]
            checks.append(dict(
                property_id=pid,
                quick_cmd="./vcheck %s --tier quick" % pid,
                thorough_cmd="./vcheck %s --tier thorough" % pid,
                evidence_file="/verif/evidence/%s.json" % pid,
                replay_cmd_template="./vcheck %s --replay {path}" % pid,
                engine="vcheck",
                level_claimed=dict(category=c["cat"], text=c["text"], design_ref="DESIGN.md section " + c["ref"]),
                level_note=c["note"],
                technique=c["tech"]))
        else:
            na.append(dict(property_id=pid, reason=PENDING.get(pid, "check not built yet in this session (runtime-monitoring design exists in DESIGN.md section 5); not claimed until it runs clean")))
    m = dict(
        version=1,
        setup_cmd="./setup.sh",
        hooks=dict(guard="GM2CALC_VERIF",
                   enable="every check compiles /repo's current working tree itself with -DGM2CALC_VERIF (lib/build.py; configurations plain, san, tsan, fuzz); no source-level hooks were needed",
                   baseline_off_cmd="cmake --build /repo/_build && ctest --test-dir /repo/_build -j8 --timeout 900",
                   source_commits=[], add_only=True),
        engines=[dict(name="vcheck", path="/verif/vcheck", serves_properties=sorted(CHECKS),
                      kind_free_text="python driver + C++ harnesses linked against a sanitizer build of the working tree; oracles over recorded event logs")],
        checks=checks,
        notes="Known findings are in /verif/known_findings.json; seeded breaking changes in /verif/seeded/.",
        not_applicable=na)
    with open(os.path.join(V, "MANIFEST.json"), "w") as f:
        json.dump(m, f, indent=1)
        f.write("\n")


if __name__ == "__main__":
    main()
