#!/usr/bin/env python3
"""Regenerates MANIFEST.json from the per-property table below (run after adding a check)."""
import json
import os

V = os.path.dirname(os.path.dirname(os.path.abspath(__file__)))

CHECKS = {
    "C01": dict(cat="exploration", tech="runtime monitoring: reference-model monitor (200-digit closed forms) over boundary-concentrated random arguments, ASan+UBSan build",
                text="Every observed return value of the 18 loop functions, real/complex Li2 and Cl2 is compared with a 200-digit evaluation of the published closed form (itself cross-checked against mpmath and integral representations); reach comes from sampling both sides of every nominal regime boundary, ladders of adjacent doubles, exact points and negatives. Held = no deviation on the sampled arguments; known large-argument cancellations are listed findings.",
                note="trusted: mpref reference (self-test at setup), the scale rule for isolated zeros (DESIGN 4.1); arguments below 1e-14 are outside the domain", ref="5 C01"),
    "C02": dict(cat="exploration", tech="runtime monitoring: reference-model monitor (200-digit defining expressions) plus metamorphic monitors (permutation symmetry, homogeneity) on generated argument tuples, ASan+UBSan build",
                text="Observed values of Fa, Fb, Iabc, Phi, lambda_2 and the Barr-Zee functions are compared with 200-digit references of their defining expressions on tuples concentrated on degeneracies, thresholds and branch switches; symmetry and homogeneity are checked on pairs of executions; documented zero limits exactly.",
                note="trusted: mpref reference; absolute floors 1e-3*F_typ as the property allows; ten deviations are listed known findings with input predicates", ref="5 C02"),
    "C12": dict(cat="exploration", tech="runtime monitoring: contract monitors (backward error, unitarity, sign, ordering, error bounds) and a long-double Jacobi reference over hostile matrices, ASan+UBSan build with Eigen assertions on",
                text="All decomposition routines and overloads of gm2_linalg.hpp are instantiated from the working tree for N=2,3,4 and run on hostile matrices (12 decades, exact degeneracy, rank deficiency, sign patterns, permutations); each output is checked against the documented factorisation, unitarity, sign/order conventions and an independent long-double Jacobi eigen/singular value reference.",
                note="trusted: Eigen for forming residuals; 3x3 hermitian closed-form solver held to 1e-6 (not instantiated by the models); complex symmetric Takagi statistics only", ref="5 C12"),
    "C18": dict(cat="exploration", tech="runtime monitoring: invariant monitors on the three uncertainty functions and their overloads over random MSSM/THDM models, ASan+UBSan build",
                text="For every generated model with finite a_mu the monitors assert finiteness, non-negativity, the documented floors, the bit-exact composition rules, agreement of the overloads (which must use their arguments) and the documented delta-2L formulas to 1e-14.",
                note="trusted: the library's own a_mu values in the composition clauses (their correctness is C03/C15)", ref="5 C18"),
}


CHECKS.update({
    "C03": dict(cat="exploration", tech="runtime monitoring: reference-model monitor (own mass matrices, long-double Jacobi, 200-digit loop functions) over random MSSM/THDM models, ASan+UBSan build",
                text="For every generated model without reported problem the library's one-loop chi0, chi+- and total (resummed and not, also after convert_to_onshell) and the THDM flavour-summed one-loop result are compared, on the sum of absolute terms, with an evaluation that shares the published formulas but none of the library's diagonalisation, phase conventions or loop-function code.",
                note="trusted: Eqs.(2.11a,b) of 1311.1775 / Eq.(27)-type sum of 1607.06292 as typed in the harness; mpref loop functions; one listed finding (F2C below 10 eps for Higgs masses above 10.9 TeV)", ref="5 C03"),
    "C04": dict(cat="exploration", tech="runtime monitoring: reference-model monitor (independent tree-level mass matrices of all sectors) plus invariant monitors (unitarity, ordering, Goldstone position, tree-level identities, tachyon flags, generation exchange), ASan+UBSan build",
                text="Random real Lagrangian parameter sets (half steered into tachyons) are set through the public setters; after calculate_DRbar_masses every reported mass/mixing pair is checked against mass matrices written independently in the harness, and the tachyon list against the sign of the reference's smallest eigenvalue.",
                note="trusted: the harness's tree-level MSSM mass matrices and EWSB elimination; tachyon clause inconclusive for |lambda_min| < 1e-9 ||M||", ref="5 C04"),
    "C05": dict(cat="exploration", tech="runtime monitoring: round-trip monitor over on-shell point -> pole spectrum -> perturbed guesses -> convert_to_onshell, with pole-reproduction and parameter-recovery oracles, ASan+UBSan build",
                text="Each execution of the conversion on a generated SLHA-type model is judged: no warning => both charginos, the bino-like neutralino, the muon sneutrino and the right-like smuon reproduce their pole masses within the requested precision; on the well-conditioned subset the original parameters and a_mu are recovered.",
                note="trusted: state identification from the mixing matrices; the known right-smuon miss (Yukawa lag) is identified by its mechanism through the hook gm2calc::verif::after_convert_me2 (the fit had converged before the final Yukawa update)", ref="5 C05"),
    "C06": dict(cat="exploration", tech="runtime monitoring: metamorphic monitor over pairs (point, jointly sign-flipped point) for ~75 named quantities, ASan+UBSan build",
                text="Two models are built from the same on-shell point with and without the joint flip of mu, M1, M2, M3 and all A_f; every public a_mu function, approximation, Delta correction, the resummation factor, uncertainties, coupling arrays and all masses must agree to 1e-9 on the scale rule.",
                note="trusted: the scale rule of DESIGN 4.1 (sum of absolute one-loop terms)", ref="5 C06"),
    "C07": dict(cat="exploration", tech="runtime monitoring: metamorphic monitor over families of 7 models under a common rescaling k=1..64, with scale-aware residual tests of the 1/k^2 law",
                text="For each base point the one-loop, fermion/sfermion, photonic, 2L(a) and total two-loop results, the resummation factor and the two-loop uncertainty are observed at k = 1,2,...,64 and tested against the 1/k^2 law up to (MZ/(k M_min))^2 corrections and logarithms (affine in ln k), with constants frozen at >= 10x the worst observed value.",
                note="trusted: calibrated constants in lib/thresholds.py; the literal band [0.2,0.35] of the quantifier is falsified by correct code at zero crossings and is reported only", ref="5 C07"),
    "C08": dict(cat="exploration", tech="runtime monitoring: round-trip monitor (mass basis -> getters -> gauge basis -> back) over random THDM inputs incl. degenerate and boundary points, ASan+UBSan build",
                text="Every accepted mass-basis input must report its inputs back (masses on the natural error scale, sin(beta-alpha) with cos >= 0, tan beta, lambda_6,7, m12^2 bit-exact), SM vector-boson and fermion masses, Goldstone position, CKM moduli and Jarlskog invariant; the gauge-basis rebuild must give the same spectrum; every input of the quantifier's range must be accepted.",
                note="trusted: conditioning-aware tolerances (eps x scale/(mH^2-mh^2) for the angle); one listed finding (mh = 0 rejected by rounding)", ref="5 C08"),
    "C09": dict(cat="exploration", tech="runtime monitoring: metamorphic monitor over pairs of equivalent THDM parametrisations and over changes of documented-ignored parameters, ASan+UBSan build",
                text="Type I/II/X/Y vs aligned with Table-1 zeta_f (running on/off; all a_mu parts, uncertainties, twelve Yukawa getters), aligned(zeta,Delta) vs general(Pi) with running off, and bit-identity under changes of parameters documented as ignored.",
                note="trusted: term sums re-assembled from getters and fuS..flHp as comparison scale; fermionic two-loop tolerance 1e-5 on that scale (loop-function noise floor, see DESIGN)", ref="5 C09"),
    "C10": dict(cat="exploration", tech="runtime monitoring: metamorphic monitors - exact cancellation of light-Higgs against SM-Higgs terms at the helper boundary and at model level; boundedness of |a| M^2/(1+ln^2 M) along decoupling families",
                text="With cos(beta-alpha)=0, running off and m_hSM = mh the one-loop and fermionic two-loop results must not depend on the common Higgs mass (relative to the size of the light-Higgs term); along gauge-basis families with fixed quartics the band-maxima ratio of K = |a| M^2/(1+ln^2(M/MZ)) between [10,31.6] and [1,3.16] TeV must stay below calibrated limits for 1L, fermionic and bosonic 2L.",
                note="trusted: calibrated limits (lib/thresholds.py); the literal per-step 0.45 criterion is falsified by correct code at zero crossings and is reported only", ref="5 C10"),
    "C11": dict(cat="exploration", tech="runtime monitoring: path monitor - every contribution, sub-part and sum observed at 23 points along one-parameter paths through coincidence configurations enumerated from the spectrum (THDM) or located by bisection (MSSM); finiteness + 1%-of-chord continuity oracle",
                text="For each base point all degenerate configurations formed from its masses are enumerated; along each path the values at d = 0, +-1e-13..+-1e-4 must be finite and within 1% of the magnitude (sum of absolute parts for sums) of the chord through d = +-1e-3, or continuous with a kink by the one-sided form; known singular classes carry listed keys.",
                note="trusted: magnitude of a sum = sum of absolute parts (DESIGN 4.1); uncertainties (functions of |a|) are checked for finiteness and for a step at the special point; five listed findings keyed by mechanism (four singular configurations, numerical noise of the Yukawa part)", ref="5 C11"),
    "C13": dict(cat="exploration", tech="runtime monitoring: executable reference model of the SLHA reader against the library's filled parameters; metamorphic monitor (layout-preserving rewrites) and rejection monitor on executions of the real gm2calc.x",
                text="Generated inputs of the three formats and 15-25 layout-preserving rewrites each: the parameters filled by the library's reader must equal those predicted by a sequential last-write-wins model written from README.md; the program's minimal output and exit status must be identical across rewrites; malformed numeric tokens in read blocks and invalid GM2CalcConfig values must give exit 1 with a diagnostic and no physics output, the same tokens in unread blocks no effect.",
                note="trusted: the reference reader model (lib/slha_model.py); CKM entries at 1e-14; hex floats and '18.0' keys are not generated", ref="5 C13"),
    "C14": dict(cat="exploration", tech="runtime monitoring with sanitizers: real gm2calc.x under ASan+UBSan+LSan on libFuzzer-generated corpus, structure-aware mutations, hostile command lines and random bytes; valgrind memcheck sample for uninitialised reads; process-level oracle (exit status, signal, time, diagnostics)",
                text="Every recorded execution must end with exit 0 or 1, without signal or sanitizer/valgrind report, within 30 s; exit 1 needs a diagnostic on stderr or in SPINFO; stdout must not carry diagnostics. The in-process libFuzzer harness is only a generator; verdicts come from the real binary.",
                note="trusted: ASan/UBSan/LSan/valgrind as memory oracles (red-zone tools miss intra-object overflows); allocation and I/O faults are not injected", ref="5 C14"),
    "C15": dict(cat="exploration", tech="runtime monitoring: differential monitor CLI vs library API over the exhaustively enumerated 480 GM2CalcConfig combinations per input; string-equality oracle on formatted numbers, whole detailed text, SLHA echo",
                text="For each valid input the real program is run with all 480 option combinations; minimal, detailed (whole text), NMSSMTools, SPheno and GM2Calc outputs must equal, as strings, what the API values obtained through the library's own reader format to; uncertainty where documented; additivity on API values; SLHA echo of the input.",
                note="trusted: correctly rounded printf formatting on both sides; harness/api_dump as the 'documented API sequence'; configuration axis exhaustive per input, inputs sampled", ref="5 C15"),
    "C16": dict(cat="fault_enumeration", tech="runtime monitoring: decision-table monitor over the completely enumerated documented defect list (alone and in pairs) x force-output x {C++ API, C API, real CLI in each format}",
                text="Every documented untreatable input is injected into effective parameters of valid random points; observed exception class / C error code / exit status / diagnostics / produced result are compared with the table written from the property (refuse without force, warn-and-proceed with force, exit status semantics, finite result when nothing is flagged).",
                note="trusted: the decision table; five listed findings where force-output cannot override (MW=0, MW=MZ, tan b=inf, undecidable basis, invalid Yukawa type); massless chargino is not reachable through decimal input", ref="5 C16"),
    "C17": dict(cat="exploration", tech="runtime monitoring with sanitizers: random C-API call histories mirrored on C++ objects (differential monitor), exact-size heap buffers under ASan, exception-escape guards",
                text="Histories of up to 40 C calls (setters with finite and non-finite values, getters, spectrum calls with error codes, amu/uncertainty functions, string getters with length 0..64, print, free, free(NULL); THDM handles with hostile bases and out-of-range enum values) are replayed on a C++ object; every C result must equal the C++ result bit-for-bit or be NaN / the matching error code where C++ throws; nothing may escape or overflow.",
                note="trusted: ASan/UBSan; indices are always valid; out-of-range error codes are passed through an int-typed function pointer (the harness never casts them to the enum)", ref="5 C17"),
    "C19": dict(cat="exploration", tech="runtime monitoring: state-digest and repetition monitors (single thread), ThreadSanitizer on a threaded harness (2-16 threads, random yields, shared const models) with bit-exact comparison against a sequential run",
                text="Each calculation function is observed to leave a byte-wise digest of its model unchanged and to return bit-identical values on repetition, on copies and under permuted evaluation orders; under TSan, concurrent construction and evaluation on own and shared const models must produce no race report and exactly the sequential results; distinct completion orders are counted.",
                note="trusted: TSan happens-before analysis (only on executed code); a writable-static-symbol listing is recorded as a diagnostic", ref="5 C19"),
    "C20": dict(cat="exploration", tech="runtime monitoring: invariant monitors on the SM layer (CKM unitarity / rejection, electroweak relations) and a long-double reference model of the running masses (own Lambda_QCD solution), stderr monitor for the fallback warning",
                text="Wolfenstein/angle inputs incl. boundary and out-of-range values, random MW<MZ and alpha, and running top/bottom/tau masses over six decades of scale are observed: unitarity 1e-14 or rejection, defining relations to 1e-15, finiteness/positivity/monotonicity/composition, boundary values against the reference, a warning exactly when Lambda_QCD cannot be bracketed, and exact bypass when running is disabled.",
                note="trusted: Eqs.(5),(9) of hep-ph/0207126 as typed in the harness; one listed finding (m_b running above the Landau pole)", ref="5 C20"),
})

# what the mutation study (DESIGN 9.6) added to each check's workload and oracles
ADDED = {
    "C01": " Also: call histories (a negative argument repeated and interleaved with other functions must stay NaN; repeat-determinism), the polylogarithms at k pi, 2^k pi and integers; a non-finite value never counts as one of the known inaccuracies.",
    "C02": " Also: call histories for all functions, the charged-Higgs mass exactly on a quark threshold, permutation symmetry on a rounding-level tolerance; the known-finding keys are bounded in magnitude.",
    "C03": " Also: re-used model objects, and the reference forms T_mu = y_mu A_mu from the reported A_mu.",
    "C04": " Also: a long-lived re-filled object, negative Yukawa couplings, the dedicated getters of the physical Higgs states, gluino and massless states.",
    "C05": " Also: the setter-driven input path without pole mixing matrices on a fresh and on a long-lived object, all three call forms of convert_to_onshell, a near-degenerate left/right smuon regime, agreement of the report channels (have_warning, get_warnings, convergence records, observed residual).",
    "C06": " Also: hierarchical points (parameters moved by up to four decades), the twin built on a fresh object / a re-filled copy / a long-lived object, supplied light fermion masses, uniformly heavy spectra (common factor up to 30).",
    "C07": " Also: the family of scaled models built from fresh objects, one object rescaled in place, and rescaled copies of the base point; base points with exact ties of mass parameters.",
    "C08": " Also: the derived getters (beta, vevs, fermion mass matrices from Gamma_f and Pi_f with their six mixing matrices); exact zeros of lambda_6 / lambda_7 and exact special values of single inputs.",
    "C09": " Also: non-zero Delta_f in the type-vs-aligned relation, both relations through the gauge-basis constructor, the same model in both bases.",
    "C10": " Also: each judged helper evaluation is preceded by one that differs in one group of inputs; exactly aligned decoupling families (gauge- and mass-basis constructions) with tighter ratio limits and a bound on the size of the bosonic part in the high band; families on a known singular configuration of the bosonic part are not judged for it.",
    "C11": " Also: a step test at the special point for the uncertainties, MA scanned down to MZ, a parabola criterion for smooth strongly curved sums, numerical noise told from discontinuity by direction reversals.",
    "C12": " Also: call histories (values-only overload first on an unseen matrix, then the full overload; full overload after an unrelated call).",
    "C13": " Also: lines reordered inside blocks, configuration entries in another order, unknown keys next to documented ones anywhere in a block, repeated blocks at near scales after the effective ones, reduced files (defaults) read by a reader object that read another file before, rewrites through stdin and without final newline, integer-overflow key tokens, foreign blocks whose names resemble those of the blocks that are read.",
    "C14": " Also: systematic passes over hostile block headers, truncated lines, unreadable files with format-special names, and problem points in every output format with and without force-output.",
    "C15": " Also: inputs that already carry the result blocks (echo), the configuration block in three shapes (ascending, shuffled, default-valued entries omitted), additivity of the THDM sub-parts, valid points on which only the evaluation without tan(beta) resummation fails, problem points with force-output.",
    "C16": " Also: an independent tree-level THDM spectrum as tachyon oracle over random gauge-basis points, undecidable bases from a single lambda of either sign, defects just beyond each boundary, points tachyonic only without tan(beta) resummation, agreement of the THDM report channels, a sneutrino tachyon through the D-term alone.",
    "C17": " Also: a non-zero handle variable before the THDM constructors, gm2calc_error_str with out-of-range codes.",
    "C18": " Also: exactly degenerate heavy Higgs states, the relations through the C functions and the helpers of gm2_uncertainty_helpers.h.",
    "C19": " Also: neighbour histories (a point right after one that differs in exactly one input, SM inputs included), object re-use, a sample of cases repeated in processes of their own (digest of all results), hard conversion points (root-finder fallback) in the sequential and threaded runs.",
    "C20": " Also: a variable reference scale with one-argument-different call histories, all twelve Yukawa getters in the bypass monitor with Higgs scales down to 1 GeV.",
}

PENDING = {}


def main():
    props = [json.loads(l) for l in open(os.path.join(V, "properties.jsonl"))]
    checks = []
    na = []
    for p in props:
        pid = p["id"]
        if pid in CHECKS:
            c = CHECKS[pid]
            checks.append(dict(
                property_id=pid,
                quick_cmd="./vcheck %s --tier quick" % pid,
                thorough_cmd="./vcheck %s --tier thorough" % pid,
                evidence_file="/verif/evidence/%s.json" % pid,
                replay_cmd_template="./vcheck %s --replay {path}" % pid,
                engine="vcheck",
                level_claimed=dict(category=c["cat"], text=c["text"] + ADDED.get(pid, ""), design_ref="DESIGN.md section " + c["ref"] + " and 9.6"),
                level_note=c["note"],
                technique=c["tech"]))
        else:
            na.append(dict(property_id=pid, reason=PENDING.get(pid, "check not built yet in this session (runtime-monitoring design exists in DESIGN.md section 5); not claimed until it runs clean")))
    m = dict(
        version=1,
        setup_cmd="./setup.sh",
        hooks=dict(guard="GM2CALC_VERIF",
                   enable="every check compiles /repo's current working tree itself with -DGM2CALC_VERIF (lib/build.py; configurations plain, san, tsan, fuzz). One source-level hook: gm2calc::verif::after_convert_me2, a function pointer (null by default) that convert_to_onshell() calls right after the fit of me2(1,1); the C05 harness uses it to observe whether that fit had converged (mechanism of the known Yukawa-lag finding)",
                   baseline_off_cmd="cmake --build /repo/_build && ctest --test-dir /repo/_build -j8 --timeout 900",
                   source_commits=["f2758bf"], add_only=True),
        engines=[dict(name="vcheck", path="/verif/vcheck", serves_properties=sorted(CHECKS),
                      kind_free_text="python driver + C++ harnesses linked against a sanitizer build of the working tree; oracles over recorded event logs")],
        checks=checks,
        notes="Known findings are in /verif/known_findings.json; seeded breaking changes in /verif/seeded/.",
        not_applicable=na)
    with open(os.path.join(V, "MANIFEST.json"), "w") as f:
        json.dump(m, f, indent=1)
        f.write("\n")


if __name__ == "__main__":
    main()
