"""Process-level helpers for the checks that observe the real gm2calc.x: input generation,
parallel execution, API dumps, expected-output templates."""
import os
import subprocess
import time
from concurrent.futures import ThreadPoolExecutor

from . import build

OPT = {"slha": "--slha-input-file=", "gm2calc": "--gm2calc-input-file=", "thdm": "--thdm-input-file="}
DEFAULT_FORMAT = {"slha": 4, "gm2calc": 1, "thdm": 4}
NCPU = int(os.environ.get("VERIF_JOBS", str(os.cpu_count() or 4)))

RUN_ENV = dict(os.environ)
RUN_ENV.update({
    "ASAN_OPTIONS": "abort_on_error=0:detect_leaks=1:exitcode=99:allocator_may_return_null=1",
    "UBSAN_OPTIONS": "print_stacktrace=1:halt_on_error=1:exitcode=98",
    "LSAN_OPTIONS": "exitcode=96",
})


def gen_inputs(chk, fmt, count, seed, outdir, cfg="plain"):
    g = chk.build(build.harness, cfg, "gen_inputs")
    os.makedirs(outdir, exist_ok=True)
    r = subprocess.run([g, "--format", fmt, "--seed", str(seed), "--count", str(count), "--dir", outdir],
                       capture_output=True, text=True, timeout=600)
    if r.returncode != 0:
        raise RuntimeError("gen_inputs failed: %s %s" % (r.stdout, r.stderr))
    return [open(os.path.join(outdir, "%s_%d.in" % (fmt, i))).read() for i in range(count)]


def config_block(fmt_out=None, loop=None, res=None, force=None, verbose=None, unc=None, running=None):
    lines = ["Block GM2CalcConfig"]
    for k, v in enumerate([fmt_out, loop, res, force, verbose, unc, running]):
        if v is not None:
            lines.append("     %d     %d" % (k, int(v)))
    return "\n".join(lines) + "\n"


def run_cli(binary, fmt, text, timeout=60, use_stdin=False, workdir=None, name=None, extra_args=None, env=None):
    """One execution of the real binary; returns dict(exit, signal, stdout, stderr, wall, timeout)."""
    args = [binary]
    path = None
    if use_stdin:
        args.append(OPT[fmt] + "-")
    else:
        path = os.path.join(workdir, name)
        with open(path, "wb") as f:
            f.write(text if isinstance(text, bytes) else text.encode("utf-8", "surrogateescape"))
        args.append(OPT[fmt] + path)
    if extra_args:
        args = [binary] + list(extra_args)
    t0 = time.time()
    # stdin is always a pipe of our own (never inherited): the input when it is to be read from stdin, else empty
    data = (text if isinstance(text, bytes) else text.encode("utf-8", "surrogateescape")) if (use_stdin or extra_args) else b""
    # a wall-clock limit is a watchdog, not an oracle: a run that exceeds it is repeated once with three times the limit (a loaded machine must not
    # produce verdicts); only a run that exceeds that too is reported as timed out (C14 judges termination; the other drivers call it inconclusive)
    for limit in (timeout, 3 * timeout):
        try:
            r = subprocess.run(args, input=data, capture_output=True, timeout=limit, env=env or RUN_ENV)
            rc, out, err, to = r.returncode, r.stdout, r.stderr, False
            break
        except subprocess.TimeoutExpired as e:
            rc, out, err, to = None, e.stdout or b"", e.stderr or b"", True
    return dict(exit=rc if rc is not None and rc >= 0 else None, signal=-rc if rc is not None and rc < 0 else None,
                stdout=out.decode("utf-8", "replace"), stderr=err.decode("utf-8", "replace"), wall=time.time() - t0, timeout=to,
                argv=args, path=path)


def pmap(fn, items, workers=None):
    with ThreadPoolExecutor(max_workers=workers or NCPU) as ex:
        return list(ex.map(fn, items))


def api_dump(binary, fmt, path, params=False, preload=None):
    r = subprocess.run([binary, "--format", fmt, "--file", path] + (["--params", "1"] if params else []) + (["--preload", preload] if preload else []),
                       capture_output=True, text=True, timeout=300, env=RUN_ENV)
    d = dict(P={}, V={}, E={}, X={}, F={}, S={}, W={}, raw=r.stdout, rc=r.returncode, stderr=r.stderr)
    for line in r.stdout.splitlines():
        t = line.split(" ", 3)
        if not t:
            continue
        if t[0] == "P" and len(t) >= 3:
            d["P"][t[1]] = float.fromhex(t[2]) if t[2] not in ("nan", "-nan", "inf", "-inf") else float(t[2].replace("-nan", "nan"))
        elif t[0] == "V" and len(t) >= 4:
            v = t[3]
            d["V"].setdefault(t[1], {})[t[2]] = float.fromhex(v) if v not in ("nan", "-nan", "inf", "-inf") else float(v.replace("-nan", "nan"))
        elif t[0] == "E":
            d["E"][t[1]] = (t[2] if len(t) > 2 else "", t[3] if len(t) > 3 else "")
        elif t[0] == "X":
            d["X"].setdefault(t[1], {})[t[2]] = t[3] if len(t) > 3 else ""
        elif t[0] == "F":
            d["F"].setdefault(t[1], {})[t[2]] = int(t[3])
        elif t[0] == "S":
            d["S"].setdefault(t[1], {})[t[2]] = t[3] if len(t) > 3 else ""
        elif t[0] == "W":
            d["W"][t[1]] = line.split(" ", 2)[2] if len(line.split(" ", 2)) > 2 else ""
    return d


# ---------------------------------------------------------------- C++ iostream formatting
def f_amu(x):
    return "%15.8e" % x


def f_del(x):
    return "%14.8e" % x


def f_pct(x):
    return "%.1f" % x


def f_min(x):
    return "%.8e" % x


def f_slha(key, value, comment):
    return " %5d   %16.8E   # %s" % (key, value, comment)
