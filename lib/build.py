"""Content-addressed build cache for the GM2Calc library, CLI and harnesses.

Nothing depends on mtimes: the key of an object file is the hash of
(compiler, flags, the .cpp file, every header under <repo>/src and
<repo>/include).  An edited tree is always recompiled, an unchanged one never.
The repository root is taken from $VERIF_REPO (default /repo) so that seeded
breaks on scratch copies can be checked with the same machinery.
"""
import fcntl
import hashlib
import os
import re
import subprocess
import sys
from concurrent.futures import ThreadPoolExecutor

VERIF = os.path.dirname(os.path.dirname(os.path.abspath(__file__)))
CACHE = os.environ.get("VERIF_CACHE", os.path.join(VERIF, ".cache"))
GUARD = "GM2CALC_VERIF"


def repo_root():
    return os.environ.get("VERIF_REPO", "/repo")


CONFIGS = {
    # what users run
    "plain": dict(cxx="g++", flags=["-std=c++14", "-O2", "-DNDEBUG"], ld=[]),
    # ASan + UBSan (+ float-cast-overflow); no NDEBUG so Eigen's assertions are monitors too
    "san": dict(
        cxx="g++",
        flags=["-std=c++14", "-O1", "-g1", "-fno-omit-frame-pointer",
               "-fsanitize=address,undefined,float-cast-overflow",
               "-fno-sanitize-recover=all"],
        ld=["-fsanitize=address,undefined,float-cast-overflow"]),
    "tsan": dict(
        cxx="g++",
        flags=["-std=c++14", "-O1", "-g1", "-fsanitize=thread"],
        ld=["-fsanitize=thread"]),
    "fuzz": dict(
        cxx="clang++-14",
        flags=["-std=gnu++14", "-O1", "-g", "-fsanitize=fuzzer-no-link,address,undefined",
               "-fno-sanitize=object-size", "-fno-sanitize-recover=all"],
        ld=["-fsanitize=fuzzer,address,undefined", "-fno-sanitize=object-size"]),
    # line/function coverage of the workload (tools/coverage.py): every configuration except fuzz is mapped to this one when VERIF_COVERAGE is set
    "cov": dict(cxx="g++", flags=["-std=c++14", "-O0", "-g", "--coverage"], ld=["--coverage"]),
}


def _eff(cfg):
    return "cov" if (os.environ.get("VERIF_COVERAGE") and cfg != "fuzz") else cfg


def _sha(*parts):
    h = hashlib.sha256()
    for p in parts:
        if isinstance(p, str):
            p = p.encode()
        h.update(p)
        h.update(b"\0")
    return h.hexdigest()[:24]


def _file_hash(path):
    with open(path, "rb") as f:
        return hashlib.sha256(f.read()).hexdigest()


_hdr_cache = {}


def headers_hash(root=None):
    root = root or repo_root()
    if root in _hdr_cache:
        return _hdr_cache[root]
    items = []
    for sub in ("src", "include"):
        for d, _, fs in os.walk(os.path.join(root, sub)):
            for f in fs:
                if f.endswith((".h", ".hpp")):
                    p = os.path.join(d, f)
                    items.append((os.path.relpath(p, root), _file_hash(p)))
    items.sort()
    h = _sha(*[a + ":" + b for a, b in items])
    _hdr_cache[root] = h
    return h


def lib_sources(root=None):
    """Source list of the gm2calc library as written in src/CMakeLists.txt."""
    root = root or repo_root()
    txt = open(os.path.join(root, "src", "CMakeLists.txt")).read()
    m = re.search(r"add_library\(gm2calc\s+(.*?)\)", txt, re.S)
    if not m:
        raise RuntimeError("cannot find add_library(gm2calc ...) in src/CMakeLists.txt")
    return [s for s in m.group(1).split() if s.endswith(".cpp")]


def _includes(root):
    return ["-I" + os.path.join(root, "include"), "-I" + os.path.join(root, "src"),
            "-I/usr/include/eigen3"]


class BuildError(Exception):
    pass


def _locked(path):
    os.makedirs(os.path.dirname(path), exist_ok=True)
    lk = open(path + ".lock", "w")
    fcntl.flock(lk, fcntl.LOCK_EX)
    return lk


def _compile(cxx, flags, src, out):
    """Compile src -> out atomically (under a lock, temp file + rename)."""
    if os.path.exists(out):
        return out
    lk = _locked(out)
    try:
        if os.path.exists(out):
            return out
        tmp = out + ".tmp.%d" % os.getpid()
        cmd = [cxx] + flags + ["-c", src, "-o", tmp]
        r = subprocess.run(cmd, capture_output=True, text=True)
        if r.returncode != 0:
            raise BuildError("compile failed: %s\n%s" % (" ".join(cmd), r.stderr[-4000:]))
        os.rename(tmp, out)
        return out
    finally:
        lk.close()


def lib_objects(cfg, root=None, extra_defs=()):
    root = root or repo_root()
    cfg = _eff(cfg)
    c = CONFIGS[cfg]
    flags = c["flags"] + ["-D" + GUARD] + list(extra_defs) + _includes(root)
    hh = headers_hash(root)
    jobs = []
    for s in lib_sources(root):
        sp = os.path.join(root, "src", s)
        key = _sha(c["cxx"], " ".join(c["flags"] + ["-D" + GUARD] + list(extra_defs)), _file_hash(sp), hh, s)
        out = os.path.join(CACHE, "obj", key + ".o")
        jobs.append((sp, out))
    with ThreadPoolExecutor(max_workers=int(os.environ.get("VERIF_JOBS", "16"))) as ex:
        outs = list(ex.map(lambda j: _compile(c["cxx"], flags, j[0], j[1]), jobs))
    return outs


def library(cfg, root=None):
    """Static library built from the working tree; returns (path, key)."""
    cfg = _eff(cfg)
    objs = lib_objects(cfg, root)
    key = _sha(cfg, *[os.path.basename(o) for o in objs])
    out = os.path.join(CACHE, "lib", key, "libgm2calc.a")
    if not os.path.exists(out):
        lk = _locked(out)
        try:
            if not os.path.exists(out):
                tmp = out + ".tmp.%d" % os.getpid()
                r = subprocess.run(["ar", "rcs", tmp] + objs, capture_output=True, text=True)
                if r.returncode != 0:
                    raise BuildError("ar failed: " + r.stderr)
                os.rename(tmp, out)
        finally:
            lk.close()
    return out, key


def cli(cfg, root=None, main_rename=None):
    """The real gm2calc.x linked from the working tree (or the object with main renamed)."""
    root = root or repo_root()
    cfg = _eff(cfg)
    c = CONFIGS[cfg]
    lib, lkey = library(cfg, root)
    sp = os.path.join(root, "src", "gm2calc.cpp")
    defs = ["-D" + GUARD] + (["-Dmain=" + main_rename] if main_rename else [])
    okey = _sha(c["cxx"], " ".join(c["flags"] + defs), _file_hash(sp), headers_hash(root), "gm2calc.cpp")
    obj = _compile(c["cxx"], c["flags"] + defs + _includes(root), sp, os.path.join(CACHE, "obj", okey + ".o"))
    if main_rename:
        return obj, lib
    key = _sha(okey, lkey)
    out = os.path.join(CACHE, "bin", key, "gm2calc.x")
    if not os.path.exists(out):
        lk = _locked(out)
        try:
            if not os.path.exists(out):
                tmp = out + ".tmp.%d" % os.getpid()
                cmd = [c["cxx"]] + c["ld"] + [obj, lib, "-o", tmp]
                r = subprocess.run(cmd, capture_output=True, text=True)
                if r.returncode != 0:
                    raise BuildError("link failed: %s\n%s" % (" ".join(cmd), r.stderr[-4000:]))
                os.rename(tmp, out)
        finally:
            lk.close()
    return out


def _common_hash():
    items = []
    d = os.path.join(VERIF, "harness", "common")
    for f in sorted(os.listdir(d)):
        p = os.path.join(d, f)
        if os.path.isfile(p):
            items.append(f + ":" + _file_hash(p))
    return _sha(*items)


MPREF_FLAGS = ["-std=c++14", "-O2", "-DNDEBUG"]


def mpref():
    """Multiprecision reference library; does not depend on the repository."""
    src = os.path.join(VERIF, "harness", "common", "mpref.cpp")
    hdrs = [os.path.join(VERIF, "harness", "common", f) for f in ("mpref.h", "mpref_impl.hpp")]
    key = _sha("g++", " ".join(MPREF_FLAGS), _file_hash(src), *[_file_hash(h) for h in hdrs])
    out = os.path.join(CACHE, "mpref", key, "mpref.o")
    return _compile("g++", MPREF_FLAGS + ["-I" + os.path.join(VERIF, "harness", "common")], src, out)


def harness(cfg, name, root=None, with_mpref=False, extra_flags=(), extra_ld=(), with_main_obj=False,
            threads=False, parts=0):
    """Build harness/<name>.cpp against the library of the working tree; returns the binary path."""
    root = root or repo_root()
    cfg = _eff(cfg)
    c = CONFIGS[cfg]
    src = os.path.join(VERIF, "harness", name + ".cpp")
    lib, lkey = library(cfg, root)
    objs = []
    if with_main_obj:
        mobj, _ = cli(cfg, root, main_rename="gm2calc_main")
        objs.append(mobj)
    if with_mpref:
        objs.append(mpref())
    flags = c["flags"] + ["-D" + GUARD] + list(extra_flags) + _includes(root) + \
        ["-I" + os.path.join(VERIF, "harness", "common")]
    okey = _sha(c["cxx"], " ".join(c["flags"] + list(extra_flags)), _file_hash(src), _common_hash(),
                headers_hash(root))
    key = _sha(okey, " ".join(extra_ld), lkey, str(parts), *[os.path.basename(o) for o in objs])
    out = os.path.join(CACHE, "bin", key, name)
    if os.path.exists(out):
        return out
    if parts:
        with ThreadPoolExecutor(max_workers=parts) as ex:
            hobjs = list(ex.map(lambda k: _compile(c["cxx"], flags + ["-DVH_PART=%d" % k, "-DVH_NPARTS=%d" % parts], src,
                                                   os.path.join(CACHE, "obj", okey + ".h%d.o" % k)), range(parts)))
    else:
        hobjs = [_compile(c["cxx"], flags, src, os.path.join(CACHE, "obj", okey + ".h.o"))]
    lk = _locked(out)
    try:
        if not os.path.exists(out):
            tmp = out + ".tmp.%d" % os.getpid()
            cmd = [c["cxx"]] + c["ld"] + hobjs + objs + [lib] + list(extra_ld) + \
                (["-pthread"] if threads else []) + ["-o", tmp]
            r = subprocess.run(cmd, capture_output=True, text=True)
            if r.returncode != 0:
                raise BuildError("link failed: %s\n%s" % (" ".join(cmd), r.stderr[-4000:]))
            os.rename(tmp, out)
    finally:
        lk.close()
    return out


def tree_id(root=None):
    """Short identifier of the source state that was built (for evidence)."""
    root = root or repo_root()
    srcs = [(s, _file_hash(os.path.join(root, "src", s))) for s in lib_sources(root)]
    return _sha(headers_hash(root), *[a + b for a, b in srcs],
                _file_hash(os.path.join(root, "src", "gm2calc.cpp")))


if __name__ == "__main__":
    # warm the cache: python3 lib/build.py plain san ...
    for cfg in sys.argv[1:]:
        p, k = library(cfg)
        print(cfg, p)
        if cfg != "fuzz":
            print(cfg, cli(cfg))
