"""Frozen numeric constants that the properties leave open, with their calibration (DESIGN 4.2).

The constants live in the harness sources (defaults of the command-line options); this file records
where they come from.  Rule: >= 10x the worst value observed on the unchanged tree.

C07 (harness/c07_decoupling.cpp), calibration run: ./vcheck C07 --scale 10 (57 069 conclusive families, seed 1),
M_min = lightest of ALL SUSY mass parameters of the base point (with the lightest of mu, M1, M2, smuon masses only,
light third-generation squarks made the two-loop constants 10x larger):
  c1  = 1.5   |4 a1L(2k) - a1L(k)| / sum|terms| <= c1 (MZ/(k M_min))^2            worst observed 0.119
  ct  = 0.5   |tan_beta_cor(2k) - tan_beta_cor(k)| <= ct (MZ/(k M_min))^2          worst observed 0.046
  cf  = 10    same for the fermion/sfermion 2L part on 0.05 sum|1L terms|           worst observed 0.97
  c2  = 100   |second difference of k^2 a2L| / S2 <= c2 (MZ/(k M_min))^2, k >= 4    worst observed 7.9
  ca  = 100   same for the 2L(a) part                                               worst observed 7.9
  cp  = 1.5   same for the photonic part                                            worst observed 0.11
  env = 30    excess of delta2L over 2.3e-10, times k^2, <= env x its earlier max  worst observed 3.0
The literal band a2L(2k)/a2L(k) in [0.2,0.35] of the quantifier is reported, not enforced: correct code leaves it at
zero crossings of A + B ln k (21 525 of 321 000 steps) and, rarely, even without cancellation between the parts (15 of 90 798).
"""

"""
C10 (harness/c10_thdm_limits.cpp), calibration: ./vcheck C10 --scale 5 (85 691 conclusive, seed 1):
  R = max_high K / max_low K, K = |a| M^2/(1+ln^2(M/MZ)), bands [1,3.16] and [10,31.6] TeV
  t1 = 10    one-loop      worst observed 0.98
  tf = 70    fermionic 2L  worst observed 5.8
  tb = 2000  bosonic 2L    worst observed 154 (rounding noise of 10-digit cancellations at 31.6 TeV)
  SM-limit, helper level: worst 3.4e-11 (1L), 5.2e-12 (fermionic) of max(|a|, light-Higgs term); limit 1e-9.
C09 (harness/c09_thdm_param.cpp): see the comment at TOL_A/TOL_B/TOL_F there (6e5 pairs).
"""

# ---- bounds on known-finding keys (a failure beyond them gets the plain key and is a violation)
# C02 Phi small-ratio series: err * (lambda^2/z^2)^2 <= 1e-7   (worst observed 6.2e-9 over 1.28e6 cases, seeds 5 and 6; 1.6e6 at thorough seed 2 silent)
# C02 FPZ/FSZ equal arguments near 1/4: err <= 2e-3            (worst observed 1.3e-4 / 8.8e-5 over 1.6e6 cases)
# C01 F1/F2/f_sferm large-x cancellation: err <= 0.05          (worst observed 1.5e-3 over 2e6 cases)
# C03 electron loop: deviation equals the dropped F2C terms to 1e-8 of the term sum
# C05 Yukawa lag: under repeated conversion the miss falls below max(10 goal, 1e-3 miss); miss <= 0.5 m_smuon
