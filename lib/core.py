"""Driver plumbing shared by all checks: worker pool, event-log aggregation,
known-findings matching, three-valued verdict, evidence writer."""
import json
import math
import os
import re
import shutil
import subprocess
import sys
import tempfile
import time
from concurrent.futures import ThreadPoolExecutor

from . import build

VERIF = build.VERIF
WORK = os.environ.get("VERIF_WORK", os.path.join(VERIF, "work"))
NCPU = int(os.environ.get("VERIF_JOBS", str(os.cpu_count() or 4)))

SAN_ENV = {
    "ASAN_OPTIONS": "abort_on_error=0:detect_leaks=0:exitcode=99:allocator_may_return_null=1",
    "UBSAN_OPTIONS": "print_stacktrace=1:halt_on_error=1:exitcode=98",
    "TSAN_OPTIONS": "halt_on_error=0:exitcode=97:report_signal_unsafe=0",
}

SAN_PAT = re.compile(
    r"(ERROR: AddressSanitizer[^\n]*|runtime error:[^\n]*|WARNING: ThreadSanitizer[^\n]*|ERROR: LeakSanitizer[^\n]*|"
    r"Assertion `[^\n]*failed[^\n]*)")


def load_known(pid):
    p = os.path.join(VERIF, "known_findings.json")
    if not os.path.exists(p):
        return {}, {}
    data = json.load(open(p))
    opened, fixed = {}, {}
    for e in data.get("findings", []):
        if e.get("property") != pid:
            continue
        (opened if e.get("status") == "open" else fixed)[e["key"]] = e
    return opened, fixed


def jclean(o):
    """Make an object JSON-serialisable with finite numbers only."""
    if isinstance(o, float):
        if math.isnan(o):
            return "nan"
        if math.isinf(o):
            return "inf" if o > 0 else "-inf"
        return o
    if isinstance(o, dict):
        return {str(k): jclean(v) for k, v in o.items()}
    if isinstance(o, (list, tuple)):
        return [jclean(v) for v in o]
    return o


class Check:
    def __init__(self, pid, tier, seed, level="exploration"):
        self.pid = pid
        self.tier = tier
        self.seed = seed
        self.level = level
        self.t0 = time.time()
        self.evaluations = 0
        self.conclusive = 0
        self.inconclusive = 0
        self.cells = {}        # cell -> dict(n, worst, wit)
        self.counts = {}
        self.samples = []
        self.failures = {}
        self.digests = {}     # key -> dict(n, first=case, what)
        self.harness_errors = []
        self.notes = []
        self.rule = ""
        self.assumptions = []
        self.extra = {}
        self.exhaustive = None
        self.min_conclusive = 1
        self.min_cells = 2
        self.required_cells = []   # cell-name prefixes that must be non-empty
        self.builds = {}
        self.workdir = os.path.join(WORK, pid + "-" + tier + "-%d" % os.getpid())
        shutil.rmtree(self.workdir, ignore_errors=True)
        os.makedirs(self.workdir, exist_ok=True)
        self.replay_dir = os.path.join(WORK, "replay")
        os.makedirs(self.replay_dir, exist_ok=True)
        self.tree = None

    # ------------------------------------------------------------------ builds
    def build(self, fn, *a, **kw):
        try:
            r = fn(*a, **kw)
            self.tree = build.tree_id()
            return r
        except build.BuildError as e:
            print("BUILD-ERROR %s" % e)
            self.harness_errors.append("build: " + str(e)[:2000])
            self.finish()
            raise SystemExit(2)

    # ------------------------------------------------------------ event intake
    def add_fail(self, key, what, case):
        f = self.failures.setdefault(key, dict(n=0, what=what, first=case))
        f["n"] += 1

    def add_cell(self, cell, n=1, worst=0.0, wit=None):
        c = self.cells.setdefault(cell, dict(n=0, worst=0.0, wit=None))
        c["n"] += n
        if isinstance(worst, str):
            worst = float(worst)
        if worst is not None and (c["wit"] is None or not (worst <= c["worst"])):
            c["worst"] = worst
            c["wit"] = wit

    def add_count(self, name, n=1):
        self.counts[name] = self.counts.get(name, 0) + n

    def add_sample(self, case, cap=12):
        if len(self.samples) < cap:
            self.samples.append(case)

    def ingest(self, path, origin=None):
        """Read a JSONL event log produced by a harness worker."""
        got_sum = False
        try:
            f = open(path, errors="replace")
        except OSError:
            return False
        for line in f:
            line = line.strip()
            if not line or line[0] != "{":
                continue
            try:
                ev = json.loads(line)
            except ValueError:
                continue
            t = ev.get("t")
            if t == "fail":
                case = ev.get("case", {})
                if origin:
                    case = dict(case, _origin=origin)
                self.add_fail(ev["key"], ev.get("what", ""), case)
                if ev.get("n", 1) > 1:
                    self.failures[ev["key"]]["n"] += ev["n"] - 1
            elif t == "digest":
                self.digests[((origin or {}).get("cfg"), ev.get("w"), ev.get("i"))] = ev.get("h")
            elif t == "failmag":
                f = self.failures.setdefault(ev["key"], dict(n=0, what="", first={}))
                w = ev.get("worst")
                w = float(w) if isinstance(w, str) else w
                if w is not None and not (w <= f.get("worst_mag", -1.0)):
                    f["worst_mag"] = w
            elif t == "cell":
                self.add_cell(ev["cell"], ev.get("n", 1), ev.get("worst", 0.0), ev.get("wit"))
            elif t == "count":
                self.add_count(ev["name"], ev.get("n", 1))
            elif t == "sample":
                self.add_sample(ev.get("case"))
            elif t == "sum":
                got_sum = True
                self.evaluations += ev.get("evaluations", 0)
                self.conclusive += ev.get("conclusive", ev.get("evaluations", 0))
                self.inconclusive += ev.get("inconclusive", 0)
        return got_sum

    # ---------------------------------------------------------------- workers
    def run_workers(self, binary, base_args, cases, nworkers=None, timeout=1800, env=None, cfg="san",
                    crash_key=None, tag=""):
        """Start nworkers processes of a harness; each gets its share of cases.
        A worker that dies is an event: a sanitizer report is a violation with
        its own key; any other abnormal exit is a harness error (exit 2) unless
        crash_key is given."""
        nworkers = nworkers or NCPU
        nworkers = max(1, min(nworkers, cases))
        per = (cases + nworkers - 1) // nworkers
        e = dict(os.environ)
        e.update(SAN_ENV)
        if env:
            e.update(env)

        def one(w):
            out = os.path.join(self.workdir, "w%s%d.jsonl" % (tag, w))
            err = os.path.join(self.workdir, "w%s%d.err" % (tag, w))
            args = [binary, "--seed", str(self.seed), "--worker", str(w), "--nworkers", str(nworkers),
                    "--cases", str(per), "--out", out] + list(base_args)
            t0 = time.time()
            try:
                with open(err, "w") as ef:
                    r = subprocess.run(args, stdout=subprocess.DEVNULL, stderr=ef, timeout=timeout, env=e)
                rc = r.returncode
            except subprocess.TimeoutExpired:
                rc = "timeout"
            return w, args, rc, out, err, time.time() - t0

        with ThreadPoolExecutor(max_workers=nworkers) as ex:
            results = list(ex.map(one, range(nworkers)))
        for w, args, rc, out, err, dt in results:
            origin = dict(binary=os.path.basename(binary), cfg=cfg, args=args[1:])
            ok = self.ingest(out, origin)
            errtxt = ""
            try:
                errtxt = open(err, errors="replace").read()
            except OSError:
                pass
            m = SAN_PAT.search(errtxt)
            if m:
                kind = re.sub(r"( on (unknown )?address| at pc| in thread| \(pid=\d+\)).*$", "", m.group(1))   # keys must not depend on addresses
                kind = re.sub(r"0x[0-9a-f]+", "", kind)
                kind = re.sub(r"[^A-Za-z0-9_:+-]+", "-", kind)[:80]
                frames = re.findall(r"#\d+ 0x[0-9a-f]+ in ([^\s(]+)", errtxt)
                libframe = next((fr for fr in frames if "gm2calc" in fr or "slha" in fr.lower()), frames[0] if frames else "?")
                key = "%s:sanitizer:%s:%s" % (self.pid, kind, libframe[:60])
                self.add_fail(key, m.group(1), dict(_origin=origin, stderr_tail=errtxt[-3000:]))
            elif rc == "timeout":
                self.harness_errors.append("worker %d timed out after %ds (inconclusive): %s" % (w, timeout, " ".join(args)))
            elif rc != 0 or not ok:
                if crash_key:
                    self.add_fail(crash_key, "worker exit %s" % rc, dict(_origin=origin, stderr_tail=errtxt[-3000:]))
                else:
                    self.harness_errors.append("worker %d exit %s: %s\n%s" % (w, rc, " ".join(args), errtxt[-1500:]))
        return results

    def _cells_for_evidence(self, nwit=40):
        """All cells with count and worst error; witnesses only for the nwit worst (size)."""
        ranked = sorted(self.cells.items(), key=lambda kv: -(kv[1]["worst"] if isinstance(kv[1]["worst"], (int, float))
                                                              and kv[1]["worst"] == kv[1]["worst"] else 1e300))
        keep = set(k for k, _ in ranked[:nwit])
        o = {}
        for k, v in sorted(self.cells.items()):
            o[k] = dict(n=v["n"], worst=v["worst"])
            if k in keep and v["wit"] is not None:
                o[k]["witness"] = v["wit"]
        return o

    # ---------------------------------------------------------------- verdict
    def finish(self):
        opened, fixed = load_known(self.pid)
        violations = []
        known_seen = []
        for key, f in sorted(self.failures.items()):
            if key in opened:
                known_seen.append(key)
                print("KNOWN-FINDING: property=%s %s %s (observed %d times%s; e.g. %s)" % (
                    self.pid, key, opened[key].get("what", ""), f["n"], (", largest magnitude %.3g" % f["worst_mag"]) if "worst_mag" in f else "", f["what"][:160]))
            else:
                violations.append(key)
        replay_paths = {}
        for key in violations:
            f = self.failures[key]
            safe = re.sub(r"[^A-Za-z0-9_.+-]+", "_", key)[:100]
            path = os.path.join(self.replay_dir, "%s.json" % safe)
            with open(path, "w") as fh:
                json.dump(jclean(dict(property=self.pid, key=key, what=f["what"], occurrences=f["n"], seed=self.seed,
                                      tier=self.tier, case=f["first"],
                                      note=("was listed as fixed: " + fixed[key].get("commit", "")) if key in fixed else None)),
                          fh, indent=1)
            replay_paths[key] = path
            print("VIOLATION property=%s replay=%s" % (self.pid, path))
            print("  key=%s occurrences=%d what=%s" % (key, f["n"], f["what"][:300]))

        nonempty = sum(1 for c in self.cells.values() if c["n"] > 0)
        distinct = self.extra.pop("distinct_nontrivial", None)
        if distinct is None:
            distinct = nonempty
        inconclusive_reasons = list(self.harness_errors)
        if not violations:
            if self.conclusive < self.min_conclusive:
                inconclusive_reasons.append("only %d conclusive cases (floor %d)" % (self.conclusive, self.min_conclusive))
            if distinct < self.min_cells:
                inconclusive_reasons.append("only %d distinct non-trivial cells (floor %d)" % (distinct, self.min_cells))
            for pref in self.required_cells:
                if not any(k.startswith(pref) and c["n"] > 0 for k, c in self.cells.items()):
                    inconclusive_reasons.append("promised cell class '%s' is empty" % pref)

        cov = dict(
            evaluations=int(self.evaluations),
            distinct_nontrivial=int(distinct),
            rule=self.rule,
            samples=self.samples[:12] or [{"note": "no sample recorded"}],
            conclusive=int(self.conclusive),
            inconclusive=int(self.inconclusive),
            cells=self._cells_for_evidence(),
            counts=self.counts,
            known_findings_observed={k: (dict(n=self.failures[k]["n"], worst_magnitude=self.failures[k]["worst_mag"]) if "worst_mag" in self.failures[k] else self.failures[k]["n"]) for k in known_seen},
            violations_observed={k: dict(n=self.failures[k]["n"], what=self.failures[k]["what"][:300],
                                         replay=replay_paths[k]) for k in violations},
            harness_errors=inconclusive_reasons,
            source_tree=self.tree,
            repo=build.repo_root(),
        )
        if self.exhaustive is not None:
            cov["exhaustive"] = bool(self.exhaustive)
        cov.update(self.extra)
        verdict = "violated" if violations else ("inconclusive" if inconclusive_reasons else "held")
        ev = dict(property_id=self.pid, tier=self.tier, seed=int(self.seed), level=self.level,
                  coverage=jclean(cov), assumptions=self.assumptions, wall_s=round(time.time() - self.t0, 2),
                  violations=len(violations), verdict=verdict, notes=self.notes)
        if build.repo_root() == "/repo" and not os.environ.get("VERIF_NO_EVIDENCE"):
            os.makedirs(os.path.join(VERIF, "evidence"), exist_ok=True)
            p = os.path.join(VERIF, "evidence", self.pid + ".json")
            with open(p + ".tmp", "w") as fh:
                json.dump(ev, fh, indent=1, sort_keys=False)
                fh.write("\n")
            os.rename(p + ".tmp", p)
        print("%s %s tier=%s seed=%d: %s — %d evaluations, %d conclusive, %d inconclusive, %d cells, %d known-finding keys, %d violation keys, %.1fs" % (
            self.pid, "RESULT", self.tier, self.seed, verdict.upper(), self.evaluations, self.conclusive,
            self.inconclusive, nonempty, len(known_seen), len(violations), time.time() - self.t0))
        if not os.environ.get("VERIF_KEEP_WORK"):
            shutil.rmtree(self.workdir, ignore_errors=True)
        if violations:
            return 1
        if inconclusive_reasons:
            for r in inconclusive_reasons:
                print("INCONCLUSIVE: " + r[:2000])
            return 2
        return 0


def run_replay(path):
    """Re-execute one recorded failing case through the harness that produced it."""
    rec = json.load(open(path))
    case = rec.get("case", {})
    org = case.get("_origin")
    if not org:
        print("replay file has no harness origin; see 'case' for the input:", json.dumps(case)[:2000])
        return 2
    return org, case, rec


def generic_replay(mod, path):
    """./vcheck Cxx --replay <file>: rebuild the harness from the current tree and
    re-execute only the recorded case; exit 1 if the same finding key fires again."""
    rec = json.load(open(path))
    case = rec.get("case") or {}
    org = case.get("_origin")
    if not org:
        print("replay file carries no harness origin; the recorded case is:\n" + json.dumps(case, indent=1)[:4000])
        return 2
    name = org["binary"]
    kw = dict(getattr(mod, "HARNESSES", {}).get(name, {}))
    kw.pop("cfgs", None)
    binary = build.harness(org["cfg"], name, **kw)
    args = []
    it = iter(org["args"])
    for x in it:
        if x == "--out":
            next(it, None)
            continue
        args.append(x)
    if "_i" in case and case["_i"] is not None and case["_i"] >= 0:
        args += ["--only", str(case["_i"])]
    args += ["--verbose"]
    e = dict(os.environ)
    e.update(SAN_ENV)
    r = subprocess.run([binary] + args, capture_output=True, text=True, env=e, timeout=3600)
    hit = False
    for line in r.stdout.splitlines():
        if line.startswith("{"):
            try:
                ev = json.loads(line)
            except ValueError:
                continue
            if ev.get("t") == "fail":
                print(line[:3000])
                if ev.get("key") == rec.get("key"):
                    hit = True
    if SAN_PAT.search(r.stderr or ""):
        print(r.stderr[-3000:])
        hit = True
    print("replay of %s: %s" % (rec.get("key"), "REPRODUCED" if hit else "not reproduced"))
    if hit:
        print("VIOLATION property=%s replay=%s" % (rec.get("property"), path))
    return 1 if hit else 0
