#!/bin/bash
# usage: tools/at_commit.sh <repo-commit> <check-id> [vcheck args...]
# Runs a check against a scratch worktree of /repo at the given commit (e.g. the parent of a fix:
# commit, to confirm that the check detects the original defect).  The worktree is removed afterwards.
set -u
C=$1; shift
D=$(mktemp -d /tmp/verif-wt-XXXXXX)
git -C /repo worktree add -q --detach "$D/repo" "$C" || exit 2
VERIF_REPO="$D/repo" VERIF_NO_EVIDENCE=1 "$(dirname "$0")/../vcheck" "$@"
rc=$?
git -C /repo worktree remove --force "$D/repo"; rm -rf "$D"
exit $rc
