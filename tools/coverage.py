#!/usr/bin/env python3
"""usage: tools/coverage.py [--scale f] [check ids...]
What part of the library does the workload of the checks execute?  Builds library, CLI and harnesses with gcc --coverage (VERIF_COVERAGE=1 maps every
configuration except the libFuzzer one to it), runs the quick tier of the given checks (default: all) at the given scale without writing evidence,
then runs gcov over the library objects and writes coverage/REPORT.md and coverage/coverage.json: executed lines per source file and the functions
of which no line was executed.  A diagnostic of reach, not a check: it is not registered in MANIFEST.json."""
import glob
import json
import os
import re
import subprocess
import sys

ROOT = os.path.dirname(os.path.dirname(os.path.abspath(__file__)))
sys.path.insert(0, ROOT)
os.environ["VERIF_COVERAGE"] = "1"
os.environ["VERIF_NO_EVIDENCE"] = "1"
from lib import build  # noqa: E402


def main():
    args = sys.argv[1:]
    scale = "0.2"
    if args[:1] == ["--scale"]:
        scale = args[1]
        args = args[2:]
    checks = args or ["C%02d" % i for i in range(1, 21)]
    objs = build.lib_objects("plain")
    cliobj, _ = build.cli("plain", main_rename="gm2calc_main")   # only to know the object path of gm2calc.cpp built the same way as for the harnesses
    for o in glob.glob(os.path.join(build.CACHE, "obj", "*.gcda")):
        os.remove(o)
    for c in checks:
        r = subprocess.run([os.path.join(ROOT, "vcheck"), c, "--scale", scale], capture_output=True, text=True)
        res = [l for l in r.stdout.splitlines() if " RESULT " in l]
        print(c, res[-1][:160] if res else "exit %d" % r.returncode, flush=True)
    srcs = build.lib_sources()
    report = {}
    unexec = []
    for src, obj in zip(srcs, objs):
        base = obj[:-2] if obj.endswith(".o") else obj
        # the object was compiled under a temporary name: notes/data files carry that stem
        cands = glob.glob(base + ".o.tmp.gcno") or glob.glob(base + "*.gcno")
        if not cands:
            continue
        gcno = cands[0]
        wd = os.path.dirname(gcno)
        r = subprocess.run(["gcov", "-f", "-o", gcno, os.path.join(build.repo_root(), "src", src)], capture_output=True, text=True, cwd="/tmp")
        cur = None
        for line in r.stdout.splitlines():
            m = re.match(r"Function '(.*)'", line)
            if m:
                cur = ("fn", m.group(1))
                continue
            m = re.match(r"File '(.*)'", line)
            if m:
                cur = ("file", m.group(1))
                continue
            m = re.match(r"Lines executed:([0-9.]+)% of (\d+)", line)
            if m and cur:
                pct, n = float(m.group(1)), int(m.group(2))
                if cur[0] == "file" and cur[1].startswith(build.repo_root()):
                    f = os.path.relpath(cur[1], build.repo_root())
                    a = report.setdefault(f, [0.0, 0])
                    a[0] += pct * n / 100.0
                    a[1] += n
                elif cur[0] == "fn" and pct == 0.0 and n > 0:
                    d = subprocess.run(["c++filt", cur[1]], capture_output=True, text=True).stdout.strip()
                    if "gm2calc" in d and "std::" not in d.split("(")[0] and "Eigen::" not in d.split("(")[0]:
                        unexec.append((src, d, n))
                cur = None
    for f in glob.glob("/tmp/*.gcov"):
        os.remove(f)
    os.makedirs(os.path.join(ROOT, "coverage"), exist_ok=True)
    files = {f: dict(lines=n, executed=round(x), percent=round(100.0 * x / n, 1) if n else 0.0) for f, (x, n) in sorted(report.items())}
    tot_n = sum(v["lines"] for v in files.values())
    tot_x = sum(v["executed"] for v in files.values())
    unexec = sorted(set(unexec))
    json.dump(dict(checks=checks, scale=scale, files=files, total=dict(lines=tot_n, executed=tot_x), functions_never_executed=[dict(source=s, function=d, lines=n) for s, d, n in unexec]),
              open(os.path.join(ROOT, "coverage", "coverage.json"), "w"), indent=1)
    with open(os.path.join(ROOT, "coverage", "REPORT.md"), "w") as out:
        out.write("# Library code executed by the workload of the checks (gcov, quick tier at scale %s)\n\n" % scale)
        out.write("Total: %d of %d instrumented lines (%.1f %%) in %d source/header files.\n\n| file | lines | executed | %% |\n|---|---|---|---|\n" % (tot_x, tot_n, 100.0 * tot_x / max(tot_n, 1), len(files)))
        for f, v in files.items():
            out.write("| %s | %d | %d | %.1f |\n" % (f, v["lines"], v["executed"], v["percent"]))
        out.write("\n## Library functions of which no line was executed (%d)\n\n" % len(unexec))
        for s, d, n in unexec:
            out.write("* `%s` (%s, %d lines)\n" % (d, s, n))
    print("total %.1f%% of %d lines; %d functions never executed" % (100.0 * tot_x / max(tot_n, 1), tot_n, len(unexec)))


if __name__ == "__main__":
    main()
