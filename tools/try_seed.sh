#!/bin/bash
# usage: tools/try_seed.sh <patch.diff> <check-id> [more check ids] [-- vcheck args]
# Runs quick checks against a scratch worktree of /repo HEAD with the patch applied (VERIF_REPO), then removes it.
set -u
P=$(realpath "$1"); shift
D=$(mktemp -d /tmp/verif-try-XXXXXX)
git -C /repo worktree add -q --detach "$D/repo" HEAD || exit 2
git -C "$D/repo" apply "$P" || { echo "patch does not apply"; git -C /repo worktree remove --force "$D/repo"; rm -rf "$D"; exit 2; }
IDS=(); while [ $# -gt 0 ] && [ "$1" != "--" ]; do IDS+=("$1"); shift; done; [ $# -gt 0 ] && shift
for c in "${IDS[@]}"; do
  VERIF_REPO="$D/repo" VERIF_NO_EVIDENCE=1 "$(dirname "$0")/../vcheck" "$c" "$@" 2>&1 | grep -v "^KNOWN-FINDING" | cut -c1-330 | tail -6
done
git -C /repo worktree remove --force "$D/repo"; rm -rf "$D"
