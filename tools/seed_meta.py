#!/usr/bin/env python3
"""Writes seeded/<id>/meta.json from the descriptions below plus the recorded confirmation and check results
(seeded/confirm.json, seeded/matrix.json - both produced by tools/confirm_all.sh and tools/seed_matrix.sh).
Nothing here is used by the checks; the directory documents the mutation study of DESIGN.md section 9.6."""
import json
import os
import sys

ROOT = os.path.dirname(os.path.dirname(os.path.abspath(__file__)))
SEEDS = {
    # id: (property, origin, change, needs, initially_missed_by_own_check, strengthening)
    "C01": ("C01", "round 1", "f_PS (eps<z<1/4 branch): log(q) rewritten as 2*log1p(y)-log(4z); the compensation between the rounded q in dilog(1+q) and log(q) is lost",
            "arguments 1e-14 <= z <~ 2e-11 and a relative comparison (error 1e-6..3e-4 in f_PS, F1t, F1, f_S); absolute error only 5e-15", False, ""),
    "C02": ("C02", "round 1", "Ixx(): near-equality threshold eps_eq (1e-4) replaced by the file-level eps (2.2e-15), the all-three-nearly-equal expansion is never taken",
            "Iabc with all three squared masses within 2e-4 and the two largest within 1e-5 but not bit-identical", False, ""),
    "C03": ("C03", "round 1", "THDM one-loop charged-Higgs term AHp: y(gen,1) -> y(1,gen), (y^+ y)_11 becomes (y y^+)_11",
            "non-symmetric lepton-flavour-violating Delta_l / Pi_l (aligned or general type)", False, ""),
    "C04": ("C04", "round 1", "move_goldstone_to(): rows of the mixing matrix swapped -> columns swapped",
            "MA < MZ (pseudoscalar) or -2MW^2 < MA^2 < 0 (charged), and an oracle that looks at the mixing matrix (masses stay right)", False, ""),
    "C05": ("C05", "round 1", "convert_Mu_M1_M2: non-convergence only flagged when the iteration budget is exhausted; the 'no improvement' stall exit unflags the warning",
            "conversion that stalls before max_iterations (|mu| ~ |M2| with opposite signs): wrong Mu/M1/M2 without warning", False, ""),
    "C06": ("C06", "round 1", "delta_bottom_correction: 'decoupled gluino' shortcut conditioned on the signed M3 instead of |M3|",
            "|M3| > 1000 max(msq3, msd3)", True, "C06 generator gained hierarchical points (one to three parameters moved by up to four decades, M3 preferred)"),
    "C07": ("C07", "round 1", "amu1LChipm reads the sneutrino mass from get_physical() (pole struct, only filled while zero) instead of the calculated spectrum",
            "a model object on which calculate_masses() ran before, re-filled through the setters with scaled parameters and recalculated", True,
            "C07 builds the family of scaled models three ways (fresh objects, one object rescaled in place, rescaled copies of the initialised base); C19 gained an object re-use monitor"),
    "C08": ("C08", "round 1", "reorder_MSbar_masses: charged Goldstone selected by closeness to MZ instead of MW", "MW < mH+ < 2 MZ - MW (80.4 .. 102 GeV)", False, ""),
    "C09": ("C09", "round 1", "THDM::get_rho_u (general type): Pi_u.real() -> Pi_u.adjoint()", "general Yukawa type with non-symmetric Pi_u (and a non-unit CKM matrix for a_mu to move)", False, ""),
    "C10": ("C10", "round 1", "dxlog() near-degenerate branch rewritten around the mean with log(b) where log(mean) belongs: first-order error in the splitting",
            "two heavy Higgs squared masses equal to better than 1e-4 but not exactly (M >~ 25 TeV for O(1) quartics)", False, ""),
    "C11": ("C11", "round 1", "FCWu/FCWd: removable-singularity shift triggered by the file-scope eps (2.2e-15) instead of the local 1e-8",
            "mH+ within 1e-10 (relative) of MW without being bit-identical", False, ""),
    "C12": ("C12", "round 1", "disna(): last clamping loop runs to K-1, SEP(K-1) unprotected", "vector error bounds requested and the last two values in the solver's native order bit-identical", False, ""),
    "C13": ("C13", "round 1", "is_at_scale: absolute tolerance 0.01 -> relative (is_equal_rel)", "SLHA file with a repeated scale-dependent block at a scale 0.01 < |dQ| < 1% away, placed after the matching block", True,
            "C13 rewrites gained near-scale duplicates (off by >= 0.1 and >= 3e-4 relative) inserted anywhere, also after the effective blocks; header Q respelled"),
    "C14": ("C14", "round 1", "convert_me2_root_modify: catch(std::exception) narrowed to boost::math::evaluation_error; std::domain_error from toms748 escapes main -> SIGABRT",
            "SLHA input whose right-smuon fixed point fails and whose root bracket encloses no root (e.g. MASS[1000013]=3000, MASS[2000013]=20, HMIX[2]=100)", False, ""),
    "C15": ("C15", "round 1", "THDM_reader: running_couplings = options.running_couplings && loop_order > 1",
            "THDM input, loop order 0 or 1, running couplings on, and a report containing the two-loop value (uncertainty or detailed output)", False, ""),
    "C16": ("C16", "round 1", "THDM calculate_Mhh: tachyon test on Mhh(0) only (eigenvalues are ordered by modulus, not value)",
            "gauge-basis point whose CP-even matrix has a negative eigenvalue larger in modulus than the positive one, A and H+ not tachyonic", True,
            "C16 gained an independent tree-level spectrum as tachyon oracle over random gauge-basis points (C++, C, CLI), cells by which state is tachyonic"),
    "C17": ("C17", "round 1", "gm2calc_mssmnofv_convert_to_onshell forwards to the _params variant with 100 instead of 1000 iterations",
            "C API, SLHA-type pole input whose conversion needs more than 100 iterations (||mu|-M2| small)", False, ""),
    "C18": ("C18", "round 1", "THDM two-loop uncertainty: |.| taken of a_mu only, not of the product with ln(mNP/m_mu)", "lightest BSM Higgs lighter than the muon", False, ""),
    "C19": ("C19", "round 1", "thread_local memo in calculate_lambda_qcd keyed on alpha_s only (scale forgotten)",
            "two evaluations in one thread with bit-identical alpha_s(MZ) and different MZ, nothing in between; no data race", True,
            "C19 gained neighbour histories: a point evaluated right after a point differing in exactly one input (each SM input, each model parameter) against the same point after an unrelated one"),
    "C20": ("C20", "round 1", "thread_local memo in calculate_lambda_qcd keyed on alpha_s only (reference scale forgotten); stale value also suppresses the fallback warning",
            "two consecutive Lambda_QCD determinations with bit-identical alpha_s and another reference scale", True,
            "C20 varies the reference scale and precedes the judged calls by a call differing in exactly one argument"),
}


def main():
    conf = {}
    mat = {}
    for name, tgt in (("confirm.json", conf), ("matrix.json", mat)):
        p = os.path.join(ROOT, "seeded", name)
        if os.path.exists(p):
            tgt.update(json.load(open(p)))
    extra = os.path.join(ROOT, "seeded", "seeds_extra.json")
    seeds = dict(SEEDS)
    if os.path.exists(extra):
        for k, v in json.load(open(extra)).items():
            seeds[k] = tuple(v)
    for sid, (prop, origin, change, needs, missed, strengthening) in sorted(seeds.items()):
        d = os.path.join(ROOT, "seeded", sid)
        if not os.path.isdir(d):
            continue
        m = mat.get(sid, {})
        meta = {
            "property": prop,
            "origin": "fresh sub-agent given only the property text and a scratch git worktree of /repo (%s)" % origin,
            "change": change,
            "needs_to_manifest": needs,
            "confirmation": conf.get(sid, "not recorded"),
            "confirmation_cmd": "tools/confirm_seed.sh seeded/%s   (scratch worktree of /repo HEAD: build, ctest with the patch; demonstration with and without it)" % sid,
            "checks_run": {"cmd": "tools/seed_matrix.sh %s   (every quick check against a scratch worktree with the patch, VERIF_REPO)" % sid, "results": m},
            "caught_by": sorted(k for k, v in m.items() if v.get("verdict") == "VIOLATED"),
            "own_check_missed_it_at_first": missed,
            "strengthening": strengthening,
        }
        json.dump(meta, open(os.path.join(d, "meta.json"), "w"), indent=1, sort_keys=True)
    print("meta.json written for", len(seeds), "seeds")


if __name__ == "__main__":
    sys.exit(main())
