#!/usr/bin/env python3
"""usage: tools/seed_matrix.py [--confirm] [--checks C01,C02,...] <seed id> [more seed ids]
For each seeded/<id>/patch.diff: a scratch worktree of /repo HEAD with the patch applied (removed afterwards), then
  --confirm : tools/confirm_seed.sh (suite passes with the patch, demonstration fails with / passes without) -> seeded/confirm.json
  otherwise : every quick check (or the listed ones) against the patched worktree (VERIF_REPO, no evidence written) -> seeded/matrix.json
Never touches /repo's working tree."""
import json
import os
import re
import subprocess
import sys
import tempfile

ROOT = os.path.dirname(os.path.dirname(os.path.abspath(__file__)))
ALL = ["C%02d" % i for i in range(1, 21)]


def load(p):
    return json.load(open(p)) if os.path.exists(p) else {}


def main():
    args = sys.argv[1:]
    confirm = False
    checks = ALL
    ids = []
    while args:
        a = args.pop(0)
        if a == "--confirm":
            confirm = True
        elif a == "--checks":
            checks = args.pop(0).split(",")
        else:
            ids.append(a)
    for sid in ids:
        sdir = os.path.join(ROOT, "seeded", sid)
        if confirm:
            r = subprocess.run([os.path.join(ROOT, "tools", "confirm_seed.sh"), sdir], capture_output=True, text=True)
            line = [l for l in r.stdout.splitlines() if l.startswith("RESULT")]
            p = os.path.join(ROOT, "seeded", "confirm.json")
            d = load(p)
            d[sid] = (line[-1][7:] if line else "confirm_seed.sh gave no result: " + (r.stdout + r.stderr)[-300:]) + (" => confirmed" if r.returncode == 0 else " => NOT confirmed")
            json.dump(d, open(p, "w"), indent=1, sort_keys=True)
            print(sid, d[sid], flush=True)
            continue
        tmp = tempfile.mkdtemp(prefix="verif-matrix-")
        wt = os.path.join(tmp, "repo")
        subprocess.run(["git", "-C", "/repo", "worktree", "add", "-q", "--detach", wt, "HEAD"], check=True)
        try:
            subprocess.run(["git", "-C", wt, "apply", os.path.join(sdir, "patch.diff")], check=True)
            for c in checks:
                env = dict(os.environ, VERIF_REPO=wt, VERIF_NO_EVIDENCE="1")
                r = subprocess.run([os.path.join(ROOT, "vcheck"), c], capture_output=True, text=True, env=env)
                res = [l for l in r.stdout.splitlines() if " RESULT " in l]
                verdict = re.search(r": (HELD|VIOLATED|INCONCLUSIVE)", res[-1]).group(1) if res and re.search(r": (HELD|VIOLATED|INCONCLUSIVE)", res[-1]) else "exit %d" % r.returncode
                keys = sorted(set(re.findall(r"^\s+key=(\S+)", r.stdout, re.M)))
                p = os.path.join(ROOT, "seeded", "matrix.json")
                d = load(p)
                d.setdefault(sid, {})[c] = {"verdict": verdict, "exit": r.returncode, "violation_keys": keys[:12], "n_violation_keys": len(keys)}
                json.dump(d, open(p, "w"), indent=1, sort_keys=True)
                print(sid, c, verdict, len(keys), flush=True)
        finally:
            subprocess.run(["git", "-C", "/repo", "worktree", "remove", "--force", wt])
            subprocess.run(["rm", "-rf", tmp])


if __name__ == "__main__":
    main()
