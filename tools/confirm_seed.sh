#!/bin/bash
# usage: tools/confirm_seed.sh <dir with patch.diff and demo.{cpp,sh}> 
# Confirms a seeded change independently, in a scratch worktree of /repo HEAD:
#   (1) with the patch: builds, the repository's own test suite passes, the demonstration FAILS
#   (2) without the patch: the demonstration PASSES
# Demonstrations are called with the path of the built gm2calc.x as first and an example input as second argument.
# Output: one summary line; exit 0 iff all of that holds.  The worktree is removed afterwards.
set -u
S=$(realpath "$1")
D=$(mktemp -d /tmp/verif-confirm-XXXXXX)
W=$D/repo
git -C /repo worktree add -q --detach "$W" HEAD || exit 2
cleanup() { git -C /repo worktree remove --force "$W" 2>/dev/null; rm -rf "$D"; }
trap cleanup EXIT
build() { cmake -S "$W" -B "$W/_b" -G Ninja -DCMAKE_BUILD_TYPE=Release >/dev/null 2>&1 && cmake --build "$W/_b" -j 8 >"$D/build.log" 2>&1; }
demo() {
  if [ -f "$S/demo.cpp" ]; then
    g++ -std=c++14 -O1 -I"$W/include" -I"$W/src" -I/usr/include/eigen3 "$S/demo.cpp" "$W/_b/lib/libgm2calc.a" -pthread -lquadmath -o "$D/demo" 2>"$D/demo_build.log" || { echo "demo does not build"; cat "$D/demo_build.log" | head -20; return 99; }
    # arguments: the built gm2calc.x and an example input (seeded/<id>/demo.args names another example file when the demonstration wants one)
    EX="$W/input/example.thdm"; [ -f "$S/demo.args" ] && EX="$W/$(cat "$S/demo.args")"
    (cd "$W" && timeout 900 "$D/demo" "$W/_b/bin/gm2calc.x" "$EX" >"$D/demo.out" 2>&1); return $?
  elif [ -f "$S/demo.sh" ]; then
    # run a copy placed inside the worktree (some demonstrations locate the source tree relative to their own path)
    mkdir -p "$W/SEED_DEMO" && cp "$S/demo.sh" "$W/SEED_DEMO/demo.sh"
    (cd "$W" && ROOT="$W" BUILD="$W/_b" GM2CALC_BUILD_DIR="$W/_b" GM2CALC="$W/_b/bin/gm2calc.x" REPO="$W" timeout 900 bash "$W/SEED_DEMO/demo.sh" "$W/_b/bin/gm2calc.x" "$W/$( [ -f "$S/demo.args" ] && cat "$S/demo.args" || echo input/example.slha)" >"$D/demo.out" 2>&1); return $?
  fi
  echo "no demo"; return 98
}
git -C "$W" apply "$S/patch.diff" || { echo "RESULT patch does not apply"; exit 1; }
build || { echo "RESULT build fails with patch"; tail -20 "$D/build.log"; exit 1; }
ctest --test-dir "$W/_b" -j 8 --timeout 900 >"$D/ctest.log" 2>&1; CT=$?
demo; DW=$?
git -C "$W" checkout -- . ; build || { echo "RESULT build fails without patch"; exit 1; }
demo; DO=$?
echo "RESULT suite_with_patch=$([ $CT = 0 ] && echo pass || echo FAIL) demo_with_patch=$([ $DW != 0 ] && echo fails || echo PASSES)($DW) demo_without_patch=$([ $DO = 0 ] && echo passes || echo FAILS)($DO)"
[ $CT = 0 ] && [ $DW != 0 ] && [ $DO = 0 ]
