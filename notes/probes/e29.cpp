#include "gm2calc/THDM.hpp"
#include "gm2calc/gm2_1loop.hpp"
#include "gm2calc/gm2_2loop.hpp"
#include "gm2calc/gm2_error.hpp"
#include <cstdio>
#include <cmath>
#include <random>
#include <iostream>
#include <sstream>
#include <algorithm>
using namespace gm2calc;
std::mt19937_64 rng(14);
double U(double a,double b){ return std::uniform_real_distribution<double>(a,b)(rng);} 
double LU(double a,double b){ return std::exp(U(std::log(a),std::log(b))); }
int main(int argc,char**argv){
  std::stringstream err; std::cerr.rdbuf(err.rdbuf());
  const int NL=5, NH=5; std::vector<double> R[3]; double worst[3]={0,0,0}; double mut[3]={1e9,1e9,1e9}; std::vector<double> Rm[3];
  for(int it=0; it<8000; ++it){
    thdm::Gauge_basis g; g.yukawa_type=(thdm::Yukawa_type)(1+it%4); g.tan_beta=LU(0.3,50); for(int i=0;i<7;i++) g.lambda(i)=U(-2,2); g.lambda(0)=U(0,2); g.lambda(1)=U(0,2);
    thdm::Config cfg; cfg.running_couplings=false; double tb=g.tan_beta, sbcb=tb/(1+tb*tb);
    double klo[3]={0,0,0}, khi[3]={0,0,0}, khim[3]={0,0,0}; bool ok=true; double alo[3]={0,0,0};
    for(int j=0;j<NL+NH && ok;j++){ double M = j<NL ? 1000*std::pow(10.0,0.5*j/(NL-1)) : 10000*std::pow(10.0,0.5*(j-NL)/(NH-1)); g.m122=M*M*sbcb; try{ THDM m0(g,SM(),cfg); SM sm; sm.set_mh(m0.get_Mhh(0)); THDM m(g,sm,cfg); double a[3]={calculate_amu_1loop(m),calculate_amu_2loop_fermionic(m),calculate_amu_2loop_bosonic(m)}; double L=std::log(M/91.1876); double nrm=M*M/(1+L*L);
        for(int c=0;c<3;c++){ double K=std::abs(a[c])*nrm; if(j<NL){ klo[c]=std::max(klo[c],K); alo[c]=std::max(alo[c],std::abs(a[c])); } else { khi[c]=std::max(khi[c],K); khim[c]=std::max(khim[c],(std::abs(a[c])+0.1*alo[c])*nrm); } }
      } catch(const Error&){ ok=false; } }
    if(!ok) continue;
    for(int c=0;c<3;c++){ double r=khi[c]/klo[c]; R[c].push_back(r); Rm[c].push_back(khim[c]/klo[c]); if(r>worst[c]){worst[c]=r; printf("comp %d R=%.3f tb=%.2f type=%d\n",c,r,tb,(int)g.yukawa_type);} }
  }
  for(int c=0;c<3;c++){ auto v=R[c]; std::sort(v.begin(),v.end()); auto w=Rm[c]; std::sort(w.begin(),w.end()); printf("comp %d n=%zu R median %.3f 99.9%% %.3f max %.3f | mutant(+10%% of low-M max as constant) R: min %.2f 1%% %.2f median %.2f\n",c,v.size(),v[v.size()/2],v[v.size()*999/1000],v.back(),w.front(),w[w.size()/100],w[w.size()/2]); }
}
