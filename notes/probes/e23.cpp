#include "gm2_ffunctions.hpp"
#include <cstdio>
#include <cmath>
#include <random>
std::mt19937_64 rng(80); double U(double a,double b){ return std::uniform_real_distribution<double>(a,b)(rng);} double LU(double a,double b){ return std::exp(U(std::log(a),std::log(b))); }
int main(){ const double mu[3]={0.0022,1.28,173.34}, md[3]={0.0047,0.096,4.18}, ml[3]={0.000510998928,0.1056583715,1.777}; const double mw=80.385, mz=91.1876;
  for(int i=0;i<400;i++){ double ms=LU(50,5000); for(int a=0;a<3;a++) for(int b=0;b<3;b++){ double xu=mu[a]*mu[a]/(ms*ms), xd=md[b]*md[b]/(ms*ms), yu=mu[a]*mu[a]/(mw*mw), yd=md[b]*md[b]/(mw*mw);
      printf("CW %a %a %a %a %a %a %a %a %a\n", ms, xu,xd,yu,yd, gm2calc::FCWu(xu,xd,yu,yd,2./3,-1./3), gm2calc::FCWd(xu,xd,yu,yd,2./3,-1./3), gm2calc::f_CSu(xu,xd,2./3,-1./3), gm2calc::f_CSd(xu,xd,2./3,-1./3)); }
    for(int a=0;a<3;a++){ double x=ml[a]*ml[a]/(ms*ms), y=ml[a]*ml[a]/(mw*mw); printf("L %a %a %a\n", x,y, gm2calc::FCWl(x,y)); }
    { double x=LU(1e-6,1e3), y=(i%3==0)?x:LU(1e-6,1e3); if(i%3!=0 && std::abs(x/y-1)<1e-3) continue; printf("Z %a %a %a %a\n", x,y, gm2calc::FPZ(x,y), gm2calc::FSZ(x,y)); }
  } }
