#include "gm2calc/THDM.hpp"
#include "gm2calc/gm2_1loop.hpp"
#include "gm2calc/gm2_2loop.hpp"
#include "gm2calc/gm2_error.hpp"
#include <cstdio>
#include <cmath>
#include <random>
#include <iostream>
#include <sstream>
#include <algorithm>
using namespace gm2calc;
std::mt19937_64 rng(13);
double U(double a,double b){ return std::uniform_real_distribution<double>(a,b)(rng);} 
double LU(double a,double b){ return std::exp(U(std::log(a),std::log(b))); }
int main(){
  std::stringstream err; std::cerr.rdbuf(err.rdbuf());
  SM sm0; double cw2=std::pow(sm0.get_mw()/sm0.get_mz(),2); double AB=std::pow(sm0.get_alpha_em_mz()/(24*M_PI*cw2*(1-cw2))*sm0.get_ml(1)/sm0.get_mz(),2);
  std::vector<double> Ks[5]; double Ms[5]={1000,3162.28,10000,17782.8,31622.8};
  for(int it=0; it<6000; ++it){
    thdm::Gauge_basis g; g.yukawa_type=(thdm::Yukawa_type)(1+it%4); g.tan_beta=LU(0.3,50); for(int i=0;i<7;i++) g.lambda(i)=U(-2,2); g.lambda(0)=U(0,2); g.lambda(1)=U(0,2);
    thdm::Config cfg; cfg.running_couplings=false; double tb=g.tan_beta, sbcb=tb/(1+tb*tb); double zmax=std::max(tb,1/tb);
    for(int j=0;j<5;j++){ double M=Ms[j]; g.m122=M*M*sbcb; try{ THDM m0(g,SM(),cfg); SM sm; sm.set_mh(m0.get_Mhh(0)); THDM m(g,sm,cfg); double a=calculate_amu_2loop_bosonic(m); double L=std::log(M/91.1876); double env=AB*zmax*zmax*std::pow(91.1876/M,2)*(1+L*L); Ks[j].push_back(std::abs(a)/env); } catch(const Error&){} }
  }
  printf("A_B=%.3e\n",AB);
  for(int j=0;j<5;j++){ auto& v=Ks[j]; std::sort(v.begin(),v.end()); printf("M=%.0f n=%zu K_B median %.3f 99%% %.3f max %.3f\n",Ms[j],v.size(),v[v.size()/2],v[v.size()*99/100],v.back()); }
}
