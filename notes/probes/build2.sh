#!/bin/bash
# usage: build.sh <objdir> <flags...>
OBJ=$1; shift
mkdir -p $OBJ
cd ${SRCROOT:-/repo}/src
ls *.cpp */*.cpp | grep -v gm2calc.cpp | xargs -P16 -I{} sh -c 'o='$OBJ'/$(echo {} | tr / _).o; g++ -std=c++14 '"$*"' -I${SRCROOT:-/repo}/include -I${SRCROOT:-/repo}/src -I/usr/include/eigen3 -c {} -o $o'
ar rcs $OBJ/libgm2calc.a $OBJ/*.o
