run(){ # name file fmt
  for force in 0 1; do
    { cat $2; printf 'Block GM2CalcConfig\n 0 0\n 3 %d\n' $force; } | ./gm2calc.x --$3-input-file=- >out.txt 2>err.txt; rc=$?
    printf "%-28s fmt=%-7s force=%d exit=%d stdout=[%s] stderr=[%s]\n" "$1" $3 $force $rc "$(head -c 60 out.txt | tr '\n' '|')" "$(head -c 110 err.txt | tr '\n' '|')"
  done
}
G=/repo/input/example.gm2
sed 's/^\( *9 \+\)[0-9.eE+-]\+/\1 95.0/' $G > d.gm2;  run "MW>=MZ" d.gm2 gm2calc
sed 's/^\( *9 \+\)[0-9.eE+-]\+/\1 0/' $G > d.gm2;  run "MW=0" d.gm2 gm2calc
sed 's/^\( *4 \+\)9.11876000E+01/\1 0/' $G > d.gm2;  run "MZ=0" d.gm2 gm2calc
sed 's/^\( *13 \+\)0.1056583715/\1 0/' $G > d.gm2;  run "MM=0" d.gm2 gm2calc
sed 's/^\( *4 \+\)619.858/\1 0/' $G > d.gm2;  run "mu=0" d.gm2 gm2calc
sed 's/^\( *5 \+\)211.722/\1 0/' $G > d.gm2;  run "M1=0" d.gm2 gm2calc
sed 's/^\( *6 \+\)401.057/\1 0/' $G > d.gm2;  run "M2=0" d.gm2 gm2calc
sed 's/^\( *3 \+\)10 /\1 0 /' $G > d.gm2;  run "TB=0" d.gm2 gm2calc
sed 's/^\( *3 \+\)10 /\1 1e400 /' $G > d.gm2;  run "TB=1e400" d.gm2 gm2calc
sed 's/^\( *3 \+\)10 /\1 1e200 /' $G > d.gm2;  run "TB=1e200" d.gm2 gm2calc
sed 's/^\( *10 \+\)356.09/\1 -356.09/' $G > d.gm2;  run "msl22<0" d.gm2 gm2calc
sed 's/^\( *10 \+\)356.09/\1 30/' $G > d.gm2;  run "msl22 small (tachyon?)" d.gm2 gm2calc
sed 's/^\( *8 \+\)707.025/\1 0/' $G > d.gm2;  run "MA=0" d.gm2 gm2calc
