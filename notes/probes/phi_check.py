from mpmath import mp, mpf, mpc, log, sqrt, polylog, pi, quad, clsin, acos
mp.dps = 40
def lam2(x,y): return (1-x-y)**2 - 4*x*y
def phi_closed(x,y):
    l2 = lam2(x,y)
    lam = sqrt(mpc(l2))
    a = (1+x-y-lam)/2; b = (1-x+y-lam)/2
    r = (2*log(a)*log(b) - log(x)*log(y) - 2*polylog(2,a) - 2*polylog(2,b) + pi**2/3)/lam
    return r
def phi_int(x,y):
    f = lambda xi: -(2*log(xi) + log(y/x))/(y*xi**2 + (1-x-y)*xi + x)
    return quad(f,[0,1])
def phi_clausen(x,y):  # lambda^2<0
    l = sqrt(-lam2(x,y))
    return 2/l*(clsin(2,2*acos((-1+x+y)/(2*sqrt(x*y)))) + clsin(2,2*acos((1+x-y)/(2*sqrt(x)))) + clsin(2,2*acos((1-x+y)/(2*sqrt(y)))))
for (x,y) in [(0.1,0.2),(0.5,0.5),(0.01,0.3),(0.9,0.8),(0.3,0.05),(1,1),(0.25,0.25),(2.0,0.3),(3.0,5.0)]:
    x=mpf(x); y=mpf(y)
    c = phi_closed(x,y); i = phi_int(x,y)
    s = "lam2=%s closed=%s int=%s" % (mp.nstr(lam2(x,y),5), mp.nstr(c,20), mp.nstr(i,20))
    if lam2(x,y) < 0: s += " clausen=%s" % mp.nstr(phi_clausen(x,y),20)
    print(float(x),float(y),s)
