import subprocess, re, itertools, sys
BIN='/tmp/x/rf/build/bin/gm2calc.x' if len(sys.argv)>1 else '/tmp/x/gm2calc.x'
def strip_cfg(text):
    out=[];skip=False
    for l in text.split('\n'):
        t=l.split('#')[0].split()
        if t and t[0].lower()=='block': skip=(t[1].lower()=='gm2calcconfig')
        if not skip: out.append(l)
    return '\n'.join(out)
def run(text,fmt,cfg):
    t=text+"\nBlock GM2CalcConfig\n"+"".join(" %d %d\n"%(k,v) for k,v in enumerate(cfg))
    p=subprocess.run([BIN,'--%s-input-file=-'%fmt],input=t.encode(),capture_output=True,timeout=60)
    return p.returncode,p.stdout.decode(),p.stderr.decode()
def slha_get(out,block,key):
    inb=False
    for l in out.split('\n'):
        t=l.split('#')[0].split()
        if t and t[0].lower()=='block': inb=(t[1].lower()==block.lower()); continue
        if inb and t and t[0]==str(key): return t[1]
    return None
issues=[]
for fmt,f in (('gm2calc','/repo/input/example.gm2'),('slha','/repo/input/example.slha'),('thdm','/repo/input/example.thdm')):
    base=strip_cfg(open(f).read()); n=0
    for lo,res,force,verb,unc,runc in itertools.product((0,1,2),(0,1),(0,1),(0,1),(0,1),(0,1)):
        vals={}
        for of in range(5):
            rc,out,err=run(base,fmt,(of,lo,res,force,verb,unc,runc)); n+=1
            if rc!=0: issues.append((fmt,of,lo,res,force,verb,unc,runc,'exit',rc)); continue
            if of==0: vals['min']=out.strip()
            elif of==1: vals['det']=out
            else:
                blk={2:('LOWEN',6),3:('SPhenoLowEnergy',21),4:('GM2CalcOutput',0)}[of]
                vals[of]=slha_get(out,*blk); vals['u%d'%of]=slha_get(out,'GM2CalcOutput',1)
        # compare
        nums=[vals.get(2),vals.get(3),vals.get(4)]
        if len(set(nums))!=1: issues.append((fmt,lo,res,unc,'slha formats differ',nums))
        if unc==0:
            if vals.get('min') is None or float(vals['min'])!=float(nums[0]): issues.append((fmt,lo,res,unc,runc,'min vs slha',vals.get('min'),nums[0]))
            if any(vals.get('u%d'%k) is not None for k in (2,3,4)): issues.append((fmt,lo,res,'unc present with flag off'))
        else:
            us=[vals.get('u%d'%k) for k in (2,3,4)]
            if len(set(us))!=1 or us[0] is None: issues.append((fmt,lo,res,'unc entries differ/missing',us))
            elif float(vals['min'])!=float(us[0]): issues.append((fmt,lo,res,'min(unc) vs slha unc',vals['min'],us[0]))
    print(fmt,'runs',n)
print(len(issues),'issues'); 
for i in issues[:20]: print(i)
# detailed parse for default config
for fmt,f in (('gm2calc','/repo/input/example.gm2'),('thdm','/repo/input/example.thdm')):
    rc,out,err=run(strip_cfg(open(f).read()),fmt,(1,2,1,0,0,1,1)); print(out)
