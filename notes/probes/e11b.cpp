#include "gm2calc/THDM.hpp"
#include "gm2calc/gm2_1loop.hpp"
#include "gm2calc/gm2_2loop.hpp"
#include "gm2calc/gm2_uncertainty.hpp"
#include "gm2calc/gm2_error.hpp"
#include <cstdio>
#include <cmath>
#include <random>
#include <map>
#include <string>
#include <vector>
#include <iostream>
#include <sstream>
using namespace gm2calc;
std::mt19937_64 rng(21);
double U(double a,double b){ return std::uniform_real_distribution<double>(a,b)(rng);} 
double LU(double a,double b){ return std::exp(U(std::log(a),std::log(b))); }
struct Res { double v[4]; bool ok; };
Res eval(thdm::Mass_basis b, const thdm::Config& cfg){ Res r; r.ok=true; try{ if(b.mh>b.mH) std::swap(b.mh,b.mH); THDM m(b,SM(),cfg); r.v[0]=calculate_amu_1loop(m); r.v[1]=calculate_amu_2loop_fermionic(m); r.v[2]=calculate_amu_2loop_bosonic(m); r.v[3]=calculate_uncertainty_amu_2loop(m);}catch(const Error&){r.ok=false;} return r; }
int main(){
  std::stringstream err; std::cerr.rdbuf(err.rdbuf());
  SM sm; double MW=sm.get_mw(), MZ=sm.get_mz(), MHSM=sm.get_mh();
  std::map<std::string,int> fails, tries; std::map<std::string,std::string> ex;
  const char* comp[4]={"1L","2LF","2LB","unc"};
  const double ds[]={0,1e-13,-1e-13,1e-12,-1e-12,1e-11,-1e-11,1e-10,-1e-10,1e-9,-1e-9,1e-8,-1e-8,1e-7,-1e-7,1e-6,-1e-6,1e-5,-1e-5,1e-4,-1e-4};
  for(int it=0; it<600; ++it){
    thdm::Mass_basis b; b.yukawa_type=(thdm::Yukawa_type)(1+it%4); b.mh=(it%3==0)?LU(20,300):125.09; b.mH=LU(b.mh+10,1500); b.mA=LU(50,1500); b.mHp=LU(90,1500); b.sin_beta_minus_alpha=U(0.9,1)*((it%2)?1:-1); b.tan_beta=LU(0.5,40); b.lambda_6=U(-1,1); b.lambda_7=U(-1,1); b.m122=U(-1,1)*2e5;
    thdm::Config cfg; cfg.running_couplings = it%2;
    double* mass[4]={&b.mh,&b.mH,&b.mA,&b.mHp}; const char* mn[4]={"mh","mH","mA","mHp"};
    for(int i=0;i<4;i++){
      std::vector<std::pair<std::string,double>> targets;
      double others[4]={b.mh,b.mH,b.mA,b.mHp};
      for(int j=0;j<4;j++) if(j!=i){ targets.push_back({std::string(mn[i])+"="+mn[j], others[j]}); targets.push_back({std::string(mn[i])+"=2"+mn[j], 2*others[j]}); targets.push_back({std::string(mn[i])+"="+mn[j]+"/2", others[j]/2});
         targets.push_back({std::string(mn[i])+"="+mn[j]+"+MW", others[j]+MW}); targets.push_back({std::string(mn[i])+"="+mn[j]+"-MW", others[j]-MW}); targets.push_back({std::string(mn[i])+"="+mn[j]+"+MZ", others[j]+MZ}); targets.push_back({std::string(mn[i])+"="+mn[j]+"-MZ", others[j]-MZ});
         for(int k=0;k<4;k++) if(k!=i&&k>j){ targets.push_back({std::string(mn[i])+"="+mn[j]+"+"+mn[k], others[j]+others[k]}); targets.push_back({std::string(mn[i])+"=|"+mn[j]+"-"+mn[k]+"|", std::abs(others[j]-others[k])}); } }
      targets.push_back({std::string(mn[i])+"=MZ",MZ}); targets.push_back({std::string(mn[i])+"=MW",MW}); targets.push_back({std::string(mn[i])+"=2MW",2*MW}); targets.push_back({std::string(mn[i])+"=2MZ",2*MZ}); targets.push_back({std::string(mn[i])+"=mhSM",MHSM}); targets.push_back({std::string(mn[i])+"=MZ/2",MZ/2}); targets.push_back({std::string(mn[i])+"=MW/2",MW/2});  targets.push_back({std::string(mn[i])+"=MW+MZ",MW+MZ}); targets.push_back({std::string(mn[i])+"=2mt",2*173.34}); targets.push_back({std::string(mn[i])+"=2mb",2*4.18}); targets.push_back({std::string(mn[i])+"=2mtau",2*1.777}); targets.push_back({std::string(mn[i])+"=2mc",2*1.28}); targets.push_back({std::string(mn[i])+"=mt",173.34});
      { const double mu_[3]={0.0022,1.28,173.34}, md_[3]={0.0047,0.096,4.18}; const char* un[3]={"mu","mc","mt"}; const char* dn[3]={"md","ms","mb"}; for(int a=0;a<3;a++) for(int b2=0;b2<3;b2++){ targets.push_back({std::string(mn[i])+"="+un[a]+"+"+dn[b2], mu_[a]+md_[b2]}); targets.push_back({std::string(mn[i])+"="+un[a]+"-"+dn[b2], std::abs(mu_[a]-md_[b2])}); } }
      for(auto& t: targets){ double m0=t.second; if(!(m0>5 && m0<5000)) continue;
        thdm::Mass_basis c=b; double* cm[4]={&c.mh,&c.mH,&c.mA,&c.mHp};
        auto at=[&](double d){ *cm[i]=m0*(1+d); // keep ordering mh<=mH by swap in eval
           return eval(c,cfg); };
        // ordering: skip if changing mh/mH crosses
        if(i==0 && m0*(1.001)>b.mH) continue; if(i==1 && m0*(0.999)<b.mh) continue;
        Res lo=at(-1e-3), hi=at(1e-3); if(!lo.ok||!hi.ok) continue;
        for(int cidx=0;cidx<4;cidx++){ double A=lo.v[cidx], B=hi.v[cidx]; if(!std::isfinite(A)||!std::isfinite(B)) { fails[t.first+":"+comp[cidx]+":nonfinite@1e-3"]++; continue;} double mag=std::max(std::abs(A),std::abs(B)); if(std::abs(A-B)>0.2*mag) continue; std::string key=t.first+":"+comp[cidx]; tries[key]++; bool bad=false; std::string why;
          for(double d: ds){ Res r=at(d); if(!r.ok){continue;} double line=A+(B-A)*(d+1e-3)/2e-3; double dev=std::abs(r.v[cidx]-line); if(!(dev<=0.01*mag)) { bad=true; char buf[200]; snprintf(buf,200,"d=%.0e val=%.4e line=%.4e (tb=%.2f sba=%.3f run=%d it=%d)",d,r.v[cidx],line,b.tan_beta,b.sin_beta_minus_alpha,(int)cfg.running_couplings,it); why=buf; break; } }
          if(bad){ fails[key]++; if(!ex.count(key)) ex[key]=why; } }
      }
    }
  }
  for(auto& f: fails){ printf("%-28s fails %4d / %4d   %s\n", f.first.c_str(), f.second, tries[f.first], ex[f.first].c_str()); }
  printf("distinct classes tried: %zu, failing: %zu\n", tries.size(), fails.size());
}
