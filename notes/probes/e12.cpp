#include "gm2_ffunctions.hpp"
#include <boost/multiprecision/cpp_bin_float.hpp>
#include <cstdio>
#include <cmath>
#include <random>
namespace mp = boost::multiprecision;
using R = mp::number<mp::cpp_bin_float<200>>;
R G3(R x){ if (x==1) return R(1)/3; R d=x-1; return ((x-1)*(x-3)+2*log(x))/(2*d*d*d); }
R G4(R x){ if (x==1) return R(1)/6; R d=x-1; return ((x-1)*(x+1)-2*x*log(x))/(2*d*d*d); }
// derivative forms for x==y
R dG(R(*G)(R), R x){ R h = R("1e-60"); return (G(x*(1+h))-G(x*(1-h)))/(2*x*h); }
R Fa(R x,R y){ if(x==y) return -dG(G3,x); return -(G3(x)-G3(y))/(x-y); }
R Fb(R x,R y){ if(x==y) return -dG(G4,x); return -(G4(x)-G4(y))/(x-y); }
R Iabc(R a,R b,R c){ R x=a*a,y=b*b,z=c*c; // perturb exact equalities
  R h=R("1e-60"); if(x==y) y*= (1+h); if(y==z) z*=(1+2*h); if(x==z) z*=(1+3*h);
  if (x==0&&y==0) return 0; 
  auto t=[&](R p,R q){ if(p==0||q==0) return R(0); return p*q*log(p/q); };
  return (t(x,y)+t(y,z)+t(z,x))/((x-y)*(y-z)*(x-z)); }
std::mt19937_64 rng(9); double U(double a,double b){ return std::uniform_real_distribution<double>(a,b)(rng);} double LU(double a,double b){ return std::exp(U(std::log(a),std::log(b))); }
double pert(double x){ int m=(int)U(0,4); if(m==0) return x; double e=std::pow(10.0,U(-12,-1)); return x*(1+(U(0,1)<0.5?-1:1)*e); }
int main(){
  double wFa=0,wFb=0,wI=0;
  for(int i=0;i<200000;i++){
    double x=LU(1e-3,1e3), y; int m=i%4; if(m==0) y=LU(1e-3,1e3); else if(m==1) y=pert(x); else if(m==2){ x=pert(1.0); y=pert(1.0);} else { y=pert(x); }
    double va=gm2calc::Fa(x,y), vb=gm2calc::Fb(x,y); double ra=(double)Fa(R(x),R(y)), rb=(double)Fb(R(x),R(y));
    double ea=std::abs(va-ra)/std::abs(ra), eb=std::abs(vb-rb)/std::abs(rb);
    if(!(ea<=wFa)){wFa=ea; printf("Fa err %.3e at %.17g %.17g (%.6e vs %.6e)\n",ea,x,y,va,ra);} if(!(eb<=wFb)){wFb=eb; printf("Fb err %.3e at %.17g %.17g\n",eb,x,y);}
    double a=LU(1,1e3), b,c; int k=i%6; if(k==0){b=LU(1,1e3);c=LU(1,1e3);} else if(k==1){b=pert(a);c=LU(1,1e3);} else if(k==2){b=pert(a);c=pert(a);} else if(k==3){ b=pert(a); c=pert(b);} else if(k==4){ a=LU(1e-3,1e3); b=a*LU(1e-3,1e3); c=a*LU(1e-3,1e3);} else { b=a; c=pert(a);} 
    double vi=gm2calc::Iabc(a,b,c); double ri=(double)Iabc(R(a),R(b),R(c)); double ei=std::abs(vi-ri)/std::abs(ri);
    if(!(ei<=wI)){wI=ei; printf("Iabc err %.3e at %.17g %.17g %.17g (%.8e vs %.8e)\n",ei,a,b,c,vi,ri);}    
  }
  printf("worst Fa %.3e Fb %.3e Iabc %.3e\n", wFa,wFb,wI);
}
