#include "gm2calc/THDM.hpp"
#include "gm2calc/gm2_1loop.hpp"
#include "gm2calc/gm2_2loop.hpp"
#include "gm2calc/gm2_error.hpp"
#include <cstdio>
#include <cmath>
#include <random>
#include <iostream>
#include <sstream>
using namespace gm2calc;
std::mt19937_64 rng(11);
double U(double a,double b){ return std::uniform_real_distribution<double>(a,b)(rng);} 
double LU(double a,double b){ return std::exp(U(std::log(a),std::log(b))); }
int main(){
  std::stringstream err; std::cerr.rdbuf(err.rdbuf());
  for (int run=0; run<2; ++run) {
  thdm::Config cfg; cfg.running_couplings = run;
  int nd=0, nviol_lit=0, nviol_env=0, nsteps=0; double worst_env[3]={0,0,0};
  for(int it=0; it<3000; ++it){
    thdm::Gauge_basis g; g.yukawa_type=(thdm::Yukawa_type)(1+it%4); g.tan_beta=LU(0.3,50); for(int i=0;i<7;i++) g.lambda(i)=U(-2,2); g.lambda(0)=U(0,2); g.lambda(1)=U(0,2);
    double tb=g.tan_beta, sbcb=tb/(1+tb*tb); double prev[3], smax[3]={0,0,0}; bool have=false; bool ok=true;
    for(double M=1000; M<=31623*1.01; M*=std::sqrt(10.0)){ g.m122=M*M*sbcb; try{ THDM m0(g,SM(),cfg); SM sm; sm.set_mh(m0.get_Mhh(0)); THDM m(g,sm,cfg); double a[3]={calculate_amu_1loop(m),calculate_amu_2loop_fermionic(m),calculate_amu_2loop_bosonic(m)};
        if(have){ for(int c=0;c<3;c++){ nsteps++; double r=std::abs(a[c])/std::abs(prev[c]); if(r>0.45) { nviol_lit++; }
             double e = std::abs(a[c])*M*M/smax[c]; if(e>worst_env[c]) {worst_env[c]=e; printf("run%d comp %d env %.3f lit %.3f at M=%.0f (%.3e -> %.3e) tb=%.2f type=%d cba=%.2e mh=%.1f\n",run,c,e,r,M,prev[c],a[c],tb,(int)g.yukawa_type,m.get_cos_beta_minus_alpha(), m.get_Mhh(0));} if(e>4.5) nviol_env++; } }
        for(int c=0;c<3;c++){ prev[c]=a[c]; smax[c]=std::max(smax[c], std::abs(a[c])*M*M);} have=true; } catch(const Error&e){ ok=false; break; } }
    if(ok) nd++;
  }
  printf("run%d decoupling n=%d steps=%d viol_lit=%d viol_env=%d worst env %.3f %.3f %.3f\n", run, nd, nsteps, nviol_lit, nviol_env, worst_env[0],worst_env[1],worst_env[2]);
  }
}
