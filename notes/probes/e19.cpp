#include "gm2calc/THDM.hpp"
#include "gm2calc/MSSMNoFV_onshell.hpp"
#include "gm2calc/gm2_1loop.hpp"
#include "gm2calc/gm2_2loop.hpp"
#include "gm2calc/gm2_uncertainty.hpp"
#include "gm2calc/gm2_error.hpp"
#include "gm2_uncertainty_helpers.hpp"
#include <cstdio>
#include <cmath>
#include <random>
#include <iostream>
#include <sstream>
using namespace gm2calc;
std::mt19937_64 rng(41);
double U(double a,double b){ return std::uniform_real_distribution<double>(a,b)(rng);} 
double LU(double a,double b){ return std::exp(U(std::log(a),std::log(b))); }
int main(){
  std::stringstream err; std::cerr.rdbuf(err.rdbuf());
  int n=0,bad=0,nonfin=0;
  for(int it=0; it<50000; ++it){
    thdm::Mass_basis b; b.yukawa_type=(thdm::Yukawa_type)(1+it%4); bool light = it%5==0; b.mh=light?LU(0.01,5):LU(10,300); b.mH=LU(b.mh, light?10:1e4); b.mA=light?LU(0.05,10):LU(10,1e4); b.mHp=light?LU(0.05,10):LU(10,1e4); b.sin_beta_minus_alpha=U(-1,1); b.tan_beta=LU(0.05,200); b.lambda_6=U(-3,3); b.lambda_7=U(-3,3); b.m122=U(-1,1)*(light?10:1e6);
    thdm::Config cfg; cfg.running_couplings=it%2; cfg.force_output = light;
    try { THDM m(b,SM(),cfg); double a1=calculate_amu_1loop(m), a2=calculate_amu_2loop(m); if(!std::isfinite(a1)||!std::isfinite(a2)) { nonfin++; continue;} ++n;
      double u0=calculate_uncertainty_amu_0loop(m), u1=calculate_uncertainty_amu_1loop(m), u2=calculate_uncertainty_amu_2loop(m);
      bool ok = std::isfinite(u0)&&std::isfinite(u1)&&std::isfinite(u2)&&u0>=0&&u1>=0&&u2>=2e-12 && u1==std::abs(a2)+u2 && u0==std::abs(a1)+std::abs(a2) && u2==calculate_uncertainty_amu_2loop(m,a1,a2) && u1==calculate_uncertainty_amu_1loop(m,a1,a2) && u0==calculate_uncertainty_amu_0loop(m,a1,a2);
      if(!ok){ bad++; if(bad<10) printf("THDM bad: a1=%.3e a2=%.3e u0=%.3e u1=%.3e u2=%.3e light=%d mA=%.3g mHp=%.3g mH=%.3g\n",a1,a2,u0,u1,u2,light,b.mA,b.mHp,b.mH); }
    } catch(const Error&){}
  }
  printf("THDM n=%d bad=%d nonfinite-amu=%d\n",n,bad,nonfin);
}
