#include "gm2calc/THDM.hpp"
#include "gm2calc/gm2_2loop.hpp"
#include <iostream>
using namespace gm2calc;
int main(){ for (double tb : {3.0, 188.496}) { thdm::Mass_basis b; b.yukawa_type=thdm::Yukawa_type::aligned; b.mh=125; b.mH=400; b.mA=420; b.mHp=440; b.sin_beta_minus_alpha=0.995; b.tan_beta=tb; b.m122=40000; b.zeta_u=1/tb; b.zeta_d=-tb; b.zeta_l=-tb; THDM m(b); std::cout << "tb=" << tb << " 1-tb*zu=" << 1-tb*b.zeta_u << "\nPi_u=\n" << m.get_Pi_u() << "\nGamma_u=\n" << m.get_Gamma_u() << "\nMFu=" << m.get_MFu().transpose() << "\n a2LF=" << calculate_amu_2loop_fermionic(m) << "\n"; } }
