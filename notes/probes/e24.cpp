#include "gm2_dilog.hpp"
#include <cstdio>
#include <cmath>
#include <random>
#include <complex>
std::mt19937_64 rng(81); double U(double a,double b){ return std::uniform_real_distribution<double>(a,b)(rng);} double LU(double a,double b){ return std::exp(U(std::log(a),std::log(b))); }
int main(){ for(int i=0;i<3000;i++){ double x=LU(1e-3,1e15)*(i%2?1:-1); printf("C %a %a\n", x, gm2calc::clausen_2(x)); }
  for(int i=0;i<3000;i++){ double x=LU(1e-10,1e300)*(i%2?1:-1); printf("D %a %a\n", x, gm2calc::dilog(x)); }
  for(int i=0;i<3000;i++){ double r=LU(1e-10,1e8), t=U(-M_PI,M_PI); if(i%5==0) r=1+U(-1e-6,1e-6); if(i%7==0) t=U(-1e-8,1e-8); std::complex<double> z=std::polar(r,t), v=gm2calc::dilog(z); printf("Z %a %a %a %a\n", z.real(), z.imag(), v.real(), v.imag()); } }
