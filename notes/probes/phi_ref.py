from mpmath import mp, mpf, mpc, log, sqrt, polylog, pi
import sys
mp.dps = 60
def phiDT(x,y):
    l2=(1-x-y)**2-4*x*y
    if l2==0: return None
    lam=sqrt(mpc(l2)); a=(1+x-y-lam)/2; b=(1-x+y-lam)/2
    return ((2*log(a)*log(b)-log(x)*log(y)-2*polylog(2,a)-2*polylog(2,b)+pi**2/3)/lam).real
worst=0; worstl=0; n=0; bad=[]
for line in open('/tmp/x/phi_samples.txt'):
    a=[float.fromhex(t) for t in line.split()]
    x,y,z=sorted(a[:3]); v=a[3]; l2v=a[4]
    X,Y,Z=mpf(x),mpf(y),mpf(z); u=X/Z; w=Y/Z
    l2=(Z*Z)*((1-u-w)**2-4*u*w)
    p=phiDT(u,w)
    if p is None: continue
    ref=p*Z*((1-u-w)**2-4*u*w)/2
    floor=mpf(1e-6)*Z*mpf('1e-3')  # absolute floor scaled to largest arg
    err=abs(v-ref)/max(abs(ref),mpf(10)**-300)
    errf=abs(v-ref)/max(abs(ref),floor)
    el=abs(l2v-l2)/max(abs(l2),mpf(1e-12)*Z*Z)
    n+=1
    if errf>worst: worst=errf; print("Phi err %.3e (bare %.3e) at %r %r %r val %.6e ref %s lam2/z2=%.3e"%(float(errf),float(err),x,y,z,v,mp.nstr(ref,10),float(l2/(Z*Z))))
    if el>worstl: worstl=el; print("lambda_2 err %.3e at %r %r %r"%(float(el),x,y,z))
print("n",n,"worst",float(worst),"worst lambda",float(worstl))
