#include <cstdint>
#include <cstdio>
#include <cstdlib>
#include <string>
#include <iostream>
#include <sstream>
#include <unistd.h>
#include <sys/mman.h>
#include <fcntl.h>
int gm2calc_main(int argc, const char* argv[]);
extern "C" int LLVMFuzzerTestOneInput(const uint8_t* data, size_t size) {
  if (size < 1) return 0;
  static int fd = -1; static std::string path;
  if (fd < 0) { fd = memfd_create("in", 0); path = "/proc/self/fd/" + std::to_string(fd); }
  int kind = data[0] % 3; data++; size--;
  ftruncate(fd, 0); lseek(fd, 0, SEEK_SET); if (write(fd, data, size) != (ssize_t)size) return 0; lseek(fd,0,SEEK_SET);
  std::string opt = std::string(kind==0?"--slha-input-file=":kind==1?"--gm2calc-input-file=":"--thdm-input-file=") + path;
  const char* argv[] = {"gm2calc.x", opt.c_str()};
  std::ostringstream out, err; auto o = std::cout.rdbuf(out.rdbuf()); auto e = std::cerr.rdbuf(err.rdbuf());
  int rc = gm2calc_main(2, argv);
  std::cout.rdbuf(o); std::cerr.rdbuf(e);
  if (rc != 0 && rc != 1) abort();
  return 0;
}
