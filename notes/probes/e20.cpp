#include "gm2_ffunctions.hpp"
#include <cstdio>
#include <cmath>
#include <random>
#include <algorithm>
std::mt19937_64 rng(77); double U(double a,double b){ return std::uniform_real_distribution<double>(a,b)(rng);} double LU(double a,double b){ return std::exp(U(std::log(a),std::log(b))); }
double pert(double x){ double e=std::pow(10.0,U(-12,-1)); return x*(1+(U(0,1)<0.5?-1:1)*e); }
int main(){ for(int i=0;i<6000;i++){ double x,y,z; int m=i%8; z=LU(1e-3,1e3);
  if(m==0){ x=z*LU(1e-6,1); y=z*LU(1e-6,1);} else if(m==1){ x=pert(z); y=z*LU(1e-6,1);} else if(m==2){ x=pert(z); y=pert(z);} else if(m==3){ x=z*LU(1e-6,1); y=pert(x);} 
  else if(m==4){ // near threshold sqrt(x)+sqrt(y)=sqrt(z)
     double sx=std::sqrt(z)*U(0.05,0.95); double sy=std::sqrt(z)-sx; x=sx*sx; y=pert(sy*sy); }
  else if(m==5){ x=z; y=z*LU(1e-6,1);} else if(m==6){ x=z*LU(1e-4,1e-1); y=z*LU(1e-4,1e-1);} else { x=z*LU(1e-6,1e-3); y=z*LU(0.5,1);} 
  // random permutation
  double a[3]={x,y,z}; std::shuffle(a,a+3,rng);
  printf("%a %a %a %a %a\n", a[0],a[1],a[2], gm2calc::Phi(a[0],a[1],a[2]), gm2calc::lambda_2(a[0],a[1],a[2])); } }
