#include "gm2calc/THDM.hpp"
#include "gm2calc/gm2_1loop.hpp"
#include "gm2calc/gm2_2loop.hpp"
#include "gm2calc/gm2_error.hpp"
#include <cstdio>
#include <cmath>
#include <random>
#include <iostream>
#include <sstream>
using namespace gm2calc;
std::mt19937_64 rng(12);
double U(double a,double b){ return std::uniform_real_distribution<double>(a,b)(rng);} 
double LU(double a,double b){ return std::exp(U(std::log(a),std::log(b))); }
int main(){
  std::stringstream err; std::cerr.rdbuf(err.rdbuf());
  double worstK[3]={0,0,0}; int n=0; int det[3]={0,0,0};
  std::vector<std::array<double,5>> rec;
  for(int it=0; it<6000; ++it){
    thdm::Gauge_basis g; g.yukawa_type=(thdm::Yukawa_type)(1+it%4); g.tan_beta=LU(0.3,50); for(int i=0;i<7;i++) g.lambda(i)=U(-2,2); g.lambda(0)=U(0,2); g.lambda(1)=U(0,2);
    thdm::Config cfg; cfg.running_couplings=false; double tb=g.tan_beta, sbcb=tb/(1+tb*tb); double zmax=std::max(tb,1/tb);
    for(double M : {10000.0, 17782.8, 31622.8}){ g.m122=M*M*sbcb; try{ THDM m0(g,SM(),cfg); SM sm; sm.set_mh(m0.get_Mhh(0)); THDM m(g,sm,cfg); SM sm3; sm3.set_mh(3*m0.get_Mhh(0)); THDM m3(g,sm3,cfg);
        double a[3]={calculate_amu_1loop(m),calculate_amu_2loop_fermionic(m),calculate_amu_2loop_bosonic(m)}; double T[3]={std::abs(calculate_amu_1loop(m3)-a[0]),std::abs(calculate_amu_2loop_fermionic(m3)-a[1]),std::abs(calculate_amu_2loop_bosonic(m3)-a[2])};
        double L=std::log(M/246.0), env=zmax*zmax*std::pow(246.0/M,2)*(1+L*L); ++n;
        for(int c=0;c<3;c++){ if(T[c]==0) continue; double K=std::abs(a[c])/(T[c]*env); if(K>worstK[c]){worstK[c]=K; printf("comp %d K=%.3f a=%.3e T=%.3e zmax=%.1f M=%.0f type=%d\n",c,K,a[c],T[c],zmax,M,(int)g.yukawa_type);} }
        if(M>30000) rec.push_back({zmax, std::abs(a[0])/T[0], std::abs(a[1])/T[1], T[2]>0?std::abs(a[2])/T[2]:0, env});
      } catch(const Error&){} }
  }
  printf("n=%d worst K %.3f %.3f %.3f\n",n,worstK[0],worstK[1],worstK[2]);
  // detectability: mutant a' = a +- T => ratio |a'|/T >= 1-|a|/T ; detected if (1 - r) > 10*worstK*env
  for(int c=0;c<3;c++){ int d=0; for(auto& r: rec){ double bound=10*worstK[c]*r[4]; if(1-r[1+c] > bound) d++; } printf("comp %d: mutant detectable at M=31.6TeV for %d of %zu points\n",c,d,rec.size()); }
}
