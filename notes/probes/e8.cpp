#include "gm2calc/THDM.hpp"
#include "gm2calc/gm2_1loop.hpp"
#include "gm2calc/gm2_2loop.hpp"
#include "gm2calc/gm2_uncertainty.hpp"
#include "gm2calc/gm2_error.hpp"
#include <cstdio>
#include <cmath>
#include <random>
#include <iostream>
#include <sstream>
using namespace gm2calc;
std::mt19937_64 rng(11);
double U(double a,double b){ return std::uniform_real_distribution<double>(a,b)(rng);} 
double LU(double a,double b){ return std::exp(U(std::log(a),std::log(b))); }
int main(){
  std::stringstream err; std::cerr.rdbuf(err.rdbuf());
  // C10 SM limit: cba=0, mh=mhSM, running off; vary common mh
  thdm::Config cfg; cfg.running_couplings=false;
  int n=0; double worst1=0, worstF=0;
  for(int it=0;it<2000;++it){
    thdm::Mass_basis b; b.yukawa_type = (thdm::Yukawa_type)(1+it%4); b.mH=LU(200,2000); b.mA=LU(100,2000); b.mHp=LU(100,2000); b.sin_beta_minus_alpha = (it%2)?1:-1; b.tan_beta=LU(0.3,50); b.lambda_6=0; b.lambda_7=0; b.m122=U(-1,1)*1e5;
    double v1[2], vF[2]; bool ok=true;
    for(int j=0;j<2;j++){ double mh = j?LU(10,190):125.09; SM sm; sm.set_mh(mh); b.mh=mh; try{ THDM m(b,sm,cfg); v1[j]=calculate_amu_1loop(m); vF[j]=calculate_amu_2loop_fermionic(m);}catch(const Error&e){ok=false;} }
    if(!ok) continue; ++n;
    double d1=std::abs(v1[0]-v1[1])/std::abs(v1[0]), dF=std::abs(vF[0]-vF[1])/std::abs(vF[0]);
    if(d1>worst1){worst1=d1; printf("1L dep on mh: %.3e (%.4e vs %.4e) tb=%.2f type=%d\n", d1,v1[0],v1[1],b.tan_beta,(int)b.yukawa_type);} if(dF>worstF){worstF=dF; printf("F dep on mh: %.3e (%.4e vs %.4e) tb=%.2f\n", dF,vF[0],vF[1],b.tan_beta);} 
  }
  printf("SM-limit n=%d worst1=%.3e worstF=%.3e\n", n, worst1, worstF);
  // decoupling: gauge basis fixed lambdas; m122 such that M^2 = m122/(sb cb)
  int nd=0, nviol=0; double worstr[3]={0,0,0};
  for(int it=0; it<3000; ++it){
    thdm::Gauge_basis g; g.yukawa_type=(thdm::Yukawa_type)(1+it%4); g.tan_beta=LU(0.3,50); for(int i=0;i<7;i++) g.lambda(i)=U(-2,2); g.lambda(0)=U(0,2); g.lambda(1)=U(0,2);
    double tb=g.tan_beta, sbcb=tb/(1+tb*tb); double prev[3]; bool have=false; bool ok=true;
    for(double M=1000; M<=31623*1.01; M*=std::sqrt(10.0)){ g.m122=M*M*sbcb; try{ THDM m(g); double a[3]={calculate_amu_1loop(m),calculate_amu_2loop_fermionic(m),calculate_amu_2loop_bosonic(m)};
        if(have){ for(int c=0;c<3;c++){ double r=std::abs(a[c])/std::abs(prev[c]); if(r>worstr[c]) {worstr[c]=r; printf("comp %d ratio %.4f at M=%.0f (%.3e -> %.3e) tb=%.2f type=%d cba=%.3e\n",c,r,M,prev[c],a[c],tb,(int)g.yukawa_type,m.get_cos_beta_minus_alpha());} if(r>0.45) nviol++; } }
        for(int c=0;c<3;c++) prev[c]=a[c]; have=true; } catch(const Error&e){ ok=false; break; } }
    if(ok) nd++;
  }
  printf("decoupling n=%d viol=%d worst ratios %.4f %.4f %.4f\n", nd, nviol, worstr[0],worstr[1],worstr[2]);
}
