#include "gm2calc/THDM.hpp"
#include "gm2calc/gm2_error.hpp"
#include <cstdio>
#include <cmath>
#include <random>
#include <iostream>
#include <sstream>
using namespace gm2calc;
std::mt19937_64 rng(61);
double U(double a,double b){ return std::uniform_real_distribution<double>(a,b)(rng);} 
double LU(double a,double b){ return std::exp(U(std::log(a),std::log(b))); }
int main(){
  std::stringstream err; std::cerr.rdbuf(err.rdbuf());
  int n=0,nthrow=0; double wm=0, ws=0, wl=0, wg=0, wf=0, wck=0, wvb=0;
  for(int it=0; it<100000; ++it){
    thdm::Mass_basis b; b.yukawa_type=(thdm::Yukawa_type)(1+it%6); b.mh=LU(10,1e4); b.mH=LU(b.mh,1e4); if(it%50==0) b.mh=0; if(it%37==0) b.mH=b.mh; b.mA=LU(10,1e4); b.mHp=LU(10,1e4); b.sin_beta_minus_alpha=U(-1,1); if(it%11==0) b.sin_beta_minus_alpha=(it%22==0)?1:-1; if(it%13==0) b.sin_beta_minus_alpha=0; b.tan_beta=LU(0.05,200); b.lambda_6=U(-3,3); b.lambda_7=U(-3,3); b.m122=U(-1,1)*LU(1,1e7);
    b.zeta_u=U(-5,5); b.zeta_d=U(-5,5); b.zeta_l=U(-5,5); for(int i=0;i<9;i++){ b.Delta_u(i/3,i%3)=U(-1,1)*1e-2; b.Delta_l(i/3,i%3)=U(-1,1)*1e-2; b.Pi_d(i/3,i%3)=U(-1,1)*1e-2; b.Pi_l(i/3,i%3)=U(-1,1)*1e-2; b.Pi_u(i/3,i%3)=U(-1,1)*1e-2;}
    SM sm; if(it%2) sm.set_ckm_from_wolfenstein(0.2257,0.814,0.135,0.349);
    try { THDM m(b,sm); ++n;
      double mmax2=std::pow(std::max({b.mH,b.mA,b.mHp}),2); 
      auto relm=[&](double got,double in){ return std::abs(got*got-in*in)/mmax2; };
      double em=std::max({relm(m.get_Mhh(0),b.mh),relm(m.get_Mhh(1),b.mH),relm(m.get_MAh(1),b.mA),relm(m.get_MHm(1),b.mHp)}); if(em>wm){wm=em; printf("mass err (on max m^2) %.3e: mh %.6g/%.6g mH %.6g/%.6g mA %.6g/%.6g mHp %.6g/%.6g\n",em,m.get_Mhh(0),b.mh,m.get_Mhh(1),b.mH,m.get_MAh(1),b.mA,m.get_MHm(1),b.mHp);} 
      double sba=m.get_sin_beta_minus_alpha(), cba=m.get_cos_beta_minus_alpha(); double es=std::abs(sba-b.sin_beta_minus_alpha); if(std::abs(std::abs(b.sin_beta_minus_alpha)-1)<1e-9) es=std::abs(std::abs(sba)-1); 
      // degenerate mh==mH: angle undefined
      if(b.mh==b.mH) es=0;
      if(es>ws){ws=es; printf("sba err %.3e in %.6f out %.6f cba %.3e mh=%.4g mH=%.4g tb=%.3g\n",es,b.sin_beta_minus_alpha,sba,cba,b.mh,b.mH,b.tan_beta);} if(cba<-1e-12) printf("cba negative %.3e\n",cba);
      double el=std::max({std::abs(m.get_tan_beta()/b.tan_beta-1),std::abs(m.get_lambda6()-b.lambda_6),std::abs(m.get_lambda7()-b.lambda_7),std::abs(m.get_m122()-b.m122)}); if(el>wl){wl=el; printf("tb/l6/l7/m122 err %.3e\n",el);} 
      double evb=std::max(std::abs(m.get_MVWm()/sm.get_mw()-1),std::abs(m.get_MVZ()/sm.get_mz()-1)); if(evb>wvb){wvb=evb; printf("MW/MZ err %.3e\n",evb);} if(std::abs(m.get_MAh(0)/sm.get_mz()-1)>1e-9||std::abs(m.get_MHm(0)/sm.get_mw()-1)>1e-9) printf("goldstone pos\n");
      double ef=0; for(int i=0;i<3;i++){ ef=std::max({ef,std::abs(m.get_MFu(i)/sm.get_mu(i)-1),std::abs(m.get_MFd(i)/sm.get_md(i)-1),std::abs(m.get_MFe(i)/sm.get_ml(i)-1)}); } if(ef>wf){wf=ef; printf("fermion mass err %.3e type=%d tb=%.3g\n",ef,(int)b.yukawa_type,b.tan_beta);} 
      auto ck=(m.get_Vu()*m.get_Vd().adjoint()).eval(); double eck=(ck.cwiseAbs()-sm.get_ckm().cwiseAbs()).cwiseAbs().maxCoeff(); if(eck>wck){wck=eck; printf("ckm(|Vu Vd^+|) err %.3e type=%d\n",eck,(int)b.yukawa_type);} 
      // gauge round trip
      thdm::Gauge_basis g; g.yukawa_type=b.yukawa_type; g.lambda<<m.get_lambda1(),m.get_lambda2(),m.get_lambda3(),m.get_lambda4(),m.get_lambda5(),m.get_lambda6(),m.get_lambda7(); g.tan_beta=m.get_tan_beta(); g.m122=m.get_m122(); g.zeta_u=b.zeta_u; g.zeta_d=b.zeta_d; g.zeta_l=b.zeta_l; g.Delta_u=b.Delta_u; g.Delta_l=b.Delta_l; g.Pi_u=b.Pi_u; g.Pi_d=b.Pi_d; g.Pi_l=b.Pi_l;
      try{ THDM m2(g,sm); double eg=std::max({relm(m2.get_Mhh(0),m.get_Mhh(0)),relm(m2.get_Mhh(1),m.get_Mhh(1)),relm(m2.get_MAh(1),m.get_MAh(1)),relm(m2.get_MHm(1),m.get_MHm(1))}); if(eg>wg){wg=eg; printf("gauge roundtrip err %.3e\n",eg);} } catch(const Error& e){ printf("gauge rebuild threw: %s\n", e.what()); }
    } catch(const Error& e){ nthrow++; if(nthrow<5) printf("throw: %s (mh=%.3g mH=%.3g)\n",e.what(),b.mh,b.mH); }
  }
  printf("n=%d throw=%d worst: mass %.2e sba %.2e params %.2e gauge %.2e ferm %.2e ckm %.2e vb %.2e\n",n,nthrow,wm,ws,wl,wg,wf,wck,wvb);
}
