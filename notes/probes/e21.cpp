#include "gm2_ffunctions.hpp"
#include <cstdio>
#include <cmath>
#include <random>
std::mt19937_64 rng(78); double U(double a,double b){ return std::uniform_real_distribution<double>(a,b)(rng);} double LU(double a,double b){ return std::exp(U(std::log(a),std::log(b))); }
int main(){ for(int i=0;i<3000;i++){ double z=1.0; double u=LU(1e-6,1e-3); double k=LU(0.01,1e4); // lambda^2 ~ k*u ; (1-v)^2 ~ (4+k) u
  double omv=std::sqrt((4+k)*u)*(U(0,1)<0.5?1:1); double v=1-omv; if(v<=0) continue; printf("%a %a %a %a %a\n", u,v,z, gm2calc::Phi(u,v,z), gm2calc::lambda_2(u,v,z)); } }
