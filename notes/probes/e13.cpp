#include "gm2calc/gm2_1loop.hpp"
#include "gm2calc/gm2_error.hpp"
#include "gm2calc/MSSMNoFV_onshell.hpp"
#include "gm2_ffunctions.hpp"
#include <Eigen/Eigenvalues>
#include <cstdio>
#include <cmath>
#include <random>
#include <iostream>
#include <sstream>
using namespace gm2calc;
std::mt19937_64 rng(17);
double U(double a,double b){ return std::uniform_real_distribution<double>(a,b)(rng);} 
double LU(double a,double b){ return std::exp(U(std::log(a),std::log(b))); }
int sg(){ return U(0,1)<0.5?-1:1; }
typedef long double LD;
int main(){
  std::stringstream err; std::cerr.rdbuf(err.rdbuf());
  double worst0=0, worstc=0; int n=0;
  for(int it=0; it<20000; ++it){
    MSSMNoFV_onshell m; m.set_TB(LU(1,100)); m.set_Mu(sg()*LU(50,1e4)); m.set_MassB(sg()*LU(50,1e4)); m.set_MassWB(sg()*LU(50,1e4)); m.set_MassG(2000); m.set_MA0(LU(200,3000)); m.set_scale(1000);
    for(int i=0;i<3;i++){ double l=LU(80,1e4), e=LU(80,1e4); m.set_ml2(i,i,l*l); m.set_me2(i,i,e*e); m.set_mq2(i,i,4e6); m.set_mu2(i,i,4e6); m.set_md2(i,i,4e6); m.set_Ae(i,i,U(-1e4,1e4)); }
    try { m.calculate_masses(); } catch(const Error&){ continue; }
    const double g1=m.get_g1(), g2=m.get_g2(), vd=m.get_vd(), vu=m.get_vu(), mu=m.get_Mu(), M1=m.get_MassB(), M2=m.get_MassWB(), y=m.get_Ye(1,1), T=m.get_TYe(1,1), mm=m.get_MM();
    const double gY=std::sqrt(0.6)*g1;
    // neutralino
    Eigen::Matrix<double,4,4> N; N<< M1,0,-0.5*gY*vd,0.5*gY*vu, 0,M2,0.5*g2*vd,-0.5*g2*vu, -0.5*gY*vd,0.5*g2*vd,0,-mu, 0.5*gY*vu,-0.5*g2*vu,-mu,0;
    Eigen::SelfAdjointEigenSolver<Eigen::Matrix<double,4,4>> es(N); auto ev=es.eigenvalues(); Eigen::Matrix<double,4,4> O=es.eigenvectors().transpose(); // rows eigenvectors
    // smuon
    Eigen::Matrix<double,2,2> S; double DL=0.125*(0.6*g1*g1-g2*g2)*(vd*vd-vu*vu), DR=-0.15*g1*g1*(vd*vd-vu*vu);
    S<< m.get_ml2(1,1)+0.5*y*y*vd*vd+DL, (vd*T-vu*y*mu)/std::sqrt(2.0), (vd*T-vu*y*mu)/std::sqrt(2.0), m.get_me2(1,1)+0.5*y*y*vd*vd+DR;
    Eigen::SelfAdjointEigenSolver<Eigen::Matrix<double,2,2>> ss(S); auto sm2=ss.eigenvalues(); Eigen::Matrix<double,2,2> Us=ss.eigenvectors().transpose();
    if(sm2(0)<=0) continue;
    double msv2=m.get_ml2(1,1)+0.125*(0.6*g1*g1+g2*g2)*(vd*vd-vu*vu); if(msv2<=0) continue;
    double a0=0, s0=0;
    for(int i=0;i<4;i++) for(int k=0;k<2;k++){ double nL=(gY*O(i,0)+g2*O(i,1))/std::sqrt(2.0)*Us(k,0)-y*O(i,2)*Us(k,1); double nR=std::sqrt(2.0)*gY*O(i,0)*Us(k,1)+y*O(i,2)*Us(k,0); double x=ev(i)*ev(i)/sm2(k);
       double t1=-mm/(12*sm2(k))*(nL*nL+nR*nR)*F1N(x), t2=ev(i)/(3*sm2(k))*nL*nR*F2N(x); a0+=t1+t2; s0+=std::abs(t1)+std::abs(t2);} 
    a0*=mm/(16*M_PI*M_PI); s0*=mm/(16*M_PI*M_PI);
    // chargino
    Eigen::Matrix<double,2,2> X; X<< M2, g2*vu/std::sqrt(2.0), g2*vd/std::sqrt(2.0), mu;
    Eigen::SelfAdjointEigenSolver<Eigen::Matrix<double,2,2>> cs(X.transpose()*X); Eigen::Matrix<double,2,2> V=cs.eigenvectors().transpose(); auto d2=cs.eigenvalues();
    double ac=0, sc=0;
    for(int k=0;k<2;k++){ double d=std::sqrt(d2(k)); Eigen::Matrix<double,2,1> u = X*V.row(k).transpose()/d; // U_k = (X V_k^T)/d  so X = sum u_k d v_k^T
       double cL=-g2*V(k,0), cR=y*u(1); double x=d2(k)/msv2; double t1=mm/(12*msv2)*(cL*cL+cR*cR)*F1C(x), t2=2*d/(3*msv2)*cL*cR*F2C(x); ac+=t1+t2; sc+=std::abs(t1)+std::abs(t2);} 
    ac*=mm/(16*M_PI*M_PI); sc*=mm/(16*M_PI*M_PI);
    double l0=amu1LChi0(m), lc=amu1LChipm(m);
    double e0=std::abs(l0-a0)/s0, ec=std::abs(lc-ac)/sc; ++n;
    if(e0>worst0){worst0=e0; printf("chi0 dev %.3e lib %.6e ref %.6e scale %.3e (mu=%.0f M1=%.0f M2=%.0f tb=%.1f)\n",e0,l0,a0,s0,mu,M1,M2,m.get_TB());}
    if(ec>worstc){worstc=ec; printf("cha dev %.3e lib %.6e ref %.6e scale %.3e\n",ec,lc,ac,sc);}
  }
  printf("n=%d worst chi0 %.3e cha %.3e\n",n,worst0,worstc);
}
