#include "gm2_mf.hpp"
#include "gm2calc/SM.hpp"
#include "gm2calc/gm2_error.hpp"
#include <cstdio>
#include <cmath>
#include <iostream>
#include <sstream>
using namespace gm2calc;
int main(){
  std::stringstream err; auto old = std::cerr.rdbuf(err.rdbuf());
  int nbad=0, n=0, nwarn=0;
  for (double as = 0.05; as <= 0.3001; as += 0.0125) {
    for (double mb : {2.0, 4.18, 6.0}) for (double mt : {100.0, 173.34, 300.0}) {
      err.str("");
      double prev=1e300; bool mono=true, fin=true;
      for (double Q=1; Q<=1e6; Q*=1.5) { double m = calculate_mb_SM6_MSbar(mb, mt, as, 91.1876, Q); if(!(std::isfinite(m)&&m>0)) fin=false; if(!(m<prev)) mono=false; prev=m; }
      double mt1 = calculate_mt_SM6_MSbar(mt, as, 91.1876, mt);
      bool warned = !err.str().empty();
      ++n; if(!fin||!mono){ ++nbad; printf("as=%.4f mb=%.2f mt=%.1f finite=%d mono=%d warned=%d mt(mt)=%.3f  mbDR=%.4f\n", as, mb, mt, fin, mono, warned, mt1, calculate_mb_SM5_DRbar(mb, as, 91.1876)); }
      if (warned) nwarn++;
    }
  }
  printf("n=%d bad=%d warned=%d\n", n, nbad, nwarn);
  std::cerr.rdbuf(old);
  // CKM
  SM sm; double worst=0;
  for (int i=0;i<100000;++i){ double l=-1+2*drand48(), A=-1+2*drand48(), r=-1+2*drand48(), e=-1+2*drand48();
    if (i%10==0) {l = (i%20)?1:-1;} if (i%7==0) A = 1; if(i%11==0) {r=1;e=0;}
    try { sm.set_ckm_from_wolfenstein(l,A,r,e); auto c=sm.get_ckm(); double u=(c*c.adjoint()-Eigen::Matrix<std::complex<double>,3,3>::Identity()).cwiseAbs().maxCoeff(); if(!(u<=worst)){worst=u; printf("ckm dev %.3e at %g %g %g %g\n",u,l,A,r,e);} } catch (const Error& er) { printf("throw %s\n", er.what()); }
  }
}
