#include "gm2calc/gm2_1loop.hpp"
#include "gm2calc/gm2_2loop.hpp"
#include "gm2calc/gm2_error.hpp"
#include "gm2calc/MSSMNoFV_onshell.hpp"
#include <cstdio>
#include <cmath>
#include <random>
#include <iostream>
#include <sstream>
using namespace gm2calc;
std::mt19937_64 rng(5);
double U(double a,double b){ return std::uniform_real_distribution<double>(a,b)(rng);} 
double LU(double a,double b){ return std::exp(U(std::log(a),std::log(b))); }
int sg(){ return U(0,1)<0.5?-1:1; }
int main(){
  std::stringstream err; std::cerr.rdbuf(err.rdbuf());
  int n=0, nwarn=0, nbad_pole=0, nbad_rec=0, nthrow=0, nwell=0, nbad_rec_well=0;
  for(int it=0; it<5000; ++it){
    MSSMNoFV_onshell a; double tb=LU(2,60); a.set_TB(tb); double mu=sg()*LU(100,3000), m1=sg()*LU(100,3000), m2=sg()*LU(100,3000);
    a.set_Mu(mu); a.set_MassB(m1); a.set_MassWB(m2); a.set_MassG(LU(500,5000)); a.set_MA0(LU(200,3000)); a.set_scale(LU(200,3000));
    double ml[3], me[3];
    for(int i=0;i<3;i++){ ml[i]=LU(100,3000); me[i]=LU(100,3000); a.set_ml2(i,i,ml[i]*ml[i]); a.set_me2(i,i,me[i]*me[i]); double q=LU(500,5000); a.set_mq2(i,i,q*q); a.set_mu2(i,i,q*q*1.1); a.set_md2(i,i,q*q*0.9); a.set_Ae(i,i,U(-1,1)*500); a.set_Au(i,i,U(-1,1)*1000); a.set_Ad(i,i,U(-1,1)*1000);}    
    try { a.calculate_masses(); } catch(const Error&e){ continue; }
    double amu_a = calculate_amu_1loop(a)+calculate_amu_2loop(a);
    // build SLHA-type model
    MSSMNoFV_onshell b(a); // copies everything incl. physical
    b.get_problems().clear();
    double pert = 0.05;
    b.set_Mu(mu*(1+U(-pert,pert))); b.set_MassB(m1*(1+U(-pert,pert))); b.set_MassWB(m2*(1+U(-pert,pert)));
    b.set_ml2(1,1,ml[1]*ml[1]*(1+U(-pert,pert))); b.set_me2(1,1,me[1]*me[1]*(1+U(-pert,pert)));
    double prec = std::pow(10.0, U(-10,-4));
    try { b.convert_to_onshell(prec, 1000); } catch(const Error& e){ ++nthrow; continue; }
    ++n;
    bool warn = b.get_problems().have_warning();
    if (warn) { ++nwarn; continue; }
    // pole reproduction
    auto& ph = b.get_physical();
    double dcha = (b.get_MCha()-ph.MCha).abs().maxCoeff();
    // bino-like neutralino
    int ib; b.get_ZN().col(0).cwiseAbs2().maxCoeff(&ib); int ibp; ph.ZN.col(0).cwiseAbs2().maxCoeff(&ibp);
    double dchi = std::abs(b.get_MChi(ib) - ph.MChi(ibp));
    double dsv = std::abs(b.get_MSvmL()-ph.MSvmL);
    int ir = (std::norm(b.get_ZM()(0,0)) > std::norm(b.get_ZM()(0,1))) ? 1 : 0;
    Eigen::Array<double,2,1> sp = ph.MSm; std::sort(sp.data(), sp.data()+2);
    double dsm = std::abs(b.get_MSm(ir)-sp(ir));
    double worst = std::max({dcha,dchi,dsv,dsm});
    if (worst > prec*1.0001) { 
      // re-convert and measure dsm again
      MSSMNoFV_onshell c(b); double d_prev=dsm; bool contracted=false; int passes=0; double dlast=dsm;
      for(int pass=0; pass<6; ++pass){ try{ c.convert_to_onshell(prec,1000);}catch(const Error&){break;} int ir2=(std::norm(c.get_ZM()(0,0))>std::norm(c.get_ZM()(0,1)))?1:0; Eigen::Array<double,2,1> sp2=c.get_physical().MSm; std::sort(sp2.data(),sp2.data()+2); double d2=std::abs(c.get_MSm(ir2)-sp2(ir2)); passes++; dlast=d2; if(d2<=prec){contracted=true;break;} if(!(d2<=d_prev/5)) break; d_prev=d2; }
      static int nc=0,nnc=0; if(contracted) nc++; else { nnc++; if(nnc<10) printf("NOT contracted: prec=%.1e dsm=%.2e -> %.2e after %d passes (dcha=%.1e)\n",prec,dsm,dlast,passes,dcha);} if((nc+nnc)%400==0) printf("contracted %d not %d\n",nc,nnc);
      ++nbad_pole; if(nbad_pole<10) printf("pole mismatch: prec=%.1e dcha=%.2e dchi=%.2e dsv=%.2e dsm=%.2e tb=%.1f mu=%.0f m1=%.0f m2=%.0f ml=%.0f me=%.0f\n", prec,dcha,dchi,dsv,dsm,tb,mu,m1,m2,ml[1],me[1]); }
    // recovery
    double r = std::max({std::abs(b.get_Mu()/mu-1), std::abs(b.get_MassB()/m1-1), std::abs(b.get_MassWB()/m2-1), std::abs(std::sqrt(b.get_ml2(1,1))/ml[1]-1), std::abs(std::sqrt(std::abs(b.get_me2(1,1)))/me[1]-1)});
    double amu_b = calculate_amu_1loop(b)+calculate_amu_2loop(b);
    bool well = std::abs(ml[1]/me[1]-1) > 0.1;
    if (well) nwell++;
    if (r > 1e-3*1 ) { ++nbad_rec; if(well) ++nbad_rec_well; if(nbad_rec<15) printf("recovery off: r=%.2e prec=%.1e amu %.4e vs %.4e  tb=%.1f mu=%.0f->%.1f m1=%.0f->%.1f m2=%.0f->%.1f ml=%.0f->%.1f me=%.0f->%.1f well=%d\n", r, prec, amu_a, amu_b, tb, mu,b.get_Mu(), m1,b.get_MassB(), m2,b.get_MassWB(), ml[1],std::sqrt(b.get_ml2(1,1)), me[1], std::sqrt(std::abs(b.get_me2(1,1))), well); }
  }
  printf("n=%d throw=%d warn=%d bad_pole=%d bad_rec=%d well=%d bad_rec_well=%d\n", n,nthrow,nwarn,nbad_pole,nbad_rec,nwell,nbad_rec_well);
}
