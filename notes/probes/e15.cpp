#include "gm2calc/THDM.hpp"
#include "gm2calc/gm2_1loop.hpp"
#include "gm2calc/gm2_2loop.hpp"
#include "gm2calc/gm2_uncertainty.hpp"
#include "gm2calc/gm2_error.hpp"
#include <cstdio>
#include <cmath>
#include <random>
#include <iostream>
#include <sstream>
using namespace gm2calc;
std::mt19937_64 rng(23);
double U(double a,double b){ return std::uniform_real_distribution<double>(a,b)(rng);} 
double LU(double a,double b){ return std::exp(U(std::log(a),std::log(b))); }
Eigen::Matrix<double,3,3> RM(){ Eigen::Matrix<double,3,3> m; for(int i=0;i<9;i++) m(i/3,i%3)=U(-1,1); return m; }
int main(){
  std::stringstream err; std::cerr.rdbuf(err.rdbuf());
  int n=0,nb=0; double worst[4]={0,0,0,0}; double wgen=0, wign=0;
  for(int it=0; it<20000; ++it){
    thdm::Mass_basis b; int ty=1+it%4; b.yukawa_type=(thdm::Yukawa_type)ty; b.mh=LU(10,300); b.mH=LU(b.mh,1e4); b.mA=LU(10,1e4); b.mHp=LU(10,1e4); b.sin_beta_minus_alpha=U(-1,1); b.tan_beta=LU(0.05,200); b.lambda_6=U(-3,3); b.lambda_7=U(-3,3); b.m122=U(-1,1)*1e6;
    thdm::Config cfg; cfg.running_couplings = it%2;
    SM sm; if(it%3==0) sm.set_ckm_from_wolfenstein(0.2257,0.814,0.135,0.349);
    try { THDM a(b,sm,cfg);
      thdm::Mass_basis c=b; c.yukawa_type=thdm::Yukawa_type::aligned; double tb=b.tan_beta; double zu=1/tb, zd=(ty==1||ty==3)?1/tb:-tb, zl=(ty==1||ty==4)?1/tb:-tb; c.zeta_u=zu; c.zeta_d=zd; c.zeta_l=zl;
      THDM d(c,sm,cfg);
      double q[2][4]; THDM* ms[2]={&a,&d}; for(int j=0;j<2;j++){ q[j][0]=calculate_amu_1loop(*ms[j]); q[j][1]=calculate_amu_2loop_fermionic(*ms[j]); q[j][2]=calculate_amu_2loop_bosonic(*ms[j]); q[j][3]=calculate_uncertainty_amu_2loop(*ms[j]); }
      ++n; for(int k=0;k<4;k++){ double e=std::abs(q[0][k]-q[1][k])/std::max(std::abs(q[0][k]),std::abs(q[1][k])); if(std::isnan(q[0][k])!=std::isnan(q[1][k])) e=1e9; if(std::isnan(q[0][k])) { if(k==0) nb++; continue;} if(e>worst[k]){worst[k]=e; printf("type%d vs aligned comp %d rel %.3e (%.4e vs %.4e) tb=%.3f run=%d\n",ty,k,e,q[0][k],q[1][k],tb,(int)cfg.running_couplings);} }
      // ignored params: zeta in type, Pi in type
      thdm::Mass_basis e2=b; e2.zeta_u=U(-100,100); e2.zeta_d=U(-100,100); e2.zeta_l=U(-100,100); e2.Pi_u=RM(); e2.Pi_d=RM(); e2.Pi_l=RM(); THDM f(e2,sm,cfg);
      double g0[3]={calculate_amu_1loop(f),calculate_amu_2loop_fermionic(f),calculate_amu_2loop_bosonic(f)}; for(int k=0;k<3;k++){ if(g0[k]!=q[0][k] && !(std::isnan(g0[k])&&std::isnan(q[0][k]))){ double e=std::abs(g0[k]-q[0][k])/std::abs(q[0][k]); if(e>wign){wign=e; printf("ignored param influence comp %d rel %.3e\n",k,e);} } }
      // aligned(zeta,Delta) vs general(Pi), running off
      if(!cfg.running_couplings){ thdm::Mass_basis al=b; al.yukawa_type=thdm::Yukawa_type::aligned; al.zeta_u=U(-100,100); al.zeta_d=U(-100,100); al.zeta_l=U(-100,100); al.Delta_u=RM(); al.Delta_d=RM(); al.Delta_l=RM();
        thdm::Mass_basis ge=al; ge.yukawa_type=thdm::Yukawa_type::general; double cb=1/std::sqrt(1+tb*tb), v=sm.get_v(); Eigen::Matrix<double,3,3> mu=sm.get_mu().asDiagonal(), md=sm.get_md().asDiagonal(), ml=sm.get_ml().asDiagonal();
        ge.Pi_u=cb*(std::sqrt(2.0)*mu/v*(al.zeta_u+tb)+al.Delta_u); ge.Pi_d=cb*(std::sqrt(2.0)*md/v*(al.zeta_d+tb)+al.Delta_d); ge.Pi_l=cb*(std::sqrt(2.0)*ml/v*(al.zeta_l+tb)+al.Delta_l);
        ge.Delta_u=RM(); // ignored in general
        THDM A(al,sm,cfg), G(ge,sm,cfg); double x1=calculate_amu_1loop(A), x2=calculate_amu_1loop(G), y1=calculate_amu_2loop_fermionic(A), y2=calculate_amu_2loop_fermionic(G);
        double e1=std::abs(x1-x2)/std::max(std::abs(x1),std::abs(x2)), e3=std::abs(y1-y2)/std::max(std::abs(y1),std::abs(y2)); double e=std::max(e1,e3); if(e>wgen){wgen=e; printf("aligned vs general rel %.3e (1L %.4e/%.4e F %.4e/%.4e) ckm=%d\n",e,x1,x2,y1,y2,it%3==0);} }
    } catch(const Error& e){ }
  }
  printf("n=%d nan1L=%d worst %.2e %.2e %.2e %.2e gen %.2e ign %.2e\n",n,nb,worst[0],worst[1],worst[2],worst[3],wgen,wign);
}
