#include "gm2_ffunctions.hpp"
#include <cstdio>
#include <cmath>
#include <random>
std::mt19937_64 rng(79); double U(double a,double b){ return std::uniform_real_distribution<double>(a,b)(rng);} double LU(double a,double b){ return std::exp(U(std::log(a),std::log(b))); }
int main(){ for(int i=0;i<2000;i++){ double u=LU(1e-12,1e-2); double v=(i%2)?LU(1e-12,1e-2):U(0.01,0.95); printf("%a %a %a %a %a\n", u,v,1.0, gm2calc::Phi(u,v,1.0), gm2calc::lambda_2(u,v,1.0)); } }
