#include "gm2calc/THDM.hpp"
#include "gm2calc/gm2_1loop.hpp"
#include "gm2calc/gm2_2loop.hpp"
#include "gm2calc/gm2_uncertainty.hpp"
#include "gm2calc/gm2_error.hpp"
#include <cstdio>
#include <cmath>
using namespace gm2calc;
int main(){
  for (double sba : {0.995, 0.3, -0.3, 0.9, -0.9, 0.0, 1.0, -1.0, 0.7, -0.999}) {
    thdm::Mass_basis b; b.yukawa_type=thdm::Yukawa_type::type_2; b.mh=100; b.mH=400; b.mA=420; b.mHp=440;
    b.sin_beta_minus_alpha=sba; b.lambda_6=0.2; b.lambda_7=0.1; b.tan_beta=3; b.m122=40000;
    try { THDM m(b);
      printf("in sba=%g -> out sba=%.6f cba=%.6f mh=%.4f mH=%.4f a1=%.4e a2=%.4e\n", sba, m.get_sin_beta_minus_alpha(), m.get_cos_beta_minus_alpha(), m.get_Mhh(0), m.get_Mhh(1), calculate_amu_1loop(m), calculate_amu_2loop(m));
    } catch (const Error& e) { printf("sba=%g err %s\n", sba, e.what()); }
  }
  // C11: mH = mHp + mW
  {
    SM sm; double mw = sm.get_mw();
    for (double d : {0.0, 1e-13,-1e-13,1e-10,-1e-10, 1e-8,-1e-8,1e-6,-1e-6,1e-4,-1e-4,1e-3,-1e-3}) {
      thdm::Mass_basis b; b.yukawa_type=thdm::Yukawa_type::type_2; b.mh=125; b.mA=420; b.mHp=300; b.mH=(b.mHp+mw)*(1+d);
      b.sin_beta_minus_alpha=0.995; b.lambda_6=0.2; b.lambda_7=0.1; b.tan_beta=3; b.m122=40000;
      THDM m(b);
      printf("d=%+.0e mH=%.10f bos=%.6e ferm=%.6e 1L=%.6e\n", d, m.get_Mhh(1), calculate_amu_2loop_bosonic(m), calculate_amu_2loop_fermionic(m), calculate_amu_1loop(m));
    }
  }
}
