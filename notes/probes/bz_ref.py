from mpmath import mp, mpf, mpc, log, sqrt, polylog, pi, diff
mp.dps=50
def fPS(z):
    z=mpf(z)
    if z==0: return mpf(0)
    y=sqrt(mpc(1-4*z))
    return (2*z/y*(polylog(2,1-(1-y)/(2*z))-polylog(2,1-(1+y)/(2*z)))).real
def fS(z): return (2*z-1)*fPS(z)-2*z*(2+log(z))
def fCSl(z): return z*(z+z*(z-1)*(polylog(2,1-1/z).real-pi**2/6)+(z-mpf(1)/2)*log(z))
def PhiDT(x,y,z):
    x,y,z=sorted([x,y,z]); u=x/z; v=y/z
    l2=(1-u-v)**2-4*u*v; lam=sqrt(mpc(l2)); a=(1+u-v-lam)/2; b=(1-u+v-lam)/2
    p=((2*log(a)*log(b)-log(u)*log(v)-2*polylog(2,a)-2*polylog(2,b)+pi**2/3)/lam).real
    return p*z*l2/2
def li2(x): return polylog(2,x).real
def fCSd_core(xu,xd,qu,qd,s,c,cbar):
    lxu=log(xu); lxd=log(xd); y=(xu-xd)**2-2*(xu+xd)+1; phiy=PhiDT(xd,xu,mpf(1))/y
    return (-(xu-xd)+(cbar-c*(xu-xd))*phiy + c*(li2(1-xd/xu)-lxu*(lxd-lxu)/2)+(s+xd)*lxd+(s-xu)*lxu, phiy, lxu, lxd)
def fCSd(xu,xd,qu,qd):
    s=(qu+qd)/4; c=(xu-xd)**2-qu*xu+qd*xd; cbar=(xu-qu)*xu-(xd+qd)*xd
    return xd*fCSd_core(xu,xd,qu,qd,s,c,cbar)[0]
def fCSu(xu,xd,qu,qd):
    s=1+(qu+qd)/4; c=(xu-xd)**2-(qu+2)*xu+(qd+2)*xd; cbar=(xu-qu-2)*xu-(xd+qd+2)*xd
    core,phiy,lxu,lxd=fCSd_core(xu,xd,qu,qd,s,c,cbar)
    return xu*(core-mpf(4)/3*(xu-xd-1)*phiy-(lxd+lxu)*(lxd-lxu)/3)
def dq(f,x,y):
    if x==y:
        h=mpf(10)**-20; # derivative form: d/dx [ (y f(x)-x f(y))/(x-y) ] limit = x f'(x) - f(x)
        fp=(f(x*(1+h))-f(x*(1-h)))/(2*x*h); return x*fp-f(x)
    return (y*f(x)-x*f(y))/(x-y)
qu=mpf(2)/3; qd=-mpf(1)/3
worst={}
import math
def upd(name,val,ref,info):
    e=float(abs(val-ref)/abs(ref)) if ref!=0 else float(abs(val))
    if e>worst.get(name,(0,))[0]: worst[name]=(e,info)
for line in open('/tmp/x/bz_samples.txt'):
    t=line.split(); k=t[0]; a=[mpf(float.fromhex(s)) for s in t[1:]]
    if k=='CW':
        ms,xu,xd,yu,yd,FCWu,FCWd,fcsu,fcsd=a
        upd('f_CSu',fcsu,fCSu(xu,xd,qu,qd),(float(ms),float(xu),float(xd)))
        upd('f_CSd',fcsd,fCSd(xu,xd,qu,qd),(float(ms),float(xu),float(xd)))
        ru=(yu*fCSu(xu,xd,qu,qd)-xu*fCSu(yu,yd,qu,qd))/(xu-yu); rd=(yd*fCSd(xu,xd,qu,qd)-xd*fCSd(yu,yd,qu,qd))/(xd-yd)
        upd('FCWu',FCWu,ru,(float(ms),float(xu),float(xd))); upd('FCWd',FCWd,rd,(float(ms),float(xu),float(xd)))
    elif k=='L':
        x,y,v=a; upd('FCWl',v,dq(fCSl,x,y),(float(x),float(y)))
    else:
        x,y,p,s=a; upd('FPZ',p,dq(fPS,x,y),(float(x),float(y))); upd('FSZ',s,dq(fS,x,y),(float(x),float(y)))
for k,v in worst.items(): print(k,"worst rel err %.3e"%v[0],"at",v[1])
