#include "gm2calc/MSSMNoFV_onshell_mass_eigenstates.hpp"
#include <Eigen/Eigenvalues>
#include <Eigen/SVD>
#include <cstdio>
#include <cmath>
#include <random>
#include <string>
#include <set>
#include <iostream>
#include <sstream>
using namespace gm2calc;
typedef Eigen::Matrix<double,2,2> M2; typedef Eigen::Matrix<double,3,3> M3;
std::mt19937_64 rng(51);
double U(double a,double b){ return std::uniform_real_distribution<double>(a,b)(rng);} 
double LU(double a,double b){ return std::exp(U(std::log(a),std::log(b))); }
int sg(){ return U(0,1)<0.5?-1:1; }
double worst_rec=0; int nflagmis=0, n=0; std::set<std::string> seen_tach;
double rec2(const M2& ref, const Eigen::Array<double,2,1>& m, const M2& Z){ M2 D=Z*ref*Z.transpose(); double nrm=ref.norm(); double off=std::abs(D(0,1))/nrm; double d0=std::abs(std::abs(D(0,0))-m(0)*m(0))/nrm, d1=std::abs(std::abs(D(1,1))-m(1)*m(1))/nrm; double uni=(Z*Z.transpose()-M2::Identity()).norm(); return std::max({off,d0,d1,uni}); }
int main(){
  std::stringstream err; std::cerr.rdbuf(err.rdbuf());
  for(int it=0; it<300000; ++it){
    MSSMNoFV_onshell_mass_eigenstates m; double g1=U(0.3,0.6), g2=U(0.5,0.8), v=246.0*U(0.9,1.1), tb=LU(0.5,200); double vd=v/std::sqrt(1+tb*tb), vu=vd*tb; double mu=sg()*LU(50,5000), Bmu=(it%5==0?-1:1)*LU(1e3,1e7), M1=sg()*LU(50,5000), MW2_=sg()*LU(50,5000);
    m.set_g1(g1); m.set_g2(g2); m.set_g3(1.2); m.set_vd(vd); m.set_vu(vu); m.set_Mu(mu); m.set_BMu(Bmu); m.set_MassB(M1); m.set_MassWB(MW2_); m.set_MassG(sg()*1500.0);
    M3 Yu=M3::Zero(),Yd=M3::Zero(),Ye=M3::Zero(),Tu=M3::Zero(),Td=M3::Zero(),Te=M3::Zero(),mq2=M3::Zero(),mu2=M3::Zero(),md2=M3::Zero(),ml2=M3::Zero(),me2=M3::Zero();
    for(int i=0;i<3;i++){ Yu(i,i)=LU(1e-5,1.2); Yd(i,i)=LU(1e-5,1.5); Ye(i,i)=LU(1e-6,1.0); Tu(i,i)=U(-1,1)*3000*Yu(i,i); Td(i,i)=U(-1,1)*3000*Yd(i,i); Te(i,i)=U(-1,1)*3000*Ye(i,i);
      auto sq=[&](){ double x=LU(50,5000); return (U(0,1)<0.1?-1:1)*x*x; }; mq2(i,i)=sq(); mu2(i,i)=sq(); md2(i,i)=sq(); ml2(i,i)=sq(); me2(i,i)=sq(); }
    m.set_Yu(Yu); m.set_Yd(Yd); m.set_Ye(Ye); m.set_TYu(Tu); m.set_TYd(Td); m.set_TYe(Te); m.set_mq2(mq2); m.set_mu2(mu2); m.set_md2(md2); m.set_ml2(ml2); m.set_me2(me2); m.set_mHd2(1234.5); m.set_mHu2(-777.0);
    m.calculate_DRbar_masses(); ++n;
    if(m.get_mHd2()!=1234.5||m.get_mHu2()!=-777.0){ printf("mH2 not restored\n"); }
    const double gp2=0.6*g1*g1, g22=g2*g2, dv=vd*vd-vu*vu, s2=std::sqrt(2.0);
    std::set<std::string> exp_tach, amb;
    auto DL=[&](double T3,double Q){ return 0.25*dv*(T3*g22-(Q-T3)*gp2); }; auto DR=[&](double Q){ return 0.25*dv*Q*gp2; };
    auto sf=[&](double mLL,double mRR,double yf,double Tf,bool up,double T3,double Q,const Eigen::Array<double,2,1>& ms,const M2& Z,const char* nm,bool mon){ double vf=up?vu:vd, vo=up?vd:vu; M2 R; R(0,0)=mLL+0.5*yf*yf*vf*vf+DL(T3,Q); R(1,1)=mRR+0.5*yf*yf*vf*vf+DR(Q); R(0,1)=R(1,0)=(vf*Tf-vo*yf*mu)/s2; double e=rec2(R,ms,Z); if(e>worst_rec){worst_rec=e; printf("%s rec err %.3e\n",nm,e);} Eigen::SelfAdjointEigenSolver<M2> es(R); double lo=es.eigenvalues()(0); if(mon){ if(std::abs(lo)<1e-9*R.norm()) amb.insert(nm); else if(lo<0) exp_tach.insert(nm);} if(!(std::abs(ms(0))<=std::abs(ms(1)))) printf("%s order\n",nm); };
    const Eigen::Array<double,2,1>* MSd[3]={&m.get_MSd(),&m.get_MSs(),&m.get_MSb()}; const M2* ZD[3]={&m.get_ZD(),&m.get_ZS(),&m.get_ZB()};
    const Eigen::Array<double,2,1>* MSu[3]={&m.get_MSu(),&m.get_MSc(),&m.get_MSt()}; const M2* ZU[3]={&m.get_ZU(),&m.get_ZC(),&m.get_ZT()};
    const Eigen::Array<double,2,1>* MSe[3]={&m.get_MSe(),&m.get_MSm(),&m.get_MStau()}; const M2* ZE[3]={&m.get_ZE(),&m.get_ZM(),&m.get_ZTau()};
    const char* nd[3]={"Sd","Ss","Sb"}; const char* nu[3]={"Su","Sc","St"}; const char* ne[3]={"Se","Sm","Stau"}; double msv[3]={m.get_MSveL(),m.get_MSvmL(),m.get_MSvtL()};
    for(int i=0;i<3;i++){ sf(mq2(i,i),md2(i,i),Yd(i,i),Td(i,i),false,-0.5,-1./3,*MSd[i],*ZD[i],nd[i],i==2); sf(mq2(i,i),mu2(i,i),Yu(i,i),Tu(i,i),true,0.5,2./3,*MSu[i],*ZU[i],nu[i],i==2); sf(ml2(i,i),me2(i,i),Ye(i,i),Te(i,i),false,-0.5,-1.,*MSe[i],*ZE[i],ne[i],i>=1);
      double sv2=ml2(i,i)+DL(0.5,0); double e=std::abs(std::abs(sv2)-msv[i]*msv[i])/std::abs(sv2); if(e>worst_rec){worst_rec=e; printf("snu rec %.3e\n",e);} if(i==1){ if(sv2<0) exp_tach.insert("SvmL"); } }
    // Higgs
    double MZ2=0.25*(g22+gp2)*(vd*vd+vu*vu), MWs=0.25*g22*(vd*vd+vu*vu); double sb=vu/std::sqrt(vd*vd+vu*vu), cb=vd/std::sqrt(vd*vd+vu*vu); double mA2=Bmu/(sb*cb);
    M2 P; P<<sb*sb,sb*cb,sb*cb,cb*cb; M2 G; G<<cb*cb,-sb*cb,-sb*cb,sb*sb;
    M2 RA=mA2*P+MZ2*G, RC=(mA2+MWs)*P+MWs*G, RH; RH<<mA2*sb*sb+MZ2*cb*cb, -(mA2+MZ2)*sb*cb, -(mA2+MZ2)*sb*cb, mA2*cb*cb+MZ2*sb*sb;
    double eA=rec2(RA,m.get_MAh(),m.get_ZA()), eC=rec2(RC,m.get_MHpm(),m.get_ZP()), eH=rec2(RH,m.get_Mhh(),m.get_ZH()); double e=std::max({eA,eC,eH}); if(e>worst_rec){worst_rec=e; printf("higgs rec %.3e (A %.1e C %.1e H %.1e) tb=%.1f mA2=%.3e\n",e,eA,eC,eH,tb,mA2);} 
    if(std::abs(m.get_MAh(0)-std::sqrt(MZ2))>1e-9*std::sqrt(MZ2) || std::abs(m.get_MHpm(0)-std::sqrt(MWs))>1e-9*std::sqrt(MWs)) { static int c=0; if(c++<5) printf("goldstone not at 0: MAh=%.6f %.6f MZ=%.6f MHpm=%.6f %.6f MW=%.6f mA2=%.4e\n",m.get_MAh(0),m.get_MAh(1),std::sqrt(MZ2),m.get_MHpm(0),m.get_MHpm(1),std::sqrt(MWs),mA2); }
    if(mA2<0){ exp_tach.insert("Ah"); } if(mA2+MWs<0) exp_tach.insert("Hpm"); { Eigen::SelfAdjointEigenSolver<M2> es(RH); if(es.eigenvalues()(0)<0) exp_tach.insert("hh"); if(std::abs(es.eigenvalues()(0))<1e-9*RH.norm()) amb.insert("hh"); }
    // identities
    if(mA2>0){ double i1=std::abs(m.get_MHpm(1)*m.get_MHpm(1)-(mA2+MWs))/(mA2+MWs); if(i1>1e-9 && mA2+MWs>0) { static int c=0; if(c++<3) printf("mHp identity %.3e\n",i1);} }
    // compare flags
    std::string probs=m.get_problems().get_problems(); std::set<std::string> got; { size_t pos=0; std::string s=probs; const std::string pre="Problem: "; if(s.compare(0,pre.size(),pre)==0) s=s.substr(pre.size()); std::stringstream ss(s); std::string tok; while(std::getline(ss,tok,',')){ size_t a=tok.find_first_not_of(' '); size_t b=tok.find(" tachyon"); if(a!=std::string::npos&&b!=std::string::npos) got.insert(tok.substr(a,b-a)); } }
    for(auto& g: got) seen_tach.insert(g);
    std::set<std::string> e1=exp_tach, g1s=got; for(auto& a: amb){ e1.erase(a); g1s.erase(a);} if(e1!=g1s){ nflagmis++; if(nflagmis<8){ printf("flag mismatch: expected {"); for(auto&x:e1) printf("%s ",x.c_str()); printf("} got {"); for(auto&x:g1s) printf("%s ",x.c_str()); printf("} mA2=%.3e\n",mA2);} }
  }
  printf("n=%d worst rec %.3e flag mismatches %d; tachyon kinds seen:",n,worst_rec,nflagmis); for(auto&s:seen_tach) printf(" %s",s.c_str()); printf("\n");
}
