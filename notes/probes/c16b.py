import subprocess, re, sys
BIN='/tmp/x/gm2calc.x'
def setval(text, block, key, val, q=None):
    out=[]; inb=False; done=False
    for line in text.split('\n'):
        t=line.split('#')[0].split()
        if t and t[0].lower()=='block':
            if inb and not done:
                out.append(" %s %s" % (key,val)); done=True
            inb = (t[1].lower()==block.lower())
        elif inb and t and t[0]==str(key) and not done and len(str(key).split())==1:
            line=" %s %s" % (key,val); done=True
        out.append(line)
    if inb and not done: out.append(" %s %s" % (key,val)); done=True
    if not done: out += ["Block %s" % block, " %s %s" % (key,val)]
    return '\n'.join(out)
def run(text, fmt, force):
    text=setval(text,'GM2CalcConfig',0,0); text=setval(text,'GM2CalcConfig',3,force); text=setval(text,'GM2CalcConfig',5,0)
    p=subprocess.run([BIN,'--%s-input-file=-'%fmt],input=text.encode(),capture_output=True,timeout=60)
    return p.returncode,p.stdout.decode().strip(),p.stderr.decode().strip().replace('\n',' | ')[:110]
cases={'gm2calc':(open('/repo/input/example.gm2').read(),[('MW>=MZ','SMINPUTS',9,95),('MW=0','SMINPUTS',9,0),('MZ=0','SMINPUTS',4,0),('mmu=0','SMINPUTS',13,0),('mu=0','GM2CalcInput',4,0),('M1=0','GM2CalcInput',5,0),('M2=0','GM2CalcInput',6,0),('TB=0','GM2CalcInput',3,0),('TB=1e200','GM2CalcInput',3,'1e200'),('msl2<0','GM2CalcInput',10,-356),('mse2<0','GM2CalcInput',13,-225),('msq3<0','GM2CalcInput',17,-900),('stau tachyon (Atau huge)','GM2CalcInput',26,'-1e6'),('stop tachyon (At huge)','GM2CalcInput',32,'-1e5'),('MA=0 (Ah,hh tachyon)','GM2CalcInput',8,0)]),
 'slha':(open('/repo/input/example.slha').read(),[('MW>=MZ','SMINPUTS',9,95),('MW(MASS)=95','MASS',24,95),('MZ=0','SMINPUTS',4,0),('mmu=0','SMINPUTS',13,0),('mu=0','HMIX',1,0),('M1=0','MSOFT',1,0),('M2=0','MSOFT',2,0),('TB=0','HMIX',2,0),('TB=1e200','HMIX',2,'1e200'),('mmuL<0','MSOFT',32,-500),('mmuR<0','MSOFT',35,-500),('mcha1=0 pole','MASS',1000024,0),('msnu pole tiny','MASS',1000014,1.0)]),
 'thdm':(open('/repo/input/example.thdm').read(),[('tb=0','MINPAR',3,0),('tb<0','MINPAR',3,-3),('mh>mH','MASS',25,500),('sba>1','MINPAR',20,1.5),('mh<0','MASS',25,-100),('mA<0','MASS',36,-420),('mHp<0','MASS',37,-440),('undecidable','MINPAR',11,0.7),('type=7','MINPAR',24,7),('type=0','MINPAR',24,0),('MW>=MZ','SMINPUTS',9,95)])}
for fmt,(base,defs) in cases.items():
    for name,blk,key,val in defs:
        for force in (0,1):
            rc,out,err=run(setval(base,blk,key,val),fmt,force)
            print("%-8s %-28s force=%d exit=%d out=[%s] err=[%s]" % (fmt,name,force,rc,out[:40],err))
