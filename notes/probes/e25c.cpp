#include "gm2calc/gm2_1loop.hpp"
#include "gm2calc/gm2_2loop.hpp"
#include "gm2calc/gm2_uncertainty.hpp"
#include "gm2calc/gm2_error.hpp"
#include "gm2calc/MSSMNoFV_onshell.hpp"
#include "MSSMNoFV/gm2_1loop_helpers.hpp"
#include "MSSMNoFV/gm2_2loop_helpers.hpp"
#include "gm2_ffunctions.hpp"
#include <cstdio>
#include <cmath>
#include <random>
#include <iostream>
#include <sstream>
using namespace gm2calc;
std::mt19937_64 rng(3);
double U(double a,double b){ return std::uniform_real_distribution<double>(a,b)(rng);} 
double LU(double a,double b){ return std::exp(U(std::log(a),std::log(b))); }
int sg(){ return U(0,1)<0.5?-1:1; }
struct P { double tb, mu, m1, m2, m3, ma, Q; double ml[3], me[3], mq[3], mU[3], md[3], Ae[3], Au[3], Ad[3]; };
P randp(double lo, double hi){ P p; p.tb=LU(1.5,80); p.mu=sg()*LU(lo,hi); p.m1=sg()*LU(lo,hi); p.m2=sg()*LU(lo,hi); p.m3=sg()*LU(lo,3*hi); p.ma=LU(lo,hi); p.Q=LU(lo,hi);
  for(int i=0;i<3;i++){ p.ml[i]=LU(lo,hi); p.me[i]=LU(lo,hi); p.mq[i]=LU(lo,3*hi); p.mU[i]=LU(lo,3*hi); p.md[i]=LU(lo,3*hi); p.Ae[i]=U(-1,1)*lo; p.Au[i]=U(-1,1)*hi; p.Ad[i]=U(-1,1)*hi; } return p; }
MSSMNoFV_onshell make(const P& p, double k=1){ MSSMNoFV_onshell m; m.set_TB(p.tb); m.set_Mu(k*p.mu); m.set_MassB(k*p.m1); m.set_MassWB(k*p.m2); m.set_MassG(k*p.m3); m.set_MA0(k*p.ma); m.set_scale(k*p.Q);
  for(int i=0;i<3;i++){ m.set_ml2(i,i,k*k*p.ml[i]*p.ml[i]); m.set_me2(i,i,k*k*p.me[i]*p.me[i]); m.set_mq2(i,i,k*k*p.mq[i]*p.mq[i]); m.set_mu2(i,i,k*k*p.mU[i]*p.mU[i]); m.set_md2(i,i,k*k*p.md[i]*p.md[i]); m.set_Ae(i,i,k*p.Ae[i]); m.set_Au(i,i,k*p.Au[i]); m.set_Ad(i,i,k*p.Ad[i]); }
  m.calculate_masses(); return m; }
double S1(const MSSMNoFV_onshell& m){ auto aan=AAN(m), bbn=BBN(m), x=x_im(m); auto aac=AAC(m), bbc=BBC(m), xk=x_k(m); double s=0; const double mm=m.get_MM();
  for(int i=0;i<4;i++) for(int k=0;k<2;k++){ double ms2=m.get_MSm(k)*m.get_MSm(k); s+=std::abs(aan(i,k)*F1N(x(i,k))/(12*ms2))+std::abs(m.get_MChi(i)*bbn(i,k)*F2N(x(i,k))/(6*mm*ms2)); }
  double msv2=m.get_MSvmL()*m.get_MSvmL(); for(int k=0;k<2;k++) s+=std::abs(aac(k)*F1C(xk(k))/12/msv2)+std::abs(m.get_MCha(k)*bbc(k)*F2C(xk(k))/(3*mm)/msv2);
  return s*mm*mm*6.332573977646111e-3; }
int main(){
  std::stringstream err; std::cerr.rdbuf(err.rdbuf());
  double wc1=0, wct=0, wc2=0, wcf=0; int ns=0; double wk[8]={0}, wrel[8]={0};
  for(int it=0; it<20000; ++it){ P p=randp(300,3000); double mmin=std::min({std::abs(p.mu),std::abs(p.m1),std::abs(p.m2),p.ml[1],p.me[1]});
    try { double a1[7],a2[7],af[7],t[7],u[7],s1[7],s2[7]; int j=0; for(int k=1;k<=64;k*=2,++j){ auto m=make(p,k); a1[j]=calculate_amu_1loop(m); a2[j]=calculate_amu_2loop(m); af[j]=amu2LFSfapprox(m); t[j]=tan_beta_cor(m); u[j]=calculate_uncertainty_amu_2loop(m); s1[j]=S1(m); s2[j]=(std::abs(amu2LFSfapprox(m))+std::abs(amu2LChi0Photonic(m))+std::abs(amu2LChipmPhotonic(m))+std::abs(amu2LaSferm(m))+std::abs(amu2LaCha(m)))*k*k; }
      ++ns; j=0; for(int k=1;k<64;k*=2,++j){ double eps2=std::pow(91.1876/(k*mmin),2);
        double c1=std::abs(4*a1[j+1]-a1[j])/(eps2*s1[j]); if(c1>wc1){wc1=c1; printf("c1=%.2f k=%d tb=%.1f a1=%.3e s1=%.3e mmin=%.0f\n",c1,k,p.tb,a1[j],s1[j],mmin);} 
        double ct=std::abs(t[j+1]-t[j])/eps2; if(ct>wct){wct=ct; printf("ct=%.2f k=%d tb=%.1f t=%.4f\n",ct,k,p.tb,t[j]);}
        double cf=std::abs(4*af[j+1]-af[j])/(eps2*s1[j]*0.05); if(cf>wcf){wcf=cf; printf("cf=%.2f k=%d\n",cf,k);} 
        if(j>=1){ double D0=a2[j-1]*(k/2.)*(k/2.), D1=a2[j]*k*k, D2=a2[j+1]*4.*k*k; double S2=std::max({s2[j-1],s2[j],s2[j+1]}); double epsm=173.34/((k/2.)*mmin); double c2=std::abs(D2-2*D1+D0)/(epsm*S2); wk[j]=std::max(wk[j],c2); wrel[j]=std::max(wrel[j],std::abs(D2-2*D1+D0)/S2); if(c2>wc2){wc2=c2; printf("c2=%.2f k=%d D=%.3e %.3e %.3e S2=%.3e\n",c2,k,D0,D1,D2,S2);} }
        if(!(u[j+1]<=u[j]*(1+1e-12)) || u[j]<2.3e-10) printf("unc non-monotone k=%d %.6e -> %.6e\n",k,u[j],u[j+1]);
      }
    } catch(const Error&){}
  }
  for(int q=1;q<6;q++) printf("j=%d (k=%d): worst c2=%.3f worst rel 2nd diff=%.4f\n",q,1<<q,wk[q],wrel[q]); printf("ns=%d worst c1=%.2f ct=%.2f cf=%.2f c2=%.2f\n",ns,wc1,wct,wcf,wc2);
}
