#include "gm2calc/gm2_1loop.hpp"
#include "gm2calc/gm2_2loop.hpp"
#include "gm2calc/gm2_uncertainty.hpp"
#include "gm2calc/gm2_error.hpp"
#include "gm2calc/MSSMNoFV_onshell.hpp"
#include "MSSMNoFV/gm2_1loop_helpers.hpp"
#include "MSSMNoFV/gm2_2loop_helpers.hpp"
#include <cstdio>
#include <cmath>
#include <random>
#include <map>
#include <string>
#include <functional>
#include <iostream>
#include <sstream>
using namespace gm2calc;
static double sqr(double x){return x*x;}
std::mt19937_64 rng(31);
double U(double a,double b){ return std::uniform_real_distribution<double>(a,b)(rng);} 
double LU(double a,double b){ return std::exp(U(std::log(a),std::log(b))); }
int sg(){ return U(0,1)<0.5?-1:1; }
struct P { double tb, mu, m1, m2, m3, ma, Q; double ml[3], me[3], mq[3], mU[3], md[3], Ae[3], Au[3], Ad[3]; };
P randp(){ P p; p.tb=LU(2,60); p.mu=sg()*LU(150,2000); p.m1=sg()*LU(100,2000); p.m2=sg()*LU(150,2000); p.m3=LU(800,4000); p.ma=LU(300,3000); p.Q=LU(300,2000);
  for(int i=0;i<3;i++){ p.ml[i]=LU(150,2000); p.me[i]=LU(150,2000); p.mq[i]=LU(800,4000); p.mU[i]=LU(800,4000); p.md[i]=LU(800,4000); p.Ae[i]=U(-1,1)*300; p.Au[i]=U(-1,1)*1000; p.Ad[i]=U(-1,1)*1000; } return p; }
MSSMNoFV_onshell make(const P& p){ MSSMNoFV_onshell m; m.set_TB(p.tb); m.set_Mu(p.mu); m.set_MassB(p.m1); m.set_MassWB(p.m2); m.set_MassG(p.m3); m.set_MA0(p.ma); m.set_scale(p.Q);
  for(int i=0;i<3;i++){ m.set_ml2(i,i,p.ml[i]*p.ml[i]); m.set_me2(i,i,p.me[i]*p.me[i]); m.set_mq2(i,i,p.mq[i]*p.mq[i]); m.set_mu2(i,i,p.mU[i]*p.mU[i]); m.set_md2(i,i,p.md[i]*p.md[i]); m.set_Ae(i,i,p.Ae[i]); m.set_Au(i,i,p.Au[i]); m.set_Ad(i,i,p.Ad[i]); }
  m.calculate_masses(); return m; }
const int NC=10; const char* cn[NC]={"1Lchi0","1Lchipm","2LFSf","2Lphchi0","2Lphchipm","2LaSferm","2LaCha","tbcor","unc2L","1Lapprox"};
void comps(const MSSMNoFV_onshell& m, double* v){ v[0]=amu1LChi0(m); v[1]=amu1LChipm(m); v[2]=amu2LFSfapprox(m); v[3]=amu2LChi0Photonic(m); v[4]=amu2LChipmPhotonic(m); v[5]=amu2LaSferm(m); v[6]=amu2LaCha(m); v[7]=tan_beta_cor(m); v[8]=calculate_uncertainty_amu_2loop(m); v[9]=amu1Lapprox(m);} 
int main(){
  std::stringstream err; std::cerr.rdbuf(err.rdbuf());
  std::map<std::string,int> fails,tries; std::map<std::string,std::string> ex;
  const double ds[]={0,1e-13,-1e-13,1e-12,-1e-12,1e-11,-1e-11,1e-10,-1e-10,1e-9,-1e-9,1e-8,-1e-8,1e-7,-1e-7,1e-6,-1e-6,1e-5,-1e-5,1e-4,-1e-4};
  for(int it=0; it<150; ++it){ P base=randp(); try{ make(base);}catch(const Error&){continue;}
    // parameter accessors
    struct Par{ const char* n; std::function<double&(P&)> ref; };
    std::vector<Par> pars={{"M1",[](P&p)->double&{return p.m1;}},{"M2",[](P&p)->double&{return p.m2;}},{"mu",[](P&p)->double&{return p.mu;}},{"MA",[](P&p)->double&{return p.ma;}},{"msl2",[](P&p)->double&{return p.ml[1];}},{"mse2",[](P&p)->double&{return p.me[1];}},{"msq3",[](P&p)->double&{return p.mq[2];}},{"msl3",[](P&p)->double&{return p.ml[2];}}};
    // targets as functions g(model)
    struct Tg{ std::string n; std::function<double(const MSSMNoFV_onshell&)> g; };
    std::vector<Tg> tg;
    for(int i=0;i<4;i++) for(int k=0;k<2;k++) tg.push_back({"mchi"+std::to_string(i)+"=msmu"+std::to_string(k),[i,k](const MSSMNoFV_onshell&m){return m.get_MChi(i)-m.get_MSm(k);}});
    for(int k=0;k<2;k++){ tg.push_back({"mcha"+std::to_string(k)+"=msnu",[k](const MSSMNoFV_onshell&m){return m.get_MCha(k)-m.get_MSvmL();}}); tg.push_back({"2mcha"+std::to_string(k)+"=MA",[k](const MSSMNoFV_onshell&m){return 2*m.get_MCha(k)-m.get_MA0();}}); tg.push_back({"mcha"+std::to_string(k)+"=MA",[k](const MSSMNoFV_onshell&m){return m.get_MCha(k)-m.get_MA0();}}); tg.push_back({"2mcha"+std::to_string(k)+"=mH",[k](const MSSMNoFV_onshell&m){return 2*m.get_MCha(k)-m.get_Mhh(1);}}); tg.push_back({"2mstau"+std::to_string(k)+"=mH",[k](const MSSMNoFV_onshell&m){return 2*m.get_MStau(k)-m.get_Mhh(1);}}); tg.push_back({"2mstop"+std::to_string(k)+"=mH",[k](const MSSMNoFV_onshell&m){return 2*m.get_MSt(k)-m.get_Mhh(1);}}); }
    tg.push_back({"|M1|=|mu|",[](const MSSMNoFV_onshell&m){return std::abs(m.get_MassB())-std::abs(m.get_Mu());}}); tg.push_back({"|M2|=|mu|",[](const MSSMNoFV_onshell&m){return std::abs(m.get_MassWB())-std::abs(m.get_Mu());}}); tg.push_back({"|M1|=|M2|",[](const MSSMNoFV_onshell&m){return std::abs(m.get_MassB())-std::abs(m.get_MassWB());}});
    tg.push_back({"msl=mse",[](const MSSMNoFV_onshell&m){return m.get_ml2(1,1)-m.get_me2(1,1);}}); tg.push_back({"|M1|=msl",[](const MSSMNoFV_onshell&m){return sqr(m.get_MassB())-m.get_ml2(1,1);}}); tg.push_back({"|M1|=mse",[](const MSSMNoFV_onshell&m){return sqr(m.get_MassB())-m.get_me2(1,1);}}); tg.push_back({"|mu|=msl",[](const MSSMNoFV_onshell&m){return sqr(m.get_Mu())-m.get_ml2(1,1);}}); tg.push_back({"|M2|=msl",[](const MSSMNoFV_onshell&m){return sqr(m.get_MassWB())-m.get_ml2(1,1);}});
    tg.push_back({"MA=MZ",[](const MSSMNoFV_onshell&m){return m.get_MA0()-m.get_MZ();}}); tg.push_back({"mse=msl3",[](const MSSMNoFV_onshell&m){return m.get_me2(1,1)-m.get_ml2(2,2);}});
    for(auto& pr: pars) for(auto& t: tg){
      // scan for sign change in p in [0.3 p0, 3 p0]
      P p=base; double p0=pr.ref(p); auto G=[&](double x, bool& ok){ P q=base; pr.ref(q)=x; try{ auto m=make(q); ok=true; return t.g(m);}catch(const Error&){ok=false; return 0.0;} };
      double lo=0,hi=0; bool found=false; double prevx=0, prevg=0; bool havep=false;
      for(int s=0;s<=40 && !found;s++){ double x=p0*std::pow(10.0,-0.5+s/40.0); bool ok; double g=G(x,ok); if(!ok){havep=false; continue;} if(havep && g*prevg<0){ lo=prevx; hi=x; found=true; } prevx=x; prevg=g; havep=true; }
      if(!found) continue;
      bool ok; double glo=G(lo,ok); for(int b=0;b<200;b++){ double mid=0.5*(lo+hi); if(mid==lo||mid==hi) break; double gm=G(mid,ok); if(!ok) break; if(gm*glo<=0) hi=mid; else {lo=mid; glo=gm;} }
      double x0=hi;
      auto at=[&](double d, double* v){ P q=base; pr.ref(q)=x0*(1+d); try{ auto m=make(q); comps(m,v); return true;}catch(const Error&){return false;} };
      double A[NC],B[NC]; if(!at(-1e-3,A)||!at(1e-3,B)) continue;
      for(int c=0;c<NC;c++){ std::string key=t.n+"@"+pr.n+":"+cn[c]; if(!std::isfinite(A[c])||!std::isfinite(B[c])){ fails[key+":nonfinite"]++; continue;} double mag=std::max(std::abs(A[c]),std::abs(B[c])); if(std::abs(A[c]-B[c])>0.2*mag) continue; tries[key]++;
        for(double d: ds){ double v[NC]; if(!at(d,v)) continue; double line=A[c]+(B[c]-A[c])*(d+1e-3)/2e-3; if(!(std::abs(v[c]-line)<=0.01*mag)){ fails[key]++; if(!ex.count(key)){ char buf[200]; snprintf(buf,200,"d=%.0e val=%.4e line=%.4e it=%d x0=%.6f",d,v[c],line,it,x0); ex[key]=buf;} break; } } }
    }
  }
  for(auto& f: fails) printf("%-40s fails %3d / %3d  %s\n", f.first.c_str(), f.second, tries[f.first], ex[f.first].c_str());
  printf("cells tried %zu failing %zu\n", tries.size(), fails.size());
}
