#include "gm2_ffunctions.hpp"
#include "gm2_dilog.hpp"
#include <boost/multiprecision/cpp_bin_float.hpp>
#include <cstdio>
#include <cmath>
#include <random>
#include <functional>
#include <vector>
#include <string>
namespace mp = boost::multiprecision;
using R = mp::number<mp::cpp_bin_float<120>>;
static R PI_() { static R p = boost::math::constants::pi<R>(); return p; }
// Li2 for real x via series / transformations at high precision
R li2_series(R x) { // |x| <= 0.5
  R s = 0, t = x; 
  for (int k = 1; k < 2000; ++k) { R term = t/(R(k)*k); s += term; if (abs(term) < R("1e-130")*abs(s) || term == 0) break; t *= x; }
  return s;
}
R li2(R x) {
  R pi = PI_();
  if (x == 0) return 0;
  if (x == 1) return pi*pi/6;
  if (x == -1) return -pi*pi/12;
  if (x > 2) { R l = log(x); return pi*pi/3 - l*l/2 - li2(1/x); } // real part
  if (x > 1) { R l = log(x); return pi*pi/6 - l*log(x-1) - li2(1-x); } // real part: Li2(x)+Li2(1-x)=pi^2/6 - ln x ln(1-x) -> Re with ln|1-x|
  if (x > R(0.5)) { return pi*pi/6 - log(x)*log(1-x) - li2(1-x); }
  if (x >= R(-0.5)) return li2_series(x);
  if (x >= -1) { // x in [-1,-0.5): Li2(x) = -Li2(x/(x-1)) - 0.5 ln^2(1-x)
    R l = log(1-x); return -li2(x/(x-1)) - l*l/2; }
  // x < -1
  { R l = log(-x); return -pi*pi/6 - l*l/2 - li2(1/x); }
}
// Cl2 via series: Cl2(t) = sum sin(k t)/k^2 converge slow; use Li2 complex? use formula: Cl2(t) = -int_0^t ln|2 sin(u/2)| du. Use series expansion: Cl2(t) = t - t ln|t| + sum_{n>=1} |B_2n| t^(2n+1)/(2n(2n+1)(2n)!)  for |t|<2pi
#include <boost/math/special_functions/bernoulli.hpp>
R cl2(R t) {
  R pi = PI_();
  R twopi = 2*pi;
  // reduce to [0, 2pi)
  R s = 1; if (t < 0) { t = -t; s = -1; }
  t = t - twopi*floor(t/twopi);
  if (t > pi) { t = twopi - t; s = -s; }
  if (t == 0 || t == pi) return 0;
  // for t in (0,pi]: use series around 0 if t <= pi/2... series converges for |t|<2pi; rate (t/2pi)^2n: at t=pi, 0.25^n -> 200 terms fine
  R sum = t - t*log(t);
  R t2 = t*t, tp = t*t2;
  for (int n = 1; n < 400; ++n) {
    R b = abs(boost::math::bernoulli_b2n<R>(n));
    R f = 1; for (int k = 2; k <= 2*n; ++k) f *= k;
    R term = b*tp/(R(2*n)*(2*n+1)*f);
    sum += term; if (term < R("1e-125")*abs(sum)) break; tp *= t2;
  }
  return s*sum;
}
R sqr(R x){return x*x;}
R fPS(R z) {
  if (z == 0) return 0;
  R pi = PI_();
  if (z < R(0.25)) { R y = sqrt(1-4*z); R q=(1+y)/(1-y); R lq = log(q);
     // 2z/y [Li2(1 - (1-y)/(2z)) - Li2(1-(1+y)/(2z))]
     return 2*z/y*(li2(1-(1-y)/(2*z)) - li2(1-(1+y)/(2*z))); }
  if (z == R(0.25)) return log(R(4));
  R y = sqrt(4*z-1); R theta = atan2(y, 2*z-1); return 4*z/y*cl2(theta);
}
R F1C(R x){ if (x==0) return 4; if (x==1) return 1; R d=x-1; return 2/(d*d*d*d)*(2+3*x-6*x*x+x*x*x+6*x*log(x)); }
R F2C(R x){ if (x==1) return 1; R d=1-x; return 3/(2*d*d*d)*(-3+4*x-x*x-2*log(x)); }
R F3C(R x){ if (x==1) return 1; R d=x-1; R lx=log(x); R x2=x*x; return 4/(141*d*d*d*d)*((1-x)*(151*x2-335*x+592)+6*(21*x*x2-108*x2-93*x+50)*lx-54*x*(x2-2*x-2)*lx*lx-108*x*(x2-2*x+12)*li2(1-x)); }
R F4C(R x){ if (x==1) return 1; R d=1-x; R lx=log(x); R x2=x*x; return -9/(122*d*d*d)*(8*(x2-3*x+2)+(11*x2-40*x+5)*lx-2*(x2-2*x-2)*lx*lx-4*(x2-2*x+9)*li2(1-x)); }
R F1N(R x){ if (x==0) return 2; if (x==1) return 1; R d=x-1; return 2/(d*d*d*d)*(1-6*x+3*x*x+2*x*x*x-6*x*x*log(x)); }
R F2N(R x){ if (x==0) return 3; if (x==1) return 1; R d=1-x; return 3/(d*d*d)*(1-x*x+2*x*log(x)); }
R F3N(R x){ if (x==0) return R(8)/105; if (x==1) return 1; R d=x-1; R x2=x*x; return 4/(105*d*d*d*d)*((1-x)*(-97*x2-529*x+2)+6*x2*(13*x+81)*log(x)+108*x*(7*x+4)*li2(1-x)); }
R F4N(R x){ R pi=PI_(); if (x==0) return -R(3)/4*(pi*pi-9); if (x==1) return 1; R d=1-x; return -R(9)/4/(d*d*d)*((x+3)*(x*log(x)+x-1)+(6*x+2)*li2(1-x)); }
R G3(R x){ if (x==1) return R(1)/3; R d=x-1; return ((x-1)*(x-3)+2*log(x))/(2*d*d*d); }
R G4(R x){ if (x==1) return R(1)/6; R d=x-1; return ((x-1)*(x+1)-2*x*log(x))/(2*d*d*d); }
R fS(R z){ if (z==0) return 0; return (2*z-1)*fPS(z)-2*z*(2+log(z)); }
R fsferm(R z){ if (z==0) return 0; return z/2*(2+log(z)-fPS(z)); }
R fCSl(R z){ if (z==0) return 0; R pi=PI_(); return z*(z+z*(z-1)*(li2(1-1/z)-pi*pi/6)+(z-R(0.5))*log(z)); }
R F1(R w){ if (w==0) return 0; return (w-R(0.5))*fPS(w)-w*(2+log(w)); }
R F1t(R w){ return fPS(w)/2; }
R F2(R w){ return 1+(log(w)-fPS(w))/2; }
R F3(R w){ return (R(0.5)+R(7.5)*w)*(2+log(w))+(R(4.25)-R(7.5)*w)*fPS(w); }
struct Fn { const char* name; std::function<double(double)> f; std::function<R(R)> r; };
int main(){
  std::vector<Fn> fns = {
   {"F1C",gm2calc::F1C,F1C},{"F2C",gm2calc::F2C,F2C},{"F3C",gm2calc::F3C,F3C},{"F4C",gm2calc::F4C,F4C},
   {"F1N",gm2calc::F1N,F1N},{"F2N",gm2calc::F2N,F2N},{"F3N",gm2calc::F3N,F3N},{"F4N",gm2calc::F4N,F4N},
   {"G3",gm2calc::G3,G3},{"G4",gm2calc::G4,G4},{"f_PS",gm2calc::f_PS,fPS},{"f_S",gm2calc::f_S,fS},{"f_sferm",gm2calc::f_sferm,fsferm},
   {"f_CSl",gm2calc::f_CSl,fCSl},{"F1",gm2calc::F1,F1},{"F1t",gm2calc::F1t,F1t},{"F2",gm2calc::F2,F2},{"F3",gm2calc::F3,F3},
   {"dilog",[](double x){return gm2calc::dilog(x);},li2},{"Cl2",gm2calc::clausen_2,cl2}};
  std::mt19937_64 rng(1);
  std::uniform_real_distribution<double> U(0,1);
  for (auto& fn : fns) {
    double worst=0, wx=0; int n=0; double worst_mid=0, wxm=0;
    for (int i=0;i<60000;++i) {
      double x; int mode = i%6;
      if (mode==0) x = std::pow(10.0, -14 + 26*U(rng));
      else if (mode==1) { double e = std::pow(10.0,-13+12.5*U(rng)); x = 1 + (U(rng)<0.5?-1:1)*e; }
      else if (mode==2) { double e = std::pow(10.0,-13+12.5*U(rng)); x = 0.25*(1 + (U(rng)<0.5?-1:1)*e); }
      else if (mode==3) x = 1 + (U(rng)<0.5?-1:1)*(0.02+0.08*U(rng));
      else if (mode==4) x = 100*(1+ (U(rng)-0.5)*0.2);
      else x = std::pow(10.0, -3 + 6*U(rng));
      if (std::string(fn.name)=="dilog"||std::string(fn.name)=="Cl2") { if (U(rng)<0.5) x=-x; }
      double v = fn.f(x); R ref = fn.r(R(x));
      double rd = (double)ref; double err = std::abs(v-rd)/std::max(std::abs(rd),1e-300);
      if (!(err<=worst)) { worst=err; wx=x; }
      ++n;
    }
    printf("%-8s worst rel err %.3e at x=%.17g (val %.6e)\n", fn.name, worst, wx, fn.f(wx));
  }
}
