#include "gm2_ffunctions.hpp"
#include <cstdio>
#include <cmath>
// f_PS small z: true = z*(pi^2/3 + log^2 z) + z^2*(...)...
int main(){
  const double pi23=3.2898681336964529;
  for (double z=1e-17; z<1e-6; z*=1.7783) {
    double lz=std::log(z);
    // series: f_PS(z) = z(pi^2/3 + lz^2) + z^2 (2 pi^2/3 ... ) use next order: known expansion: f_PS = z[pi^2/3+ln^2 z] + 2 z^2 [pi^2/3 + ln^2 z + 2 ln z] +O(z^3)? approximate
    double lead = z*(pi23+lz*lz);
    double v = gm2calc::f_PS(z);
    printf("z=%.3e f_PS=%.10e lead=%.10e rel=%.3e\n", z, v, lead, (v-lead)/lead);
  }
}
