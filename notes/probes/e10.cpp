#include "gm2calc/THDM.hpp"
#include "gm2calc/MSSMNoFV_onshell.hpp"
#include "gm2calc/gm2_1loop.hpp"
#include "gm2calc/gm2_2loop.hpp"
#include "gm2calc/gm2_uncertainty.hpp"
#include "gm2calc/gm2_error.hpp"
#include <thread>
#include <vector>
#include <cstdio>
#include <cstring>
using namespace gm2calc;
MSSMNoFV_onshell mk(int i){ MSSMNoFV_onshell m; m.set_TB(10+i); m.set_Mu(350+i); m.set_MassB(150); m.set_MassWB(300); m.set_MassG(1000); Eigen::Matrix<double,3,3> I=Eigen::Matrix<double,3,3>::Identity(); m.set_mq2(250000*I); m.set_ml2(250000*I); m.set_md2(250000*I); m.set_mu2(250000*I); m.set_me2(250000*I); m.set_MA0(1500); m.set_scale(454.7); m.calculate_masses(); return m; }
int main(){
  MSSMNoFV_onshell shared = mk(0);
  thdm::Mass_basis b; b.mh=125; b.mH=400; b.mA=420; b.mHp=440; b.sin_beta_minus_alpha=0.995; b.tan_beta=3; b.m122=40000; b.lambda_6=0.2; b.lambda_7=0.1;
  THDM sharedT(b);
  double ref = calculate_amu_1loop(shared)+calculate_amu_2loop(shared)+calculate_uncertainty_amu_2loop(shared);
  double refT = calculate_amu_1loop(sharedT)+calculate_amu_2loop(sharedT)+calculate_uncertainty_amu_2loop(sharedT);
  std::vector<std::thread> ts; int bad=0;
  for(int t=0;t<8;t++) ts.emplace_back([&,t]{ for(int i=0;i<200;i++){ auto m=mk(i%7); double a=calculate_amu_1loop(m)+calculate_amu_2loop(m); (void)a; double r=calculate_amu_1loop(shared)+calculate_amu_2loop(shared)+calculate_uncertainty_amu_2loop(shared); if(std::memcmp(&r,&ref,8)) __atomic_fetch_add(&bad,1,__ATOMIC_RELAXED); thdm::Mass_basis bb=b; bb.mA=420+i; THDM mt(bb); double rt=calculate_amu_1loop(sharedT)+calculate_amu_2loop(sharedT)+calculate_uncertainty_amu_2loop(sharedT); if(std::memcmp(&rt,&refT,8)) __atomic_fetch_add(&bad,1,__ATOMIC_RELAXED); MSSMNoFV_onshell c(shared); c.get_physical(); try{ c.convert_to_onshell(); }catch(...){} } });
  for(auto& t:ts) t.join();
  printf("bad=%d\n", bad);
}
