#include "gm2_ffunctions.hpp"
#include "ff_new.hpp"
#include <cstdio>
#include <cmath>
int main(){ const double mu[3]={0.0022,1.28,173.34}, md[3]={0.0047,0.096,4.18}; const double mw=80.385;
  double worst[3][3]={{0}}, wms[3][3]={{0}}; double worstu[3][3]={{0}};
  for(int i=0;i<=4000;i++){ double ms=50*std::pow(100.0,i/4000.0); for(int a=0;a<3;a++) for(int b=0;b<3;b++){ double xu=mu[a]*mu[a]/(ms*ms), xd=md[b]*md[b]/(ms*ms), yu=mu[a]*mu[a]/(mw*mw), yd=md[b]*md[b]/(mw*mw);
     double o=gm2calc::FCWd(xu,xd,yu,yd,2./3,-1./3), n=gm2new::FCWd(xu,xd,yu,yd,2./3,-1./3); double e=std::abs(o-n)/std::abs(n); if(e>worst[a][b]){worst[a][b]=e; wms[a][b]=ms;}
     double ou=gm2calc::FCWu(xu,xd,yu,yd,2./3,-1./3), nu=gm2new::FCWu(xu,xd,yu,yd,2./3,-1./3); double eu=std::abs(ou-nu)/std::abs(nu); if(eu>worstu[a][b]) worstu[a][b]=eu; } }
  for(int a=0;a<3;a++) for(int b=0;b<3;b++) printf("u%d d%d: FCWd old-vs-new worst %.2e at mHp=%.1f ; FCWu %.2e\n",a,b,worst[a][b],wms[a][b],worstu[a][b]); }
