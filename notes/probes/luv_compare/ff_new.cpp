// ====================================================================
// This file is part of GM2Calc.
//
// GM2Calc is free software: you can redistribute it and/or modify
// it under the terms of the GNU General Public License as published
// by the Free Software Foundation, either version 3 of the License,
// or (at your option) any later version.
//
// GM2Calc is distributed in the hope that it will be useful, but
// WITHOUT ANY WARRANTY; without even the implied warranty of
// MERCHANTABILITY or FITNESS FOR A PARTICULAR PURPOSE.  See the GNU
// General Public License for more details.
//
// You should have received a copy of the GNU General Public License
// along with GM2Calc.  If not, see
// <http://www.gnu.org/licenses/>.
// ====================================================================

#include "ff_new.hpp"
#include "gm2_dilog.hpp"
#include "gm2_log.hpp"
#include "gm2_numerics.hpp"

#include <algorithm>
#include <cmath>
#include <limits>
#include <tuple>

namespace gm2new {
using gm2calc::dilog; using gm2calc::clausen_2; using gm2calc::is_zero; using gm2calc::is_equal_rel; using gm2calc::sqr; using gm2calc::pow3; using gm2calc::pow4;

namespace {
   constexpr double eps = 10.0*std::numeric_limits<double>::epsilon();
   const double qdrt_eps = std::pow(eps, 0.25);

   /// shift values symmetrically away from equality, if they are close
   void shift(double& x, double& y, double rel_diff) noexcept
   {
      if (is_equal_rel(x, y, rel_diff)) {
         const double mid = 0.5*std::abs(y + x);
         if (x < y) {
            x = (1 - rel_diff)*mid;
            y = (1 + rel_diff)*mid;
         } else {
            x = (1 + rel_diff)*mid;
            y = (1 - rel_diff)*mid;
         }
      }
   }

   void sort(double& x, double& y) noexcept
   {
      if (x > y) { std::swap(x, y); }
   }

   void sort(double& x, double& y, double& z) noexcept
   {
      if (x > y) { std::swap(x, y); }
      if (y > z) { std::swap(y, z); }
      if (x > y) { std::swap(x, y); }
   }

   /// calculates phi(xd, xu, 1)/y with y = (xu - xd)^2 - 2*(xu + xd) + 1,
   /// properly handle the case y = 0
   double phi_over_y(double xu, double xd) noexcept
   {
      const double sqrtxd = std::sqrt(xd);
      const double ixd = 1/xd;
      constexpr double eps = 1e-8;

      // test two cases where y == 0
      if (std::abs((xu - 1)*ixd + 2/sqrtxd - 1) < eps) {
         return -std::log(std::abs(-1 + sqrtxd))/sqrtxd + std::log(xd)/(2*(-1 + sqrtxd));
      } else if (std::abs((xu - 1)*ixd - 2/sqrtxd - 1) < eps) {
         return std::log(1 + sqrtxd)/sqrtxd - std::log(xd)/(2*(1 + sqrtxd));
      }

      const double y = sqr(xu - xd) - 2*(xu + xd) + 1;
      const double phi = Phi(xd, xu, 1);

      return phi/y;
   }

   /// lambda^2(u,v)
   double lambda_2(double u, double v) noexcept
   {
      return sqr(1 - u - v) - 4*u*v;
   }

   /// expansion of (1 - lambda + u - v)/2 for u ~ v ~ 0 up to including O(u^3 v^3)
   double l00(double u, double v) noexcept
   {
      return v*(1 + u*(1 + u*(1 + u)) + v*(u*(1 + u*(3 + 6*u)) + u*(1 + u*(6 + 20*u))*v));
   }

   /// expansion of (1 - lambda + u - v)/2 for u ~ 0 and v < 1 up to including O(u^3 v^3)
   double l0v(double u, double v) noexcept
   {
      const double a = 1 - v;
      const double a2 = a*a;
      const double a3 = a2*a;
      return u*(0.5*(1 + (1 + v)/a) + u*(v + u*v*(1 + v)/a2)/a3);
   }

   /// expansion of (1 - lambda - u + v)/2 for u ~ 0 and v < 1 up to including O(u^3 v^3)
   double lv0(double u, double v) noexcept
   {
      const double a = 1 - v;
      const double a2 = a*a;
      const double a3 = a2*a;
      return v + u*(0.5*(-1 + (1 + v)/a) + u*(v + u*v*(1 + v)/a2)/a3);
   }

   /// returns tuple (0.5*(1 - lambda + u - v), 0.5*(1 - lambda - u + v))
   std::tuple<double,double> luv(double lambda, double u, double v) noexcept
   {
      return std::make_tuple(2*u/(1 + lambda + u - v), 2*v/(1 + lambda - u + v));
   }

   /// u < 1 && v < 1, lambda^2(u,v) > 0; note: phi_pos(u,v) = phi_pos(v,u)
   double phi_pos(double u, double v) noexcept
   {
      if (is_equal_rel(u, 1.0, eps) && is_equal_rel(v, 1.0, eps)) {
         return 2.343907238689459;
      }

      const double pi23 = 3.2898681336964529; // Pi^2/3
      const auto lambda = std::sqrt(lambda_2(u,v));

      if (is_equal_rel(u, v, eps)) {
         const double x = u < qdrt_eps ? u*(1 + u*(1 + u*(2 + 5*u))) : 0.5*(1 - lambda);

         return (- sqr(std::log(u)) + 2*sqr(std::log(x))
                 - 4*dilog(x) + pi23)/lambda;
      }

      double x = 0, y = 0;
      std::tie(x, y) = luv(lambda, u, v);

      return (- std::log(u)*std::log(v) + 2*std::log(x)*std::log(y)
              - 2*dilog(x) - 2*dilog(y) + pi23)/lambda;
   }

   /// clausen_2(2*acos(x))
   double cl2acos(double x) noexcept
   {
      return clausen_2(2*std::acos(x));
   }

   /// lambda^2(u,v) < 0, u = 1
   double phi_neg_1v(double v) noexcept
   {
      return 2*(cl2acos(1 - 0.5*v) + 2*cl2acos(0.5*std::sqrt(v)));
   }

   /// lambda^2(u,v) < 0; note: phi_neg(u,v) = phi_neg(v,u)
   double phi_neg(double u, double v) noexcept
   {
      if (is_equal_rel(u, 1.0, eps) && is_equal_rel(v, 1.0, eps)) {
         // -I/9 (Pi^2 - 36 PolyLog[2, (1 - I Sqrt[3])/2])/Sqrt[3]
         return 2.343907238689459;
      }

      const auto lambda = std::sqrt(-lambda_2(u,v));

      if (is_equal_rel(u, v, eps)) {
         return 4*clausen_2(2*std::asin(std::sqrt(0.25/u)))/lambda;
      }

      if (is_equal_rel(u, 1.0, eps)) {
         return phi_neg_1v(v)/lambda;
      }

      if (is_equal_rel(v, 1.0, eps)) {
         return phi_neg_1v(u)/lambda;
      }

      const auto sqrtu = std::sqrt(u);
      const auto sqrtv = std::sqrt(v);

      return 2*(+ cl2acos(0.5*(1 + u - v)/sqrtu)
                + cl2acos(0.5*(1 - u + v)/sqrtv)
                + cl2acos(0.5*(-1 + u + v)/(sqrtu*sqrtv)))/lambda;
   }

   /**
    * Phi(u,v) with u = x/z, v = y/z.
    *
    * The following identities hold:
    * Phi(u,v) = Phi(v,u) = Phi(1/u,v/u)/u = Phi(1/v,u/v)/v
    */
   double phi_uv(double u, double v) noexcept
   {
      const auto lambda = lambda_2(u,v);

      if (is_zero(lambda, eps)) {
         // phi_uv is always multiplied by lambda.  So, in order to
         // avoid nans if lambda == 0, we simply return 0
         return 0.0;
      }

      if (lambda > 0.) {
         if (u <= 1 && v <= 1) {
            return phi_pos(u,v);
         }
         const auto vou = v/u;
         if (u >= 1 && vou <= 1) {
            const auto oou = 1/u;
            return phi_pos(oou,vou)*oou;
         }
         // v >= 1 && u/v <= 1
         const auto oov = 1/v;
         return phi_pos(oov,1/vou)*oov;
      }

      return phi_neg(u,v);
   }

} // anonymous namespace

double F1C(double x) noexcept {
   if (is_zero(x, eps)) {
      return 4.0;
   }

   const double d = x - 1.0;

   if (is_equal_rel(x, 1.0, 0.03)) {
      return 1.0 + d*(-0.6 + d*(0.4 + d*(-2.0/7.0
         + d*(3.0/14.0 + d*(-1.0/6.0
         + 2.0/15.0*d)))));
   }

   return 2.0/pow4(d)*(2.0 + x*(3.0 + 6.0*std::log(x) + x*(-6.0 + x)));
}

double F2C(double x) noexcept {
   if (is_zero(x, eps)) {
      return 0.0;
   }

   if (is_equal_rel(x, 1.0, 0.03)) {
      const double d = x - 1.0;

      return 1.0 + d*(-0.75 + d*(0.6 + d*(-0.5 + d*(3.0/7.0
         + d*(-0.375 + 1.0/3.0*d)))));
   }

   return 3.0/(2.0*pow3(1.0 - x))*(-3.0 - 2.0*std::log(x) + x*(4.0 - x));
}

double F3C(double x) noexcept {
   const double d = x - 1.0;

   if (is_equal_rel(x, 1.0, 0.03)) {
      return 1.0
         + d*(1059.0/1175.0
         + d*(-4313.0/3525.0
         + d*(70701.0/57575.0
         + d*(-265541.0/230300.0
         + d*(+48919.0/46060.0
         - 80755.0/82908.0*d)))));
   }

   const double lx = std::log(x);
   const double x2 = sqr(x);

   return 4.0/(141.0*pow4(d)) * (
      + (1.0 - x) * (151.0 * x2 - 335.0 * x + 592.0)
      + 6.0 * (21.0 * pow3(x) - 108.0 * x2 - 93.0 * x + 50.0) * lx
      - 54.0 * x * (x2 - 2.0 * x - 2.0) * sqr(lx)
      - 108.0 * x * (x2 - 2.0 * x + 12.0) * dilog(1.0 - x)
      );
}

double F4C(double x) noexcept {
   if (is_zero(x, eps)) {
      return 0.0;
   }

   if (is_equal_rel(x, 1.0, 0.03)) {
      const double d = x - 1.0;

      return 1.0
         + d*(-45.0/122.0
         + d*(941.0/6100.0
         + d*(-17.0/305.0
         + d*(+282.0/74725.0
         + d*(+177.0/6832.0 - 47021.0/1076040.0*d)))));
   }

   const double lx = std::log(x);
   const double x2 = sqr(x);

   return -9.0/(122.0 * pow3(1.0 - x)) * (
      + 8.0 * (x2 - 3.0 * x + 2.0)
      + (11.0 * x2 - 40.0 * x + 5.0) * lx
      - 2.0 * (x2 - 2.0 * x - 2.0) * sqr(lx)
      - 4.0 * (x2 - 2.0 * x + 9.0) * dilog(1.0 - x)
      );
}

double F1N(double x) noexcept {
   if (is_zero(x, eps)) {
      return 2.0;
   }

   const double d = x - 1.0;

   if (is_equal_rel(x, 1.0, 0.03)) {
      return 1.0 + d*(-0.4 + d*(0.2 + d*(-4.0/35.0
         + d*(1.0/14.0 + d*(-1.0/21.0 + 1.0/30.0*d)))));
   }

   return 2.0/pow4(d)*(1.0 + x*(-6.0 + x*(+3.0 - 6.0 * std::log(x) + 2.0 * x)));
}

double F2N(double x) noexcept {
   if (is_zero(x, eps)) {
      return 3.0;
   }

   if (is_equal_rel(x, 1.0, 0.04)) {
      const double d = x - 1.0;

      return 1. + d*(-0.5 + d*(0.3 + d*(-0.2
         + d*(1.0/7.0 + d*(-3.0/28.0 + 1.0/12.0*d)))));
   }

   return 3.0/pow3(1.0 - x) * (1.0 + x*(2.0 * std::log(x) - x));
}

double F3N(double x) noexcept {
   if (is_zero(x, eps)) {
      return 8.0/105.0;
   }

   const double d = x - 1.0;

   if (is_equal_rel(x, 1.0, 0.03)) {
      return 1.0 + d*(76/875.0 + d*(-431/2625.0 + d*(5858/42875.0
         + d*(-3561/34300.0 + d*(23/294.0 - 4381/73500.0*d)))));
   }

   const double x2 = sqr(x);

   return 4.0/105.0/pow4(d) * (
      + (1.0 - x) * (-97.0 * x2 - 529.0 * x + 2.0)
      + 6.0 * x2 * (13.0 * x + 81.0) * std::log(x)
      + 108.0 * x * (7.0 * x + 4.0) * dilog(1.0 - x)
      );
}

double F4N(double x) noexcept {
   const double PI2 = 9.8696044010893586; // Pi^2

   if (is_zero(x, eps)) {
      return -3.0/4.0*(-9.0 + PI2);
   }

   if (is_equal_rel(x, 1.0, 0.03)) {
      const double d = x - 1.0;

      return 1.0 + sqr(d)*(-111.0/800.0 + d*(59.0/400.0 + d*(-129.0/980.0
         + d*(177.0/1568.0 - 775.0/8064.0*d))));
   }

   return -2.25/pow3(1.0 - x) * (
      + (x + 3.0) * (x * std::log(x) + x - 1.0)
      + (6.0 * x + 2.0) * dilog(1.0 - x)
      );
}

namespace {

/// expansion of Fb(x,y) around x ~ 1 and y ~ 1 up to including O((x-1)^2 (y-1)^2)
double Fb11(double x, double y) noexcept {
   const double x1 = x - 1;
   const double y1 = y - 1;

   return
      + 1.0/12 + (-0.05 + 1.0/30*y1)*y1
      + x1*(-0.05 + (1.0/30 - 1.0/42*y1)*y1
      + x1*(1.0/30 + (-1.0/42 + 1.0/56*y1)*y1));
}

/// expansion of Fb(x,y) around y ~ x, x != 0
double Fbx(double x, double y) noexcept {
   if (is_equal_rel(x, 1.0, 1e-2)) {
      const double d = x - 1;
      return 1.0/12 + d*(-0.1 + d*(0.1 + d*(-2.0/21 + d*(5.0/56 + d*(-1.0/12 + d*(7.0/90 - 4.0/55*d))))));
   }

   const double x1 = x - 1.0;
   const double d = y - x;
   const double lx = std::log(x);
   const double x14 = pow4(x1);
   const double x15 = x14*x1;
   const double x16 = x15*x1;

   return (-5 - 2*lx + x*(4 - 4*lx + x))/(2*x14)
      - d*(-1 + x*(-9 - 6*lx + x*(9 - 6*lx + x)))/(2*x15*x)
      - sqr(d)*(-1 + x*(12 + x*(36 + 36*lx + x*(-44 + 24*lx - 3*x))))/(6*x16*sqr(x));
}

} // anonymous namespace

double Fb(double x, double y) noexcept {
   if (x < 0 || y < 0) {
      ERROR("Fb: x and y must not be negative!");
      return std::numeric_limits<double>::quiet_NaN();
   }

   sort(x, y);

   if (is_zero(y, eps)) {
      return 0;
   }

   if (is_equal_rel(x, 1.0, 1e-4) && is_equal_rel(y, 1.0, 1e-4)) {
      return Fb11(x, y);
   }

   if (is_equal_rel(x, y, 1e-5)) {
      return Fbx(x, y);
   }

   return (G4(y) - G4(x))/(x - y);
}

namespace {

/// expansion of Fa(x,y) around x ~ 1 and y ~ 1 up to including O((x-1)^2 (y-1)^2)
double Fa11(double x, double y) noexcept {
   const double x1 = x - 1;
   const double y1 = y - 1;

   return
      0.25 + (-0.2 + 1.0/6*y1)*y1
      + x1*(-0.2 + (1.0/6 - 1.0/7*y1)*y1
      + x1*(1.0/6 + (-1.0/7 + 1.0/8*y1)*y1));
}

/// expansion of Fa(x,y) around y ~ x, x != 0
double Fax(double x, double y) noexcept {
   if (is_equal_rel(x, 1.0, 1e-2)) {
      const double d = x - 1;
      return 0.25 + d*(-0.4 + d*(0.5 + d*(-4.0/7 + d*(5.0/8 + d*(-2./3 + d*(0.7 - 8.0/11*d))))));
   }

   const double x1 = x - 1.0;
   const double d = y - x;
   const double lx = std::log(x);
   const double x14 = pow4(x1);
   const double x15 = x14*x1;
   const double x16 = x15*x1;
   const double x2 = sqr(x);
   const double x3 = x2*x;

   return (2 + x*(3 + 6*lx + x*(-6 + x)))/(2*x14*x)
      - d*(-1 + x*(8 + x*(12*lx + x*(-8 + x))))/(2*x15*x2)
      - sqr(d)*(-2 + x*(15 + x*(-60 + x*(20 - 60*lx + x*(30 - 3*x)))))/(6*x16*x3);
}

} // anonymous namespace

double Fa(double x, double y) noexcept {
   if (x < 0 || y < 0) {
      ERROR("Fa: x and y must not be negative!");
      return std::numeric_limits<double>::quiet_NaN();
   }

   sort(x, y);

   if (is_zero(y, eps)) {
      return 0;
   }

   if (is_equal_rel(x, 1.0, 1e-4) && is_equal_rel(y, 1.0, 1e-4)) {
      return Fa11(x,y);
   }

   if (is_equal_rel(x, y, 1e-5)) {
      return Fax(x,y);
   }

   return (G3(y) - G3(x))/(x - y);
}

double G3(double x) noexcept {
   if (is_equal_rel(x, 1.0, 1e-2)) {
      const double d = x - 1;
      return 1.0/3 + d*(-0.25 + d*(0.2 + d*(-1.0/6 + d*(1.0/7 + d*(-1.0/8
         + d*(1.0/9 + d*(-0.1 + 1.0/11*d)))))));
   }

   return ((x - 1)*(x - 3) + 2*std::log(x))/(2*pow3(x - 1));
}

double G4(double x) noexcept {
   if (is_equal_rel(x, 1.0, 1e-2)) {
      const double d = x - 1;
      return 1.0/6 + d*(-1.0/12 + d*(0.05 + d*(-1.0/30 + d*(1.0/42
         + d*(-1.0/56 + d*(1.0/72 + d*(-1.0/90 + 1.0/110*d)))))));
   }

   return ((x - 1)*(x + 1) - 2*x*std::log(x))/(2*pow3(x - 1));
}

namespace {

/// Ixy(0,y), squared arguments, y != 0
double I0y(double y) noexcept {
   if (is_equal_rel(y, 1.0, eps)) {
      const double d = y - 1;
      return 1 + d*(-0.5 + 1./3*d);
   }

   return std::log(y)/(y - 1);
}

/// I(x,y), squared arguments, x == 1, y != 0
double I1y(double x, double y) noexcept {
   const double dy = y - 1;
   const double dy2 = sqr(dy);
   const double dx = (x - 1)/dy2;
   const double y2 = sqr(y);
   const double yly = y*std::log(y);

   return (1 - y + yly)/dy2
      + dx*(0.5 - 0.5*y2 + yly)/dy
      + sqr(dx)*(1./3 + 0.5*y + yly + y2*(1./6*y - 1));
}

/// I(x,y), squared arguments, x == y, x != 0, y != 0
double Ixx(double x, double y) noexcept {
   const double eps_eq = 0.0001;

   if (is_equal_rel(y, 1.0, eps_eq)) {
      const double dx = x - 1;
      const double dy = y - 1;
      const double dy2 = sqr(dy);

      return 0.5 + dx*(-1./6 + 1./12*dy - 1./20*dy2)
         + sqr(dx)*(1./12 - 1./20*dy + 1./30*dy2)
         - 1./6*dy + 1./12*dy2;
   }

   const double y2 = sqr(y);
   const double dy = y - 1;
   const double dy2 = sqr(dy);
   const double dxy = (x - y)/dy2;
   const double ly = std::log(y);

   return (dy - ly)/dy2
      + dxy*(0.5 - 0.5*y2 + y*ly)/(dy*y)
      + sqr(dxy)*(1./6 - y + y2*(0.5 + 1./3*y - ly))/y2;
}

/// I(x,y), x < y, x and y are squared arguments
double Ixy(double x, double y) noexcept {
   const double eps_eq = 0.0001;

   if (is_zero(y, eps)) {
      return 0;
   }

   if (is_zero(x, eps)) {
      return I0y(y);
   }

   if (is_equal_rel(x/y, 1.0, eps_eq)) {
      return Ixx(x, y);
   }

   if (is_equal_rel(x, 1.0, eps_eq)) {
      return I1y(x, y);
   }

   if (is_equal_rel(y, 1.0, eps_eq)) {
      return I1y(y, x);
   }

   const double lx = std::log(x);
   const double ly = std::log(y);

   return (x*(y - 1)*lx - y*(x - 1)*ly)/((x - 1)*(x - y)*(y - 1));
}

/// I(x,y,z), x, y and z are squared arguments
double Ixyz(double x, double y, double z) noexcept {
   sort(x, y, z);

   if (is_zero(z, eps)) {
      return 0;
   }

   return Ixy(x/z, y/z)/z;
}

} // anonymous namespace

double Iabc(double a, double b, double c) noexcept {
   return Ixyz(sqr(a), sqr(b), sqr(c));
}

/**
 * Calculates \f$f_{PS}(z)\f$, Eq (70) arXiv:hep-ph/0609168
 * @author Alexander Voigt
 */
double f_PS(double z) noexcept {
   if (z < 0.0) {
      ERROR("f_PS: z must not be negative!");
      return std::numeric_limits<double>::quiet_NaN();
   } else if (z == 0.0) {
      return 0.0;
   } else if (z < std::numeric_limits<double>::epsilon()) {
      const double pi23 = 3.2898681336964529; // Pi^2/3
      const double lz = std::log(z);
      return z*(pi23 + lz*lz);
   } else if (z < 0.25) {
      const double y = std::sqrt(1 - 4*z); // 0 < y < 1
      const double c = -9.8696044010893586; // -Pi^2
      const double q = (1 + y)/(1 - y);
      const double lq = std::log(q);
      return z/y*(4*dilog(1 + q) - lq*(2*std::log(z) - lq) + c);
   } else if (z == 0.25) {
      return 1.3862943611198906; // Log[4]
   }

   // z > 0.25
   const double y = std::sqrt(-1 + 4*z);
   const double theta = std::atan2(y, 2*z - 1);
   return 4*z/y*clausen_2(theta);
}

/**
 * Calculates \f$f_S(z)\f$, Eq (71) arXiv:hep-ph/0609168
 */
double f_S(double z) noexcept {
   if (z < 0.0) {
      ERROR("f_S: z must not be negative!");
      return std::numeric_limits<double>::quiet_NaN();
   } else if (z == 0.0) {
      return 0.0;
   } if (z > 1e2) {
      const double lz = std::log(z);
      const double iz = 1/z;
      return (-13./9 - 2./3*lz) + iz*(-26./150 - 15./150*lz
         + iz*(-673./22050 - 420./22050*lz + iz*(-971./158760 - 630./158760*lz)));
   }

   return (2*z - 1)*f_PS(z) - 2*z*(2 + std::log(z));
}

/**
 * Calculates \f$f_{\tilde{f}}(z)\f$, Eq (72) arXiv:hep-ph/0609168
 */
double f_sferm(double z) noexcept {
   if (z < 0.0) {
      ERROR("f_sferm: z must not be negative!");
      return std::numeric_limits<double>::quiet_NaN();
   } else if (z == 0.0) {
      return 0.0;
   }

   return 0.5*z*(2 + std::log(z) - f_PS(z));
}

/**
 * Calculates Barr-Zee 2-loop function for diagram with lepton loop
 * and charged Higgs and W boson mediators, Eq (60), arxiv:1607.06292,
 * with extra global prefactor z.
 */
double f_CSl(double z) noexcept {
   if (z < 0.0) {
      ERROR("f_CSl: z must not be negative!");
      return std::numeric_limits<double>::quiet_NaN();
   } else if (z == 0) {
      return 0.0;
   }

   constexpr double pi26 = 1.6449340668482264;

   return z*(z + z*(z - 1)*(dilog(1 - 1/z) - pi26) + (z - 0.5)*std::log(z));
}

/**
 * Eq (61), arxiv:1607.06292, with extra global prefactor xd
 *
 * @note There is a misprint in Eq (61), arxiv:1607.06292v2: There
 * should be no Phi function in the 2nd line of (61).
 */
double f_CSd(double xu, double xd, double qu, double qd) noexcept
{
   if (xd < 0.0 || xu < 0.0) {
      ERROR("f_CSd: xu and xd must not be negative!");
      return std::numeric_limits<double>::quiet_NaN();
   } else if (xd == 0.0) {
      return 0.0;
   }

   const double s = 0.25*(qu + qd);
   const double c = sqr(xu - xd) - qu*xu + qd*xd;
   const double cbar = (xu - qu)*xu - (xd + qd)*xd;
   const double lxu = std::log(xu);
   const double lxd = std::log(xd);
   const double phiy = phi_over_y(xu, xd);

   return xd*(-(xu - xd) + (cbar - c*(xu - xd)) * phiy
              + c*(dilog(1.0 - xd/xu) - 0.5*lxu*(lxd - lxu))
              + (s + xd)*lxd + (s - xu)*lxu);
}

/// Eq (62), arxiv:1607.06292, with extra global prefactor xu
double f_CSu(double xu, double xd, double qu, double qd) noexcept
{
   if (xd < 0.0 || xu < 0.0) {
      ERROR("f_CSu: xu and xd must not be negative!");
      return std::numeric_limits<double>::quiet_NaN();
   }

   const double s = 1 + 0.25*(qu + qd);
   const double c = sqr(xu - xd) - (qu + 2)*xu + (qd + 2)*xd;
   const double cbar = (xu - qu - 2)*xu - (xd + qd + 2)*xd;
   const double lxu = std::log(xu);
   const double lxd = std::log(xd);
   const double phiy = phi_over_y(xu, xd);
   const double fCSd = -(xu - xd) + (cbar - c*(xu - xd)) * phiy
      + c*(dilog(1.0 - xd/xu) - 0.5*lxu*(lxd - lxu))
      + (s + xd)*lxd + (s - xu)*lxu;

   return xu*(fCSd - 4.0/3*(xu - xd - 1)*phiy
              - 1.0/3*(lxd + lxu)*(lxd - lxu));
}

/**
 * \f$\mathcal{F}_1(\omega)\f$, Eq (25) arxiv:1502.04199
 */
double F1(double w) noexcept {
   if (w < 0.0) {
      ERROR("F1: w must not be negative!");
      return std::numeric_limits<double>::quiet_NaN();
   } else if (w == 0.0) {
      return 0.0;
   } else if (w == 0.25) {
      return -0.5;
   }

   return (w - 0.5)*f_PS(w) - w*(2 + std::log(w));
}

/**
 * \f$\tilde{\mathcal{F}}_1(\omega)\f$, Eq (26) arxiv:1502.04199
 */
double F1t(double w) noexcept {
   return 0.5*f_PS(w);
}

/**
 * \f$\mathcal{F}_2(\omega)\f$, Eq (27) arxiv:1502.04199
 */
double F2(double w) noexcept {
   if (w < 0.0) {
      ERROR("F2: w must not be negative!");
      return std::numeric_limits<double>::quiet_NaN();
   } else if (w == 0.25) {
      return -0.38629436111989062; // 1 - Log[4]
   }

   return 1 + 0.5*(std::log(w) - f_PS(w));
}

/**
 * \f$\mathcal{F}_3(\omega)\f$, Eq (28) arxiv:1502.04199
 * @author Alexander Voigt
 */
double F3(double w) noexcept {
   if (w < 0.0) {
      ERROR("F3: w must not be negative!");
      return std::numeric_limits<double>::quiet_NaN();
   } else if (w == 0.25) {
      return 19.0/4.0;
   } if (w >= 1e2) {
      const double lw = std::log(w);
      const double iw = 1/w;
      return 89./12 + 42./12*lw + iw*(284./360 + 165./360*lw
         + iw*(6199./44100 + 3885./44100*lw
         + iw*(30017./1.0584e6 + 19530./1.0584e6*lw
         + iw*(83351./1.37214e7 + 55440./1.37214e7*lw
         + iw*(34978051./2.597186592e10 + 23603580./2.597186592e10*lw)))));
   }

   return (0.5 + 7.5*w)*(2 + std::log(w)) + (4.25 - 7.5*w)*f_PS(w);
}

/**
 * Barr-Zee 2-loop function with fermion loop and pseudoscalar and Z
 * boson mediators.
 *
 * @param x squared mass ratio (mf/ms)^2.
 * @param y squared mass ratio (mf/mz)^2.
 */
double FPZ(double x, double y) noexcept
{
   if (x < 0 || y < 0) {
      ERROR("FPZ: arguments must not be negative.");
      return std::numeric_limits<double>::quiet_NaN();
   }

   sort(x, y);

   constexpr double eps = 1e-8;

   if (x == 0 || y == 0) {
      return 0;
   } else if (std::abs(1 - x/y) < eps) {
      if (std::abs(x - 0.25) < eps) {
         // -(1 + 2*Log[2])/3 + O(x - 1/4)
         return -0.79543145370663021 - 1.7453806518612167*(x - 0.25);
      }
      return 2*x*(f_PS(x) + std::log(x))/(1 - 4*x);
   }

   return (y*f_PS(x) - x*f_PS(y))/(x - y);
}

/**
 * Barr-Zee 2-loop function with fermion loop and scalar and Z boson
 * mediators.
 *
 * @param x squared mass ratio (mf/ms)^2.
 * @param y squared mass ratio (mf/mz)^2.
 */
double FSZ(double x, double y) noexcept
{
   if (x < 0 || y < 0) {
      ERROR("FSZ: arguments must not be negative.");
      return std::numeric_limits<double>::quiet_NaN();
   }

   sort(x, y);

   constexpr double eps = 1e-8;

   if (x == 0 || y == 0) {
      return 0;
   } else if (std::abs(1 - x/y) < eps) {
      if (std::abs(x - 0.25) < eps) {
         // (-1 + 4*Log[2])/3 + O(x - 1/4)
         return 0.59086290741326041 + 1.2361419555836500*(x - 0.25);
      } else if (x >= 1e3) {
         const double ix = 1/x;
         const double lx = std::log(x);
         return 7./9 + 2./3*lx
            + ix*(37./150 + 1./5*lx
            + ix*(533./7350 + 2./35*lx
            + ix*(1627./79380 + 1./63*lx
            + ix*(18107./3201660 + 1./231*lx))));
      }
      return 2*x*(1 - 4*x + 2*x*f_PS(x) + std::log(x)*(1 - 2*x))/(4*x - 1);
   }

   return (y*f_S(x) - x*f_S(y))/(x - y);
}

/**
 * Barr-Zee 2-loop function with lepton loop and charge scalar and W
 * boson mediators.
 *
 * @param x squared mass ratio (mf/ms)^2.
 * @param y squared mass ratio (mf/mw)^2.
 */
double FCWl(double x, double y) noexcept
{
   if (x < 0 || y < 0) {
      ERROR("FCWl: arguments must not be negative.");
      return std::numeric_limits<double>::quiet_NaN();
   }

   sort(x, y);

   constexpr double eps = 1e-8;

   if (x == 0 || y == 0) {
      return 0;
   } else if (std::abs(1 - x/y) < eps) {
      const double pi26 = 1.6449340668482264;
      return -f_CSl(x) + x*(-0.5 + x*(3 + (3*x - 2)*(dilog(1 - 1/x) - pi26))
         + (3*x - 0.5)*std::log(x));
   }

   return (y*f_CSl(x) - x*f_CSl(y))/(x - y);
}

/**
 * Barr-Zee 2-loop function with up-type quark loop and charge scalar
 * and W boson mediators.
 *
 * @param xu squared mass ratio (mu/ms)^2.
 * @param xd squared mass ratio (md/ms)^2.
 * @param yu squared mass ratio (mu/mw)^2.
 * @param yd squared mass ratio (md/mw)^2.
 * @param qu electric charge count of up-type quark
 * @param qd electric charge count of down-type quark
 */
double FCWu(double xu, double xd, double yu, double yd, double qu, double qd) noexcept
{
   if (xu < 0 || xd < 0 || yu < 0 || yd < 0) {
      ERROR("FCWu: arguments must not be negative.");
      return std::numeric_limits<double>::quiet_NaN();
   }

   constexpr double eps = 1e-8;

   // Note: xd == yd  <=>  xu == yu, per definition
   if (std::abs(1 - xu/yu) < eps) {
      shift(xu, yu, eps);
      shift(xd, yd, eps);
   }

   return (yu*f_CSu(xu, xd, qu, qd) - xu*f_CSu(yu, yd, qu, qd))/(xu - yu);
}

/**
 * Barr-Zee 2-loop function with down-type quark loop and charge
 * scalar and W boson mediators.
 *
 * @param xu squared mass ratio (mu/ms)^2.
 * @param xd squared mass ratio (md/ms)^2.
 * @param yu squared mass ratio (mu/mw)^2.
 * @param yd squared mass ratio (md/mw)^2.
 * @param qu electric charge count of up-type quark
 * @param qd electric charge count of down-type quark
 */
double FCWd(double xu, double xd, double yu, double yd, double qu, double qd) noexcept
{
   if (xu < 0 || xd < 0 || yu < 0 || yd < 0) {
      ERROR("FCWd: arguments must not be negative.");
      return std::numeric_limits<double>::quiet_NaN();
   }

   constexpr double eps = 1e-8;

   // Note: xd == yd  <=>  xu == yu, per definition
   if (std::abs(1 - xu/yu) < eps) {
      shift(xu, yu, eps);
      shift(xd, yd, eps);
   }

   return (yd*f_CSd(xu, xd, qu, qd) - xd*f_CSd(yu, yd, qu, qd))/(xd - yd);
}

/**
 * Källén lambda function \f$\lambda^2(x,y,z) = x^2 + y^2 + z^2 - 2xy - 2yz - 2xz\f$.
 * The arguments u and v are interpreted as squared masses.
 *
 * @param x squared mass
 * @param y squared mass
 * @param z squared mass
 *
 * @return \f$\lambda^2(x,y,z)\f$
 */
double lambda_2(double x, double y, double z) noexcept
{
   return z*z*lambda_2(x/z, y/z);
}

/**
 * \f$\Phi(x,y,z)\f$ function from arxiv:1607.06292 Eq.(68).

 * @note The arguments x, y and z are interpreted as squared masses.
 *
 * @note Proportional to Phi from Davydychev and Tausk, Nucl. Phys. B397 (1993) 23
 *
 * @param x squared mass
 * @param y squared mass
 * @param z squared mass
 *
 * @return \f$\Phi(x,y,z)\f$
 */
double Phi(double x, double y, double z) noexcept
{
   sort(x, y, z);
   const auto u = x/z, v = y/z;
   return phi_uv(u,v)*z*lambda_2(u, v)/2;
}

} // namespace gm2calc
