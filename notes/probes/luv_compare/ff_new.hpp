// ====================================================================
// This file is part of GM2Calc.
//
// GM2Calc is free software: you can redistribute it and/or modify
// it under the terms of the GNU General Public License as published
// by the Free Software Foundation, either version 3 of the License,
// or (at your option) any later version.
//
// GM2Calc is distributed in the hope that it will be useful, but
// WITHOUT ANY WARRANTY; without even the implied warranty of
// MERCHANTABILITY or FITNESS FOR A PARTICULAR PURPOSE.  See the GNU
// General Public License for more details.
//
// You should have received a copy of the GNU General Public License
// along with GM2Calc.  If not, see
// <http://www.gnu.org/licenses/>.
// ====================================================================

#ifndef GM2_FF_NEW_HPP
#define GM2_FF_NEW_HPP

namespace gm2new {

/// \f$F_1^C(x)\f$, Eq (54) arXiv:hep-ph/0609168
double F1C(double) noexcept;
/// \f$F_2^C(x)\f$, Eq (55) arXiv:hep-ph/0609168
double F2C(double) noexcept;
/// \f$F_3^C(x)\f$, Eq (37) arXiv:1003.5820
double F3C(double) noexcept;
/// \f$F_4^C(x)\f$, Eq (38) arXiv:1003.5820
double F4C(double) noexcept;
/// \f$F_1^N(x)\f$, Eq (52) arXiv:hep-ph/0609168
double F1N(double) noexcept;
/// \f$F_2^N(x)\f$, Eq (53) arXiv:hep-ph/0609168
double F2N(double) noexcept;
/// \f$F_3^N(x)\f$, Eq (39) arXiv:1003.5820
double F3N(double) noexcept;
/// \f$F_4^N(x)\f$, Eq (40) arXiv:1003.5820
double F4N(double) noexcept;
/// \f$F_a(x)\f$, Eq (6.3a) arXiv:1311.1775
double Fa(double, double) noexcept;
/// \f$F_b(x)\f$, Eq (6.3b) arXiv:1311.1775
double Fb(double, double) noexcept;
/// \f$G_3(x)\f$, Eq (6.4a) arXiv:1311.1775
double G3(double) noexcept;
/// \f$G_4(x)\f$, Eq (6.4b) arXiv:1311.1775
double G4(double) noexcept;
/// \f$I_{abc}(a,b,c)\f$ (arguments are interpreted as unsquared)
double Iabc(double, double, double) noexcept;
/// \f$f_{PS}(z)\f$, Eq (70) arXiv:hep-ph/0609168
double f_PS(double) noexcept;
/// \f$f_S(z)\f$, Eq (71) arXiv:hep-ph/0609168
double f_S(double) noexcept;
/// \f$f_{\tilde{f}}(z)\f$, Eq (72) arXiv:hep-ph/0609168
double f_sferm(double) noexcept;
/// \f$f_l^{H^\pm}(z)\f$, Eq (60) arxiv:1607.06292
double f_CSl(double) noexcept;
/// \f$\mathcal{F}_d^{H^\pm}(x,y,q_u,q_d)\f$, Eq (61) arxiv:1607.06292
double f_CSd(double, double, double, double) noexcept;
/// \f$\mathcal{F}_u^{H^\pm}(x,y,q_u,q_d)\f$, Eq (62) arxiv:1607.06292
double f_CSu(double, double, double, double) noexcept;
/// \f$\mathcal{F}_1(\omega)\f$, Eq (25) arxiv:1502.04199
double F1(double) noexcept;
/// \f$\tilde{\mathcal{F}}_1(\omega)\f$, Eq (26) arxiv:1502.04199
double F1t(double) noexcept;
/// \f$\mathcal{F}_2(\omega)\f$, Eq (27) arxiv:1502.04199
double F2(double) noexcept;
/// \f$\mathcal{F}_3(\omega)\f$, Eq (28) arxiv:1502.04199
double F3(double) noexcept;
/// \f$\tidle{F}_{FZ}(x,y)\f$
double FPZ(double, double) noexcept;
/// \f$F_{FZ}(x,y)\f$
double FSZ(double, double) noexcept;
/// \f$F_{CW}^l(x,y)\f$
double FCWl(double, double) noexcept;
/// \f$F_{CW}^u(x_u,x_d,y_u,y_d,q_u,q_d)\f$
double FCWu(double, double, double, double, double, double) noexcept;
/// \f$F_{CW}^d(x_u,x_d,y_u,y_d,q_u,q_d)\f$
double FCWd(double, double, double, double, double, double) noexcept;
/// \f$\Phi(x,y,z)\f$ with squared masses, Davydychev and Tausk, Nucl. Phys. B397 (1993) 23
double Phi(double x, double y, double z) noexcept;
/// Källén lambda function \f$\lambda^2(x, y, z)\f$
double lambda_2(double x, double y, double z) noexcept;

} // namespace gm2calc

#endif
