set -e
OBJ=/tmp/x/fz/obj; mkdir -p $OBJ
FL="-std=gnu++14 -O1 -g -fsanitize=fuzzer-no-link,address,undefined -fno-sanitize-recover=all -fno-sanitize=object-size -I/repo/include -I/repo/src -I/usr/include/eigen3"
cd /repo/src
ls *.cpp */*.cpp | grep -v gm2calc.cpp | xargs -P16 -I{} sh -c 'clang++-14 '"$FL"' -c {} -o '$OBJ'/$(echo {} | tr / _).o'
clang++-14 $FL -Dmain=gm2calc_main -c gm2calc.cpp -o $OBJ/main.o
clang++-14 -std=gnu++14 -O1 -g -fsanitize=fuzzer,address,undefined -fno-sanitize-recover=all /tmp/x/fz/fuzz.cpp $OBJ/*.o -o /tmp/x/fz/fuzzer
