#include "gm2calc/THDM.hpp"
#include "gm2calc/gm2_1loop.hpp"
#include "gm2calc/gm2_2loop.hpp"
#include "gm2calc/gm2_error.hpp"
#include <Eigen/Dense>
#include <cstdio>
#include <cmath>
#include <random>
#include <iostream>
#include <sstream>
using namespace gm2calc;
std::mt19937_64 rng(11);
double U(double a,double b){ return std::uniform_real_distribution<double>(a,b)(rng);} 
double LU(double a,double b){ return std::exp(U(std::log(a),std::log(b))); }
int main(){
  std::stringstream err; std::cerr.rdbuf(err.rdbuf());
  const int NP=7; double worst[3]={0,0,0}, worstc0[3]={0,0,0}; int n=0; int det[3]={0,0,0}, tot=0; double hist[3][5]={{0}};
  for(int it=0; it<4000; ++it){
    thdm::Gauge_basis g; g.yukawa_type=(thdm::Yukawa_type)(1+it%4); g.tan_beta=LU(0.3,50); for(int i=0;i<7;i++) g.lambda(i)=U(-2,2); g.lambda(0)=U(0,2); g.lambda(1)=U(0,2);
    thdm::Config cfg; cfg.running_couplings=it%2;
    double tb=g.tan_beta, sbcb=tb/(1+tb*tb); double y[3][NP], L[NP], Th[3]={0,0,0}; bool ok=true;
    for(int j=0;j<NP && ok;j++){ double M=3162.28*std::pow(10.0,j/6.0); L[j]=std::log(M/246.0); g.m122=M*M*sbcb; try{ THDM m0(g,SM(),cfg); SM sm; sm.set_mh(m0.get_Mhh(0)); THDM m(g,sm,cfg); y[0][j]=calculate_amu_1loop(m)*M*M; y[1][j]=calculate_amu_2loop_fermionic(m)*M*M; y[2][j]=calculate_amu_2loop_bosonic(m)*M*M;
        if(j==NP-1){ SM sm3; sm3.set_mh(3*m0.get_Mhh(0)); THDM m3(g,sm3,cfg); Th[0]=std::abs(calculate_amu_1loop(m3)-calculate_amu_1loop(m)); Th[1]=std::abs(calculate_amu_2loop_fermionic(m3)-calculate_amu_2loop_fermionic(m)); Th[2]=std::abs(calculate_amu_2loop_bosonic(m3)-calculate_amu_2loop_bosonic(m)); }
      } catch(const Error&){ ok=false; } }
    if(!ok) continue; ++n;
    for(int c=0;c<3;c++){
      auto fit=[&](const double* yy, double& res, double& c0rel){ Eigen::Matrix<double,NP,3> A; Eigen::Matrix<double,NP,1> b; double ymax=0; for(int j=0;j<NP;j++){ A(j,0)=1; A(j,1)=L[j]; A(j,2)=L[j]*L[j]; b(j)=yy[j]; ymax=std::max(ymax,std::abs(yy[j])); }
        Eigen::Matrix<double,3,1> p=A.colPivHouseholderQr().solve(b); res=(A*p-b).cwiseAbs().maxCoeff()/ymax;
        Eigen::Matrix<double,NP,4> A4; for(int j=0;j<NP;j++){ A4(j,0)=1; A4(j,1)=L[j]; A4(j,2)=L[j]*L[j]; A4(j,3)=std::exp(2*(L[j]-L[NP-1])); } Eigen::Matrix<double,4,1> p4=A4.colPivHouseholderQr().solve(b); c0rel=std::abs(p4(3))/ymax; };
      double res,c0; fit(y[c],res,c0); if(res>worst[c]){worst[c]=res; printf("comp %d residual %.4f (c0rel %.4f) tb=%.2f type=%d run=%d\n",c,res,c0,tb,(int)g.yukawa_type,(int)cfg.running_couplings);} if(c0>worstc0[c]) worstc0[c]=c0;
      // mutant: add constant Th (size of SM-higgs term) to a
      double ym[NP]; for(int j=0;j<NP;j++){ double M=3162.28*std::pow(10.0,j/6.0); ym[j]=y[c][j]+Th[c]*M*M; } double resm,c0m; fit(ym,resm,c0m); tot++; if(resm>0.05||c0m>0.2) det[c]++; 
    }
  }
  printf("n=%d worst residual %.4f %.4f %.4f worst c0rel %.4f %.4f %.4f; mutant detected (res>0.05 or c0>0.2): %d %d %d of %d\n",n,worst[0],worst[1],worst[2],worstc0[0],worstc0[1],worstc0[2],det[0],det[1],det[2],n);
}
