import re
hdr=open('/repo/include/gm2calc/MSSMNoFV_onshell.h').read()
decls=re.findall(r'^(\w[\w\s\*]*?)\s+(gm2calc_mssmnofv_\w+|print_mssmnofv)\(([^)]*)\);',hdr,re.M)
setters=[];getters=[]
for ret,name,args in decls:
    a=[x.strip() for x in args.split(',')]
    if name.startswith('gm2calc_mssmnofv_set_'): setters.append((name,a))
    elif name.startswith('gm2calc_mssmnofv_get_') and 'char*' not in args: getters.append((name,a))
def maxidx(name):
    if any(k in name for k in ['MChi','ZN']): return 4
    if any(k in name for k in ['_Ae','_Au','_Ad','mq2','mu2','md2','ml2','me2','_Ye','_Yd','_Yu']): return 3
    return 2
def argexpr(a,mi):
    out=[]
    for x in a:
        if 'MSSMNoFV_onshell' in x: out.append('m')
        elif 'unsigned' in x: out.append('(unsigned)R.idx(%d)'%mi)
        elif x.startswith('int'): out.append('(int)R.idx(2)')
        elif 'double*' in x: out.append('&dd')
        elif 'double' in x: out.append('R.val()')
        else: out.append('0')
    return ','.join(out)
tmpl=open('/tmp/x/e32.tmpl').read()
S='\n'.join('      case %d: %s(%s); break;'%(i,n,argexpr(a,maxidx(n))) for i,(n,a) in enumerate(setters))
G='\n'.join('      case %d: (void)%s(%s); break;'%(i,n,argexpr(a,maxidx(n))) for i,(n,a) in enumerate(getters))
open('/tmp/x/e32.cpp','w').write(tmpl.replace('@NS@',str(len(setters))).replace('@NG@',str(len(getters))).replace('@SETTERS@',S).replace('@GETTERS@',G))
print(len(setters),len(getters))
