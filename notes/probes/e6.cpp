#include "gm2calc/gm2_1loop.hpp"
#include "gm2calc/gm2_2loop.hpp"
#include "gm2calc/gm2_uncertainty.hpp"
#include "gm2calc/gm2_error.hpp"
#include "gm2calc/MSSMNoFV_onshell.hpp"
#include "MSSMNoFV/gm2_1loop_helpers.hpp"
#include "MSSMNoFV/gm2_2loop_helpers.hpp"
#include <cstdio>
#include <cmath>
#include <random>
using namespace gm2calc;
std::mt19937_64 rng(3);
double U(double a,double b){ return std::uniform_real_distribution<double>(a,b)(rng);} 
double LU(double a,double b){ return std::exp(U(std::log(a),std::log(b))); }
int sg(){ return U(0,1)<0.5?-1:1; }
struct P { double tb, mu, m1, m2, m3, ma, Q; double ml[3], me[3], mq[3], mU[3], md[3], Ae[3], Au[3], Ad[3]; };
P randp(double lo, double hi){ P p; p.tb=LU(1.5,80); p.mu=sg()*LU(lo,hi); p.m1=sg()*LU(lo,hi); p.m2=sg()*LU(lo,hi); p.m3=sg()*LU(lo,3*hi); p.ma=LU(lo,hi); p.Q=LU(lo,hi);
  for(int i=0;i<3;i++){ p.ml[i]=LU(lo,hi); p.me[i]=LU(lo,hi); p.mq[i]=LU(lo,3*hi); p.mU[i]=LU(lo,3*hi); p.md[i]=LU(lo,3*hi); p.Ae[i]=U(-1,1)*hi; p.Au[i]=U(-1,1)*hi; p.Ad[i]=U(-1,1)*hi; } return p; }
MSSMNoFV_onshell make(const P& p, double k=1, int flip=1){
  MSSMNoFV_onshell m; m.set_TB(p.tb); m.set_Mu(flip*k*p.mu); m.set_MassB(flip*k*p.m1); m.set_MassWB(flip*k*p.m2); m.set_MassG(flip*k*p.m3); m.set_MA0(k*p.ma); m.set_scale(k*p.Q);
  for(int i=0;i<3;i++){ m.set_ml2(i,i,k*k*p.ml[i]*p.ml[i]); m.set_me2(i,i,k*k*p.me[i]*p.me[i]); m.set_mq2(i,i,k*k*p.mq[i]*p.mq[i]); m.set_mu2(i,i,k*k*p.mU[i]*p.mU[i]); m.set_md2(i,i,k*k*p.md[i]*p.md[i]); m.set_Ae(i,i,flip*k*p.Ae[i]); m.set_Au(i,i,flip*k*p.Au[i]); m.set_Ad(i,i,flip*k*p.Ad[i]); }
  m.calculate_masses(); return m; }
int main(){
  int n=0, nerr=0; double worst_flip=0;
  for(int it=0; it<3000; ++it){ P p=randp(100,3000);
    try { auto a=make(p), b=make(p,1,-1);
      double q[2][12]; MSSMNoFV_onshell* ms[2]={&a,&b};
      for(int j=0;j<2;j++){ auto& m=*ms[j]; q[j][0]=calculate_amu_1loop(m); q[j][1]=calculate_amu_2loop(m); q[j][2]=calculate_amu_1loop_non_tan_beta_resummed(m); q[j][3]=calculate_amu_2loop_non_tan_beta_resummed(m); q[j][4]=amu2LaSferm(m); q[j][5]=amu2LaCha(m); q[j][6]=amu2LFSfapprox(m); q[j][7]=amu2LChi0Photonic(m); q[j][8]=amu2LChipmPhotonic(m); q[j][9]=tan_beta_cor(m); q[j][10]=calculate_uncertainty_amu_2loop(m); q[j][11]=amu1LChi0(m);}
      for(int i=0;i<12;i++){ double d=std::abs(q[0][i]-q[1][i])/std::max(std::abs(q[0][i]),1e-300); if(!(d<=worst_flip)){ worst_flip=d; printf("flip rel diff %.3e qty %d val %.4e\n", d, i, q[0][i]); } }
      ++n; } catch(const Error& e){ ++nerr; }
  }
  printf("n=%d err=%d worst flip %.3e\n", n, nerr, worst_flip);
  // scaling
  double worstc=0; double r2min=1e9,r2max=-1e9; int ns=0;
  for(int it=0; it<2000; ++it){ P p=randp(300,3000);
    try { double prev1=0, prev2=0; double prevt=0; 
      for(int k=1;k<=64;k*=2){ auto m=make(p,k); double a1=calculate_amu_1loop(m), a2=calculate_amu_2loop(m), t=tan_beta_cor(m), u=calculate_uncertainty_amu_2loop(m);
        double mmin = k*std::min({std::abs(p.mu),std::abs(p.m1),std::abs(p.m2),p.ml[1],p.me[1]});
        if(k>1){ double r1=a1/prev1, r2=a2/prev2; double c=std::abs(r1-0.25)/std::pow(91.1876/(mmin/2),2); if(!(c<=worstc)){worstc=c; printf("k=%d r1=%.6f c=%.3f mmin=%.1f a1=%.3e tb=%.1f\n",k,r1,c,mmin/2,a1,p.tb);} if(k>=4){ r2min=std::min(r2min,r2); r2max=std::max(r2max,r2);} if (r2<0.2||r2>0.35) printf("  r2=%.4f at k=%d a2=%.3e prev %.3e a1=%.3e\n", r2,k,a2,prev2,a1); }
        prev1=a1; prev2=a2; prevt=t; }
      ns++; } catch(const Error& e){}
  }
  printf("scaling n=%d worst c=%.3f r2 range [%.4f,%.4f]\n", ns, worstc, r2min, r2max);
}
