#include "gm2_linalg.hpp"
#include <cstdio>
#include <random>
#include <complex>
using namespace gm2calc;
std::mt19937_64 rng(7);
double U(){ return std::uniform_real_distribution<double>(-1,1)(rng);} 
double H(){ return std::pow(10.0, std::uniform_real_distribution<double>(-6,6)(rng)); }
template<int N> void herm(const char* nm){
  double worst_rec=0, worst_uni=0; int bad_order=0;
  for (int it=0; it<200000; ++it){
    Eigen::Matrix<double,N,N> m; 
    int mode = it%5;
    for(int i=0;i<N;i++)for(int j=i;j<N;j++){ double v=U(); if(mode==1) v*=H(); if(mode==2 && i!=j) v*=1e-9; m(i,j)=m(j,i)=v; }
    if(mode==3){ m.setZero(); double d=U()*H(); for(int i=0;i<N;i++) m(i,i)= (i<2)? d : U(); }
    if(mode==4){ // exactly degenerate: Q diag Q^T with repeated
      Eigen::Matrix<double,N,N> a; for(int i=0;i<N;i++)for(int j=0;j<N;j++)a(i,j)=U(); Eigen::HouseholderQR<Eigen::Matrix<double,N,N>> qr(a); Eigen::Matrix<double,N,N> q=qr.householderQ(); Eigen::Matrix<double,N,1> d; double v=U(); for(int i=0;i<N;i++) d(i)=(i<2)?v:U()*H(); m=q*d.asDiagonal()*q.transpose(); m=(0.5*(m+m.transpose())).eval(); }
    Eigen::Array<double,N,1> w; Eigen::Matrix<double,N,N> z;
    fs_diagonalize_hermitian<double,double,N>(m,w,z);
    double nrm = m.norm(); if(nrm==0) continue;
    double rec = (z.adjoint()*w.matrix().asDiagonal()*z - m).norm()/nrm;
    double uni = (z*z.adjoint()-Eigen::Matrix<double,N,N>::Identity()).norm();
    if(!(rec<=worst_rec)) worst_rec=rec; if(!(uni<=worst_uni)) worst_uni=uni;
    for(int i=0;i+1<N;i++) if(std::abs(w(i))>std::abs(w(i+1))) bad_order++;
  }
  printf("%s N=%d worst rec %.3e uni %.3e badorder %d\n", nm, N, worst_rec, worst_uni, bad_order);
}
template<int N> void takagi(){
  double worst_rec=0, worst_uni=0; int bad=0, neg=0;
  for (int it=0; it<200000; ++it){
    Eigen::Matrix<double,N,N> m; int mode=it%4;
    for(int i=0;i<N;i++)for(int j=i;j<N;j++){ double v=U(); if(mode==1) v*=H(); if(mode==2&&i!=j) v*=1e-9; m(i,j)=m(j,i)=v; }
    if(mode==3){ m.setZero(); m(0,0)=U()*H(); m(1,1)=-m(0,0); if(N>2) m(2,2)=U(); }
    Eigen::Array<double,N,1> s; Eigen::Matrix<std::complex<double>,N,N> u;
    fs_diagonalize_symmetric<double,double,N>(m,s,u);
    double nrm=m.norm(); if(nrm==0) continue;
    double rec=(u.transpose()*s.matrix().template cast<std::complex<double>>().asDiagonal()*u - m.template cast<std::complex<double>>()).norm()/nrm;
    double uni=(u*u.adjoint()-Eigen::Matrix<std::complex<double>,N,N>::Identity()).norm();
    if(!(rec<=worst_rec)) worst_rec=rec; if(!(uni<=worst_uni)) worst_uni=uni;
    for(int i=0;i+1<N;i++) if(s(i)>s(i+1)) bad++; for(int i=0;i<N;i++) if(s(i)<0) neg++;
  }
  printf("takagi N=%d worst rec %.3e uni %.3e badorder %d neg %d\n", N, worst_rec, worst_uni, bad, neg);
}
template<class S,int N> void svdt(const char* nm){
  double worst_rec=0, worst_uni=0; int bad=0;
  for (int it=0; it<100000; ++it){
    Eigen::Matrix<S,N,N> m; int mode=it%5;
    for(int i=0;i<N;i++)for(int j=0;j<N;j++){ double v=U(); if(mode==1) v*=H(); m(i,j)=v; }
    if(mode==2){ m.row(0).setZero(); }
    if(mode==3){ m.setZero(); for(int i=0;i<N;i++) m(i,i)=(i<2)?0.5:U()*H(); }
    if(mode==4){ m.col(1)=m.col(0); }
    Eigen::Array<double,N,1> s; Eigen::Matrix<S,N,N> u,v;
    fs_svd<double,S,N,N>(m,s,u,v);
    double nrm=m.norm(); if(nrm==0) continue;
    double rec=(u.transpose()*s.matrix().template cast<S>().asDiagonal()*v - m).norm()/nrm;
    double uni=std::max((u*u.adjoint()-Eigen::Matrix<S,N,N>::Identity()).norm(),(v*v.adjoint()-Eigen::Matrix<S,N,N>::Identity()).norm());
    if(!(rec<=worst_rec)) worst_rec=rec; if(!(uni<=worst_uni)) worst_uni=uni;
    for(int i=0;i+1<N;i++) if(s(i)>s(i+1)) bad++;
  }
  printf("svd %s N=%d worst rec %.3e uni %.3e badorder %d\n", nm, N, worst_rec, worst_uni, bad);
}
int main(){ herm<2>("herm"); herm<3>("herm"); herm<4>("herm"); takagi<2>(); takagi<3>(); takagi<4>(); svdt<double,2>("real"); svdt<double,3>("real"); svdt<std::complex<double>,3>("cplx"); svdt<double,4>("real"); }
