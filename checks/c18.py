"""C18 — uncertainty estimates (DESIGN §5 C18)."""
from lib import simple

HARNESSES = {"c18_uncertainty": {}}


def run(chk):
    chk.rule = ("random MSSM on-shell points (tan beta 1.5..80, all sign patterns, light and heavy spectra) and THDM mass-basis points "
                "(all six Yukawa types, running on/off, 25% with all new masses in [0.05,10] GeV under force-output incl. a mass within "
                "1e-15..1e-2 of m_mu); every model with finite a_mu is one evaluation; cell = model x tan-beta decade/type x sign pattern x "
                "relative sign of a1L,a2L; distinct_nontrivial = non-empty cells")
    chk.assumptions = ["the documented formulas of src/*/gm2_uncertainty.cpp headers are the specification",
                       "a_mu values used in the composition clauses are the library's own (C03/C15 check those)"]
    n = simple.run(chk, "c18_uncertainty", 400000, 20000000, HARNESSES["c18_uncertainty"])
    chk.min_conclusive = n // 4
    chk.min_cells = 20
    chk.required_cells = ["MSSM|", "THDM|type1|mNP~mmu", "THDM|type5|heavy", "THDM|type6|heavy"]
