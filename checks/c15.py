"""C15 — every reported number agrees with every other report of the same quantity (DESIGN §5 C15)."""
import itertools
import math
import os
import random

from lib import build, cli

LEVEL = "exploration"
HARNESSES = {"gen_inputs": dict(cfgs=("plain",)), "api_dump": dict(cfgs=("plain",))}
N_INPUTS = {"quick": 6, "thorough": 60}     # per format


def fdiv(a, b):
    try:
        return a / b
    except ZeroDivisionError:
        if a == 0 or a != a:
            return float("nan")
        return math.copysign(float("inf"), a) * (math.copysign(1.0, b))


def amu_of(V, loop, res, asis=True):
    r = 0.0
    if res:
        if loop > 0:
            r += V["amu1L"]
        if loop > 1:
            r += V["amu2L"]
    else:
        if loop > 0:
            r += V["amu1L_non_tb_resummed_asis"]
        if loop > 1:
            r += V["amu2L_non_tb_resummed_asis"]
    return r


def amu_thdm(V, loop):
    r = 0.0
    if loop > 0:
        r += V["amu1L"]
    if loop > 1:
        r += V["amu2L"]
    return r


PROBLEM_EDITS = {"gm2calc": [("GM2CalcInput", "26", "3000000"), ("GM2CalcInput", "25", "-3000000"), ("GM2CalcInput", "4", "1e6")],
                 "slha": [("AE", "3", "3   3000000"), ("HMIX", "1", "1e6")]}


def set_line(text, block, key, value):
    out, cur, done = [], None, False
    for l in text.split("\n"):
        t = l.split("#")[0].split()
        if t and t[0].lower() == "block":
            cur = t[1].upper() if len(t) > 1 else ""
        elif cur == block.upper() and t and t[0] == key and not done:
            l = "   " + key + "   " + value
            done = True
        out.append(l)
    return "\n".join(out) if done else None


def detailed_mssm(V, S):
    A, D, Pc = cli.f_amu, cli.f_del, cli.f_pct
    amu_1l, amu_2l = V["amu1L"], V["amu2L"]
    best = amu_1l + amu_2l
    tbc = V["tan_beta_cor"]
    n1, n2 = V.get("amu1L_non_tb_resummed"), V.get("amu2L_non_tb_resummed")
    err_non = ""
    if n1 is None:
        n1, n2 = V["amu1L_non_tb_resummed_forced"], V["amu2L_non_tb_resummed_forced"]
        err_non = None   # text of the exception: compared loosely
    tanb_approx = (tbc - 1.0) * n1
    phot = V["amu2LChipmPhotonic"] + V["amu2LChi0Photonic"]
    twoa = V["amu2LaSferm"] + V["amu2LaCha"]
    error_str = (S["problems"] + " (with tan(beta) resummation)\n\n") if S.get("have_problem") else ""
    t = ("====================================================================\n"
         "   amu (1-loop + 2-loop best) = " + A(best) + " +- " + D(V["unc2"]) + "\n"
         "====================================================================\n"
         "\n" + error_str +
         "==============================\n"
         "   amu (1-loop) corrections\n"
         "==============================\n"
         "\n"
         "full 1L with tan(beta) resummation:\n"
         "   chi^0     " + A(V["amu1LChi0"]) + "\n"
         "   chi^+-    " + A(V["amu1LChipm"]) + "\n"
         "   -------------------------------\n"
         "   sum       " + A(amu_1l) + " (" + Pc(100. * fdiv(amu_1l, best)) + "% of full 1L + 2L result)\n"
         "\n"
         "full 1L without tan(beta) resummation:\n"
         "             " + A(n1) + "{ERRNON}\n"
         "\n"
         "1L approximation with tan(beta) resummation:\n"
         "   W-H-nu    " + A(V["amu1LWHnu"] * tbc) + "\n"
         "   W-H-muL   " + A(V["amu1LWHmuL"] * tbc) + "\n"
         "   B-H-muL   " + A(V["amu1LBHmuL"] * tbc) + "\n"
         "   B-H-muR   " + A(V["amu1LBHmuR"] * tbc) + "\n"
         "   B-muL-muR " + A(V["amu1LBmuLmuR"] * tbc) + "\n"
         "   -------------------------------\n"
         "   sum       " + A(V["amu1Lapprox"]) + "\n"
         "\n"
         "==============================\n"
         "   amu (2-loop) corrections\n"
         "==============================\n"
         "\n"
         "2L best with tan(beta) resummation:\n"
         "             " + A(amu_2l) + " (" + Pc(100. * fdiv(amu_2l, best)) + "% of full 1L + 2L result)\n"
         "\n"
         "2L best without tan(beta) resummation:\n"
         "             " + A(n2) + "{ERRNON}\n"
         "\n"
         "photonic with tan(beta) resummation:\n"
         "   chi^0     " + A(V["amu2LChi0Photonic"]) + "\n"
         "   chi^+-    " + A(V["amu2LChipmPhotonic"]) + "\n"
         "   -------------------------------\n"
         "   sum       " + A(phot) + " (" + Pc(100. * fdiv(phot, best)) + "% of full 1L + 2L result)\n"
         "\n"
         "fermion/sfermion approximation with tan(beta) resummation:\n"
         "   W-H-nu    " + A(V["amu2LWHnu"] * tbc) + "\n"
         "   W-H-muL   " + A(V["amu2LWHmuL"] * tbc) + "\n"
         "   B-H-muL   " + A(V["amu2LBHmuL"] * tbc) + "\n"
         "   B-H-muR   " + A(V["amu2LBHmuR"] * tbc) + "\n"
         "   B-muL-muR " + A(V["amu2LBmuLmuR"] * tbc) + "\n"
         "   -------------------------------\n"
         "   sum       " + A(V["amu2LFSfapprox"]) + " (" + Pc(100. * fdiv(V["amu2LFSfapprox"], best)) + "% of full 1L + 2L result)\n"
         "\n"
         "2L(a) (1L insertions into 1L SM diagram) with tan(beta) resummation:\n"
         "   sfermion  " + A(V["amu2LaSferm"]) + "\n"
         "   cha^+-    " + A(V["amu2LaCha"]) + "\n"
         "   -------------------------------\n"
         "   sum       " + A(twoa) + " (" + Pc(100. * fdiv(twoa, best)) + "% of full 1L + 2L result)\n"
         "\n"
         "tan(beta) correction:\n"
         "   amu(1L) * (1 / (1 + Delta_mu) - 1) = " + A(tanb_approx) + " (" + Pc(100. * fdiv(tanb_approx, n1)) + "%)\n")
    return t, err_non


def detailed_thdm(V):
    A, D, Pc = cli.f_amu, cli.f_del, cli.f_pct
    a1, a2, B, F = V["amu1L"], V["amu2L"], V["amu2L_B"], V["amu2L_F"]
    best = a1 + a2
    return ("====================================================================\n"
            "   amu (1-loop + 2-loop) = " + A(best) + " +- " + D(V["unc2"]) + "\n"
            "====================================================================\n"
            "\n"
            "==============================\n"
            "   amu (1-loop) corrections\n"
            "==============================\n"
            "\n"
            "full 1L: " + A(a1) + " (" + Pc(100. * fdiv(a1, best)) + "% of full 1L + 2L result)\n"
            "\n"
            "==============================\n"
            "   amu (2-loop) corrections\n"
            "==============================\n"
            "\n"
            "bosonic   2L: " + A(B) + " (" + Pc(100. * fdiv(B, a2)) + "% of 2L result)\n"
            "fermionic 2L: " + A(F) + " (" + Pc(100. * fdiv(F, a2)) + "% of 2L result)\n"
            "sum         : " + A(a2) + " (" + Pc(100. * fdiv(a2, best)) + "% of full 1L + 2L result)\n")


def nonblank(lines):
    return [l for l in lines if l.strip()]


def run(chk):
    chk.rule = ("valid inputs of the three formats (seeded random points written by harness/gen_inputs) x all 480 GM2CalcConfig combinations "
                "(5 output formats x 3 loop orders x resummation x force x verbose x uncertainty x running), enumerated exhaustively per input; "
                "each run of the real gm2calc.x is compared, as a string, with the output predicted from the library API values that "
                "harness/api_dump obtains for the same file through the library's own reader. cell = input format x output format x clause; "
                "distinct_nontrivial = non-empty cells")
    chk.assumptions = ["printf-style %.8e / %16.8E / %.1f formatting of Python and of libstdc++/boost::format are both correctly rounded",
                       "the configuration axis is exhaustive per input; inputs are sampled"]
    chk.exhaustive = False
    chk.extra["configurations_per_input"] = 480
    cfgs = ["plain"] if chk.tier == "quick" else ["plain", "san"]
    n = max(1, int(N_INPUTS[chk.tier] * chk.scale))
    dump = chk.build(build.harness, "plain", "api_dump")
    combos = list(itertools.product(range(5), range(3), (0, 1), (0, 1), (0, 1), (0, 1), (0, 1)))
    assert len(combos) == 480
    for cfgname in cfgs:
        binary = chk.build(build.cli, cfgname)
        for fmt in ("slha", "gm2calc", "thdm"):
            texts = cli.gen_inputs(chk, fmt, n, chk.seed, os.path.join(chk.workdir, "in_" + fmt))
            for idx, text in enumerate(texts):
                base = os.path.join(chk.workdir, "in_" + fmt, "%s_%d.in" % (fmt, idx))
                if idx % 6 == 5 and fmt in PROBLEM_EDITS:
                    # a point with a flagged problem (tachyon through left-right mixing): with force-output the program reports numbers, which must be the library's
                    blk, key, val = PROBLEM_EDITS[fmt][(idx // 6) % len(PROBLEM_EDITS[fmt])]
                    edited = set_line(text, blk, key, val)
                    if edited is not None:
                        text = edited
                        open(base, "w").write(text)
                        chk.add_count("inputs edited into problem points (%s)" % fmt)
                if idx % 6 == 4 and fmt == "gm2calc":
                    chk.add_count("inputs on which only the evaluation without tan(beta) resummation fails (gm2calc)")
                api = cli.api_dump(dump, fmt, base)
                if idx % 2 == 1:
                    # a spectrum-generator file that already carries the blocks the result is written to, with other entries: they belong to the input and must be echoed
                    text = text + PREEXISTING
                    open(base, "w").write(text)
                    api2 = cli.api_dump(dump, fmt, base)
                    if api2["V"] != api["V"]:
                        chk.add_fail("C15:unread-blocks-change-the-api-values", "blocks LOWEN/SPhenoLowEnergy/GM2CalcOutput in the input change the library results", dict(format=fmt, input_text=text))
                chk.add_sample(dict(format=fmt, input_head=text[:300], api_values={k: v for k, v in list(api["V"].items())[:1]}), cap=6)

                def one(c, text=text, fmt=fmt, idx=idx):
                    o, l, rs, fo, ve, un, ru = c
                    # the configuration block in three shapes: all seven entries in ascending order, in another order, and with the entries left out that equal
                    # their documented defaults (loop order 2, resummation 1, force 0, verbose 0, uncertainty 0, running couplings 1)
                    cl = cli.config_block(o, l, rs, fo, ve, un, ru).rstrip("\n").split("\n")
                    shape = (o + 2 * l + 3 * rs + 5 * fo + 7 * ve + 11 * un + 13 * ru + idx) % 3
                    if shape == 1:
                        body = cl[1:]
                        random.Random(hash((idx,) + tuple(c))).shuffle(body)
                        cl = [cl[0]] + body
                    elif shape == 2:
                        dflt = {1: 2, 2: 1, 3: 0, 4: 0, 5: 0, 6: 1}
                        cl = [cl[0]] + [x for x in cl[1:] if dflt.get(int(x.split()[0])) != int(x.split()[1])]
                    t = text + "\n".join(cl) + "\n"
                    name = "%s_%d_%d%d%d%d%d%d%d.in" % (fmt, idx, o, l, rs, fo, ve, un, ru)
                    r = cli.run_cli(binary, fmt, t, workdir=chk.workdir, name=name)
                    try:
                        os.remove(r["path"])
                    except OSError:
                        pass
                    return c, t, r
                results = cli.pmap(one, combos)
                for c, t, r in results:
                    chk.evaluations += 1
                    judge(chk, fmt, c, t, r, api, cfgname)
    chk.min_conclusive = 480
    chk.min_cells = 20
    chk.required_cells = ["slha|minimal", "gm2calc|detailed", "thdm|detailed", "thdm|GM2Calc", "slha|SPheno", "gm2calc|NMSSMTools"]


OUTN = ["minimal", "detailed", "NMSSMTools", "SPheno", "GM2Calc"]
PREEXISTING = ("Block LOWEN   # from the spectrum generator\n     1     3.19000000E-04   # BR(b -> s gamma)\n     2     4.10000000E-09   # BR(Bs -> mu mu)\n"
               "Block SPhenoLowEnergy   # from the spectrum generator\n     1     3.20000000E-04   # BR(b -> s gamma)\n    20     1.06000000E-14   # (g-2)_e\n    39     1.50000000E-04   # Delta(rho)\n"
               "Block GM2CalcOutput   # left over\n     7     1.00000000E+00   # an entry of another tool\n")


def fail(chk, key, what, fmt, c, t, r, extra=None):
    case = dict(input_format=fmt, config=dict(zip(["output_format", "loop_order", "tanb_resummation", "force_output", "verbose", "uncertainty", "running"], c)),
                input_text=t, exit=r["exit"], signal=r["signal"], stdout=r["stdout"][:6000], stderr=r["stderr"][:2000])
    if extra:
        case.update(extra)
    chk.add_fail(key, what, case)


def judge(chk, fmt, c, t, r, api, cfgname):
    o, l, rs, fo, ve, un, ru = c
    cfgkey = ("force=%d" % fo) if fmt != "thdm" else ("force=%d,running=%d" % (fo, ru))
    cellbase = "%s|%s" % (fmt, OUTN[o])
    if cfgkey in api["E"] or cfgkey not in api["V"]:
        chk.inconclusive += 1
        chk.add_count("api-rejected-input")
        return
    V = api["V"][cfgkey]
    S = dict(api["S"].get(cfgkey, {}))
    S["have_problem"] = api["F"].get(cfgkey, {}).get("have_problem", 0)
    have_warning = api["F"].get(cfgkey, {}).get("have_warning", 0)
    if r["timeout"]:   # twice over the watchdog limit: inconclusive here (termination is C14's clause), never a verdict
        chk.inconclusive += 1
        chk.harness_errors.append("gm2calc.x exceeded the watchdog limit twice (%s, %s): inconclusive" % (fmt, cfgkey))
        return
    if r["signal"] or r["exit"] not in (0, 1):
        fail(chk, "C15:abnormal-termination", "exit=%s signal=%s timeout=%s" % (r["exit"], r["signal"], r["timeout"]), fmt, c, t, r)
        return
    chk.conclusive += 1
    mssm = fmt != "thdm"
    # a valid point whose spectrum without tan(beta) resummation is refused (tachyon with the tree-level Yukawa coupling): the request fails exactly when the
    # requested number is the non-resummed a_mu (minimal output of a_mu, and the SLHA-type outputs, at loop order >= 1); the detailed report has a fallback
    nonres_rejected = mssm and not rs and ("amu1L_non_tb_resummed_asis" not in V)
    nonres_needed = nonres_rejected and l > 0 and ((o == 0 and not un) or o in (2, 3, 4))
    exp_exit = 1 if (fmt != "thdm" and (S["have_problem"] or nonres_needed)) else 0
    chk.add_cell(cellbase + "|exit-status", 1, 0 if r["exit"] == exp_exit else 1)
    if r["exit"] != exp_exit:
        fail(chk, "C15:exit-status", "exit status %s, expected %s" % (r["exit"], exp_exit), fmt, c, t, r)
    if nonres_needed:
        chk.add_count("non-resummed-spectrum-rejected")   # the writer itself throws: refusal judged by C16
        return
    value = None if (nonres_rejected and o == 1) else (V["unc%d" % l] if un else (amu_of(V, l, rs) if mssm else amu_thdm(V, l)))   # (the detailed report does not print it)
    if o == 0:
        exp = cli.f_min(value) + "\n"
        ok = r["stdout"] == exp
        chk.add_cell(cellbase + "|number=API", 1, 0 if ok else 1)
        if not ok:
            fail(chk, "C15:minimal:number", "minimal output %r, API value formats to %r" % (r["stdout"][:60], exp), fmt, c, t, r, dict(api_value=value))
    elif o == 1:
        if mssm:
            exp, err_non = detailed_mssm(V, S)
            out = r["stdout"]
            if err_non is None:
                # the parenthesised exception text after the two non-resummed numbers: compare everything else
                import re
                exp_re = re.escape(exp).replace(re.escape("{ERRNON}"), r" \(.*\)")
                ok = re.fullmatch(exp_re, out, re.S) is not None
            else:
                ok = out == exp.replace("{ERRNON}", "")
        else:
            exp = detailed_thdm(V)
            ok = r["stdout"] == exp
        chk.add_cell(cellbase + "|whole-text=API", 1, 0 if ok else 1)
        if not ok:
            # locate the first differing line for the report
            el, ol = exp.replace("{ERRNON}", "").splitlines(), r["stdout"].splitlines()
            diff = next(((i, a, b) for i, (a, b) in enumerate(zip(el, ol)) if a != b), (min(len(el), len(ol)), "<end>", "<end>"))
            fail(chk, "C15:detailed:" + ("MSSM" if mssm else "THDM") + ":line-mismatch", "detailed output line %d: printed %r, predicted from API %r" % (diff[0], diff[2], diff[1]), fmt, c, t, r)
        # additivity and percentages on API values (the printed ones are string-equal to them)
        if mssm:
            adds = [("1L=chi0+chipm", V["amu1L"], V["amu1LChi0"] + V["amu1LChipm"], abs(V["amu1LChi0"]) + abs(V["amu1LChipm"])),
                    ("2L=FSf+photonic+2L(a)", V["amu2L"], V["amu2LFSfapprox"] + V["amu2LChipmPhotonic"] + V["amu2LChi0Photonic"] + V["amu2LaSferm"] + V["amu2LaCha"],
                     abs(V["amu2LFSfapprox"]) + abs(V["amu2LChipmPhotonic"]) + abs(V["amu2LChi0Photonic"]) + abs(V["amu2LaSferm"]) + abs(V["amu2LaCha"]))]
        else:
            adds = [("2L=B+F", V["amu2L"], V["amu2L_B"] + V["amu2L_F"], abs(V["amu2L_B"]) + abs(V["amu2L_F"])),
                    ("B=EWadd+nonYuk+Yuk", V["amu2L_B"], V["amu2L_B_EWadd"] + V["amu2L_B_nonYuk"] + V["amu2L_B_Yuk"], abs(V["amu2L_B_EWadd"]) + abs(V["amu2L_B_nonYuk"]) + abs(V["amu2L_B_Yuk"])),
                    ("F=neutral+charged", V["amu2L_F"], V["amu2L_F_neutral"] + V["amu2L_F_charged"], abs(V["amu2L_F_neutral"]) + abs(V["amu2L_F_charged"]))]
        for name, tot, s, sc in adds:
            e = abs(tot - s) / sc if sc else 0.0
            chk.add_cell(cellbase + "|additivity:" + name, 1, e / 1e-14)
            if not e <= 1e-14:
                fail(chk, "C15:additivity:" + name, "total %r vs sum of parts %r" % (tot, s), fmt, c, t, r)
    else:
        blk, key = {2: ("LOWEN", 6), 3: ("SPhenoLowEnergy", 21), 4: ("GM2CalcOutput", 0)}[o]
        amu = amu_of(V, l, rs) if mssm else amu_thdm(V, l)
        out_lines = r["stdout"].split("\n")
        # (1) echo: every non-blank input line appears, in order, unchanged
        it = iter(out_lines)
        echo_ok = all(any(x == line for x in it) for line in nonblank(t.split("\n")))
        chk.add_cell(cellbase + "|echo-of-input" + ("(with pre-existing result blocks)" if "from the spectrum generator" in t else ""), 1, 0 if echo_ok else 1)
        if not echo_ok:
            fail(chk, "C15:slha:echo", "SLHA output does not contain every non-blank input line in order", fmt, c, t, r)
        # (2) the result block
        nb = nonblank(out_lines)
        def block_lines(name):
            res, inside = [], False
            for x in nb:
                if x.split() and x.split()[0].lower() == "block":
                    inside = len(x.split()) > 1 and x.split()[1].lower() == name.lower()
                    continue
                if inside:
                    res.append(x)
            return res
        want = cli.f_slha(key, amu, "Delta(g-2)_muon/2")
        got = block_lines(blk)
        ok = want in got
        chk.add_cell(cellbase + "|number=API", 1, 0 if ok else 1)
        if not ok:
            fail(chk, "C15:slha:number", "block %s does not contain %r (has %r)" % (blk, want, got[:3]), fmt, c, t, r, dict(api_value=amu))
        # entries of the other formats must be absent
        for b2, k2 in (("LOWEN", 6), ("SPhenoLowEnergy", 21), ("GM2CalcOutput", 0)):
            if b2 != blk and any(x.split()[0] == str(k2) for x in block_lines(b2) if x.split()):
                fail(chk, "C15:slha:entry-in-wrong-block", "entry %d also written to block %s" % (k2, b2), fmt, c, t, r)
        unc_lines = [x for x in block_lines("GM2CalcOutput") if x.split() and x.split()[0] == "1"]
        if un:
            wantu = cli.f_slha(1, V["unc%d" % l], "uncertainty of Delta(g-2)_muon/2")
            oku = wantu in unc_lines
        else:
            oku = not unc_lines
        chk.add_cell(cellbase + "|uncertainty-where-documented", 1, 0 if oku else 1)
        if not oku:
            fail(chk, "C15:slha:uncertainty", "GM2CalcOutput[1] %s" % ("missing or different: %r" % unc_lines if un else "present although the flag is off"), fmt, c, t, r)
        # warnings are reported in SPINFO 3 exactly when the model has one
        sp3 = [x for x in block_lines("SPINFO") if x.split() and x.split()[0] == "3"]
        if bool(sp3) != bool(have_warning):
            fail(chk, "C15:slha:spinfo-warning", "SPINFO[3] %s although have_warning=%d" % ("present" if sp3 else "absent", have_warning), fmt, c, t, r)
    # verbose / force / running must not change stdout beyond what the API says: covered by string equality above
