"""C14 — the command-line program is total and memory-safe on arbitrary input (DESIGN §5 C14)."""
import glob
import itertools
import os
import random
import re
import shutil
import subprocess
import time

from lib import build, cli, core

HARNESSES = {"c14_fuzz_cli": dict(with_main_obj=True, cfgs=("fuzz",))}
TIME_LIMIT = 30.0


def seed_files(root):
    fs = sorted(glob.glob(os.path.join(root, "input", "example.*")) + glob.glob(os.path.join(root, "test", "test_points", "*.in")))
    out = []
    for f in fs:
        try:
            out.append((os.path.basename(f), open(f, "rb").read()))
        except OSError:
            pass
    return out


def fmt_of(name, data):
    if name.endswith(".thdm") or b"MINPAR" in data:
        return "thdm"
    if name.endswith(".gm2") or (b"GM2CalcInput" in data and b"HMIX" not in data and b"MSOFT" not in data):
        return "gm2calc"
    return "slha"


HOSTILE_TOKENS = [b"nan", b"inf", b"-inf", b"1e400", b"-1e400", b"-0", b"0", b"99999999999999999999", b"-99999999999999999999", b"2147483648", b"-2147483649", b"1e300", b"-1e300", b"4.9e-324",
                  b"", b"abc", b"1.5abc", b"0x10", b"1e", b"+", b"-", b".", b"1e-400", b"9223372036854775808", b"1D3", b"\xff\xfe", b"#", b"Q=", b"Block"]


def mutate(data, rnd):
    lines = data.split(b"\n")
    k = rnd.randrange(10)
    if k <= 3 and lines:            # token replacement
        for _ in range(rnd.randrange(1, 4)):
            i = rnd.randrange(len(lines))
            t = lines[i].split()
            if t:
                t[rnd.randrange(len(t))] = rnd.choice(HOSTILE_TOKENS)
                lines[i] = b"   " + b"   ".join(t)
    elif k == 4 and lines:          # line duplication
        i = rnd.randrange(len(lines)); lines[i:i] = [lines[i]] * rnd.randrange(1, 50)
    elif k == 5:                    # truncation
        cut = rnd.randrange(len(data) + 1); return data[:cut]
    elif k == 6 and lines:          # block header damage
        hs = [i for i, l in enumerate(lines) if l.strip().lower().startswith(b"block")]
        if hs:
            i = rnd.choice(hs)
            lines[i] = rnd.choice([b"Block", b"Block ", b"BLOCK " + lines[i].split()[-1] if lines[i].split() else b"BLOCK", lines[i] + b" Q= nan", lines[i] + b" Q=", lines[i] + b" Q= 1e400",
                                   lines[i].replace(b"Block", b"Blok"), lines[i] * 3, b"Block " + b"A" * rnd.randrange(1, 5000), lines[i] + b" Q= -0", b"Block\t\x00X"])
    elif k == 7:                    # byte noise
        b = bytearray(data)
        for _ in range(rnd.randrange(1, 20)):
            if b:
                b[rnd.randrange(len(b))] = rnd.randrange(256)
        return bytes(b)
    elif k == 8 and lines:          # huge / deep indices in matrix blocks
        lines.append(rnd.choice([b"Block NMIX", b"Block AE Q= 1000", b"Block GM2CalcTHDMPiuInput", b"Block SMUMIX"]))
        for _ in range(rnd.randrange(1, 6)):
            lines.append(b"  " + rnd.choice([b"0", b"-1", b"4", b"5", b"2147483647", b"-2147483648", b"99999999999999999999", b"1"]) + b"  " + rnd.choice([b"0", b"-1", b"3", b"2147483647", b"7"]) + b"  " + rnd.choice([b"1.0", b"nan", b"1e400"]))
    else:                           # shuffle lines
        rnd.shuffle(lines)
    return b"\n".join(lines)[:65536]


def spinfo_message(stdout):
    """an entry 3 (warning) or 4 (error) of a block SPINFO in the output - not any line that starts with 4"""
    inside = False
    for l in stdout.split("\n"):
        t = l.split()
        if len(t) > 1 and t[0].lower() == "block":   # (a line "Block" without a name is not a block header for the SLHA reader either: it stays a line of the current block)
            inside = t[1].upper() == "SPINFO"
        elif inside and len(t) > 1 and t[0] in ("3", "4"):
            return True
    return False


def judge(chk, r, kind, inp, argv_desc, fmt):
    """oracle over one recorded execution"""
    chk.evaluations += 1
    case = dict(kind=kind, format=fmt, argv=argv_desc, exit=r["exit"], signal=r["signal"], wall_s=round(r["wall"], 3), input_hex=inp[:4096].hex() if inp is not None else None,
                input_len=len(inp) if inp is not None else None, stdout=r["stdout"][:1500], stderr=r["stderr"][:3000])
    cell = "%s|%s" % (kind, fmt)
    if r["timeout"]:
        chk.add_cell(cell + "|terminates", 1, 1, None)
        chk.add_fail("C14:timeout:%s" % kind, "no termination within %ds" % TIME_LIMIT, case)
        return
    chk.conclusive += 1
    san = core.SAN_PAT.search(r["stderr"])
    if r["signal"] or r["exit"] not in (0, 1) or san:
        what = "signal %s" % r["signal"] if r["signal"] else ("sanitizer report: %s" % san.group(1) if san else "exit status %s" % r["exit"])
        frames = re.findall(r"#\d+ 0x[0-9a-f]+ in ([^\s(]+)", r["stderr"])
        frame = next((f for f in frames if "gm2calc" in f or "SLHAea" in f), frames[0] if frames else "?")
        k = re.sub(r"( on (unknown )?address| at pc| in thread).*$", "", san.group(1)) if san else what
        k = re.sub(r"0x[0-9a-f]+", "", k)
        chk.add_cell(cell + "|exit-0-or-1-no-signal-no-report", 1, 1, None)
        chk.add_fail("C14:abnormal:%s:%s" % (re.sub(r"[^A-Za-z0-9_:+-]+", "-", k)[:70], frame[:50]), what, case)
        return
    chk.add_cell(cell + "|exit-0-or-1-no-signal-no-report", 1, 0, None)
    if r["wall"] > TIME_LIMIT:
        chk.add_fail("C14:slow:%s" % kind, "took %.1fs" % r["wall"], case)
    # every failure exit is accompanied by a diagnostic
    if r["exit"] == 1:
        diag = bool(r["stderr"].strip()) or spinfo_message(r["stdout"])
        chk.add_cell(cell + "|exit1-has-diagnostic", 1, 0 if diag else 1, None)
        if not diag:
            chk.add_fail("C14:failure-exit-without-diagnostic", "exit status 1 with empty stderr and no SPINFO[4]", case)
    # diagnostics never go to stdout (unless the line is an echo of an input line)
    inlines = set(l.strip() for l in inp.decode("utf-8", "replace").split("\n")) if inp is not None else set()
    for l in r["stdout"].split("\n"):
        if (l.startswith("Error:") or l.startswith("Warning:")) and l.strip() not in inlines:
            chk.add_fail("C14:diagnostic-on-stdout", "stdout carries a diagnostic line: %r" % l[:100], case)
            break


def run_many(chk, binary, jobs, d):
    """jobs: (kind, fmt, data(bytes)|None, use_stdin, extra_args|None, argv_desc)"""
    def one(nj):
        n, (kind, fmt, data, use_stdin, extra, desc) = nj
        r = cli.run_cli(binary, fmt if fmt in cli.OPT else "slha", data if data is not None else b"", timeout=TIME_LIMIT, use_stdin=use_stdin, workdir=d, name="i_%d.in" % n, extra_args=extra)
        if r["timeout"]:   # re-run once alone before it counts
            r = cli.run_cli(binary, fmt if fmt in cli.OPT else "slha", data if data is not None else b"", timeout=TIME_LIMIT, use_stdin=use_stdin, workdir=d, name="i_%d.in" % n, extra_args=extra)
        if r.get("path"):
            try:
                os.remove(r["path"])
            except OSError:
                pass
        return nj[1], r
    for (kind, fmt, data, use_stdin, extra, desc), r in cli.pmap(one, list(enumerate(jobs))):
        judge(chk, r, kind, data, desc, fmt)


def run(chk):
    chk.rule = ("byte strings up to 64 KiB through the real gm2calc.x built with ASan+UBSan+LSan: (1) the corpus and artifacts of a coverage-guided libFuzzer campaign on an in-process "
                "copy of main (generator only; first byte = input-type option), (2) structure-aware mutations of the shipped example and test-point files (token replacement by "
                "nan/inf/1e400/-0/huge integers/empty, line duplication/truncation, block-header damage, hostile matrix indices), all three input-type options, random "
                "GM2CalcConfig combinations, files and stdin, (3) random command lines, (4) random bytes; plus valgrind memcheck on a sample for uninitialised reads. "
                "Oracle: exit 0/1, no signal, no sanitizer/valgrind report, <= 30 s, exit 1 => diagnostic, no diagnostics on stdout. cell = workload x format x clause")
    chk.assumptions = ["allocation failure and I/O faults are outside the property's quantifier and are not injected",
                       "uninitialised reads are only covered by the valgrind sample (MSan is unusable with the uninstrumented libstdc++)"]
    quick = chk.tier == "quick"
    rnd = random.Random(chk.seed * 31337 + 5)
    sanbin = chk.build(build.cli, "san")
    plainbin = chk.build(build.cli, "plain")
    d = os.path.join(chk.workdir, "runs")
    os.makedirs(d, exist_ok=True)
    seeds = seed_files(build.repo_root())
    chk.extra["seed_files"] = len(seeds)
    for fmt in ("slha", "gm2calc", "thdm"):   # plus generated valid inputs
        for t in cli.gen_inputs(chk, fmt, 4, chk.seed, os.path.join(chk.workdir, "gen_" + fmt)):
            seeds.append(("gen." + {"slha": "slha", "gm2calc": "gm2", "thdm": "thdm"}[fmt], t.encode()))
    # ---- (1) coverage-guided generation
    fz = chk.build(build.harness, "fuzz", "c14_fuzz_cli", with_main_obj=True)
    corpus = os.path.join(chk.workdir, "corpus")
    os.makedirs(corpus, exist_ok=True)
    for i, (name, data) in enumerate(seeds):
        for k in range(3):
            open(os.path.join(corpus, "seed_%d_%d" % (i, k)), "wb").write(bytes([k]) + data)
    njobs = 8 if quick else 16
    secs = int((25 if quick else 900) * chk.scale)
    procs = []
    for j in range(njobs):
        art = os.path.join(chk.workdir, "art%d" % j)
        cj = os.path.join(chk.workdir, "corpus%d" % j)
        os.makedirs(art, exist_ok=True); os.makedirs(cj, exist_ok=True)
        env = dict(os.environ, ASAN_OPTIONS="detect_leaks=0:abort_on_error=0:quarantine_size_mb=8", UBSAN_OPTIONS="halt_on_error=1:print_stacktrace=1")
        procs.append(subprocess.Popen([fz, cj, corpus, "-max_len=65536", "-max_total_time=%d" % secs, "-seed=%d" % (chk.seed * 100 + j), "-artifact_prefix=" + art + "/", "-timeout=25",
                                       "-rss_limit_mb=3000", "-print_final_stats=1", "-ignore_crashes=0"], stdout=subprocess.DEVNULL, stderr=open(os.path.join(chk.workdir, "fuzz%d.log" % j), "wb"), env=env))
    # ---- meanwhile (2)-(4) through the sanitizer binary
    nmut = int((2500 if quick else 100000) * chk.scale)
    jobs = []
    for i in range(nmut):
        name, data = rnd.choice(seeds)
        fmt = fmt_of(name, data)
        m = data
        for _ in range(rnd.choice([1, 1, 1, 2, 3])):
            m = mutate(m, rnd)
        if rnd.random() < 0.5:   # random GM2CalcConfig combination
            m = cli.config_block(rnd.randrange(5), rnd.randrange(3), rnd.randrange(2), rnd.randrange(2), rnd.randrange(2), rnd.randrange(2), rnd.randrange(2)).encode() + m
        if rnd.random() < 0.15:
            fmt = rnd.choice(["slha", "gm2calc", "thdm"])   # wrong option for the content
        jobs.append(("mutation", fmt, m, rnd.random() < 0.2, None, None))
    # systematic: every entry whose value is written as an integer literal gets every hostile magnitude (conversions to int/bool/enum)
    seen = set()
    for name, data in seeds:
        fmt = fmt_of(name, data)
        lines = data.split(b"\n")
        cur = b""
        for li, l in enumerate(lines):
            t = l.split(b"#")[0].split()
            if t and t[0].lower() == b"block":
                cur = t[1].upper() if len(t) > 1 else b""
                continue
            if len(t) >= 2 and re.fullmatch(rb"[+-]?\d+", t[-1]) and (cur, tuple(t[:-1])) not in seen:
                seen.add((cur, tuple(t[:-1])))
                for tok in (b"1e300", b"-1e300", b"2147483648", b"-2147483649", b"3e9", b"1e19", b"0.5", b"-1"):
                    jobs.append(("int-entry-hostile", fmt, b"\n".join(lines[:li] + [b"   " + b"   ".join(t[:-1] + [tok])] + lines[li + 1:]), False, None, None))
    # systematic: every distinct block header in every hostile shape (truncated after each token, scale token without value / glued / repeated / non-numeric, no name),
    # and every data line of one file per format truncated after each token
    seenh = set()
    for name, data in seeds:
        fmt = fmt_of(name, data)
        lines = data.split(b"\n")
        for li, l in enumerate(lines):
            t = l.split(b"#")[0].split()
            if not (t and t[0].lower() == b"block" and len(t) > 1) or (fmt, t[1].upper()) in seenh:
                continue
            seenh.add((fmt, t[1].upper()))
            nm = t[1]
            shapes = [b"Block", b"Block " + nm + b" Q=", b"Block " + nm + b" Q", b"Block " + nm + b" Q= Q=", b"Block " + nm + b" Q=1000", b"Block " + nm + b" Q= abc", b"Block " + nm + b" Q= 1e999",
                      b"Block " + nm + b" Q= nan", b"Block " + nm + b" Q= 1000 7 8 9 10 11", b"Block " + nm + b" q= 1000", b"Block " + nm + b" = 1000", b"Block " + nm + b" Q= -1000", b"Block " + nm + b" Q= 0",
                      b"Block " + nm + b" Q= #", b"BLOCK", b"Block\t" + nm + b"\tQ=", b"Block " + nm + b" Q=\r", b"Block " + nm * 400 + b" Q= 1"] + [b" ".join(t[:k]) for k in range(1, len(t))]
            for sh in shapes:
                jobs.append(("header-hostile", fmt, b"\n".join(lines[:li] + [sh] + lines[li + 1:]), False, None, None))
    donefmt = set()
    for name, data in seeds:
        fmt = fmt_of(name, data)
        if fmt in donefmt:
            continue
        donefmt.add(fmt)
        lines = data.split(b"\n")
        for li, l in enumerate(lines):
            t = l.split(b"#")[0].split()
            if len(t) >= 2 and t[0].lower() != b"block":
                for k in range(1, len(t)):
                    jobs.append(("line-truncated", fmt, b"\n".join(lines[:li] + [b"   " + b"   ".join(t[:k])] + lines[li + 1:]), False, None, None))
    for i in range(nmut // 10):
        n = rnd.choice([0, 1, 2, 10, 100, 1000, 65536])
        jobs.append(("random-bytes", rnd.choice(["slha", "gm2calc", "thdm"]), bytes(rnd.randrange(256) for _ in range(n)), rnd.random() < 0.3, None, None))
    optpool = ["--slha-input-file=", "--gm2calc-input-file=", "--thdm-input-file=", "--help", "-h", "--version", "-v", "--bogus", "", "-", "--slha-input-file", "--thdm-input-file=/nonexistent/file",
               "--gm2calc-input-file=/", "--slha-input-file=/dev/null", "--slha-input-file=-", "--", "-x", "--help=1", "--slha-input-file=" + "A" * 5000]
    # systematic: points with a flagged problem (tachyon) or warning in every output format, with and without force-output: the failure exit needs its diagnostic in each
    def set_line(data, block, key, value):
        out, cur, done = [], None, False
        for l in data.split(b"\n"):
            t = l.split(b"#")[0].split()
            if t and t[0].lower() == b"block":
                cur = t[1].upper() if len(t) > 1 else b""
            elif cur == block.upper() and t and t[0] == key and not done:
                l = b"   " + key + b"   " + value
                done = True
            out.append(l)
        return b"\n".join(out) if done else None
    for name, data in seeds:
        fmt = fmt_of(name, data)
        eds = {"gm2calc": [(b"GM2CalcInput", b"13", b"-900"), (b"GM2CalcInput", b"14", b"-900"), (b"GM2CalcInput", b"20", b"-3000"), (b"GM2CalcInput", b"3", b"1e4"),
                           (b"GM2CalcInput", b"26", b"3000000"), (b"GM2CalcInput", b"4", b"1e6"), (b"GM2CalcInput", b"25", b"-3000000")],   # tachyons through left-right mixing: no negative soft mass to warn about
               "slha": [(b"MSOFT", b"35", b"-2000"), (b"MSOFT", b"36", b"-2000"), (b"MSOFT", b"46", b"-5000"), (b"HMIX", b"2", b"1e4"), (b"AE", b"3", b"3   3000000"), (b"HMIX", b"1", b"1e6")]}.get(fmt, [])
        for blk, key, val in eds:
            m = set_line(data, blk, key, val)
            if m is None:
                continue
            for fo in range(5):
                for force in (0, 1):
                    jobs.append(("problem-point", fmt, m + b"\n" + cli.config_block(fo, 2, rnd.randrange(2), force, 0, rnd.randrange(2), 1).encode(), False, None, None))   # (the configuration last: it overrides a block the file may carry)
    # systematic: every input option with unreadable files whose names carry characters that are special to formatting or shells
    for o in ("--slha-input-file=", "--gm2calc-input-file=", "--thdm-input-file="):
        for nm in ("/nonexistent/100%.in", "/nonexistent/point_%s.in", "/nonexistent/%n%n%n%n", "/nonexistent/%1$s", "/nonexistent/%", "/nonexistent/%%", "/nonexistent/%d%d%d%d%d%d%d%d",
                   "/nonexistent/{}{0}", "/nonexistent/a b\tc", "/nonexistent/\\n", "/nonexistent/" + "%s" * 300, "/nonexistent/\x01\x7f", "/nonexistent/\"quoted\"", "/nonexistent/#comment"):
            jobs.append(("command-line", "cmdline", None, False, [o + nm], [o + nm]))
    exf = os.path.join(d, "example.in")
    open(exf, "wb").write(seeds[0][1])
    for i in range(nmut // 10):
        k = rnd.randrange(0, 5)
        args = []
        for _ in range(k):
            o = rnd.choice(optpool)
            if o.endswith("=") and rnd.random() < 0.7:
                o += exf
            args.append(o)
        jobs.append(("command-line", "cmdline", seeds[0][1] if "-" in "".join(args) else None, False, args, args))
    run_many(chk, sanbin, jobs, d)
    chk.add_sample(dict(kind="mutation", example_hex=jobs[0][2][:200].hex()), cap=4)
    chk.add_sample(dict(kind="command-line", argv=[j[5] for j in jobs if j[0] == "command-line"][:5]), cap=4)
    # ---- collect the fuzz campaign
    for p in procs:
        try:
            p.wait(timeout=secs + 300)
        except subprocess.TimeoutExpired:
            p.kill()
    execs = 0
    newfiles = []
    for j in range(njobs):
        log = open(os.path.join(chk.workdir, "fuzz%d.log" % j), errors="replace").read()
        m = re.search(r"stat::number_of_executed_units:\s*(\d+)", log)
        if m:
            execs += int(m.group(1))
        newfiles += glob.glob(os.path.join(chk.workdir, "corpus%d" % j, "*"))
        for a in glob.glob(os.path.join(chk.workdir, "art%d" % j, "*")):
            newfiles.append(a)
    chk.extra["fuzz_executions_in_process"] = execs
    chk.extra["fuzz_new_corpus_entries_and_artifacts"] = len(newfiles)
    cap = 4000 if quick else 60000
    if len(newfiles) > cap:
        rnd.shuffle(newfiles)
        arts = [f for f in newfiles if "/art" in f]
        newfiles = arts + [f for f in newfiles if "/art" not in f][:cap - len(arts)]
    fjobs = []
    for f in newfiles:
        data = open(f, "rb").read()
        if not data:
            continue
        fmt = ["slha", "gm2calc", "thdm"][data[0] % 3]
        fjobs.append(("fuzz-artifact" if "/art" in f else "fuzz-corpus", fmt, data[1:], False, None, None))
    run_many(chk, sanbin, fjobs, d)
    if execs == 0:
        chk.harness_errors.append("the fuzz campaign executed nothing")
    # ---- valgrind memcheck on a sample (uninitialised reads)
    nval = int((96 if quick else 3000) * chk.scale)
    vjobs = [j for j in jobs if j[0] in ("mutation", "random-bytes")]
    rnd.shuffle(vjobs)
    vjobs = vjobs[:nval]

    def vg(nj):
        n, (kind, fmt, data, use_stdin, extra, desc) = nj
        p = os.path.join(d, "vg_%d.in" % n)
        open(p, "wb").write(data)
        t0 = time.time()
        try:
            r = subprocess.run(["valgrind", "--quiet", "--error-exitcode=77", "--track-origins=no", "--leak-check=no", plainbin, cli.OPT[fmt] + p], capture_output=True, timeout=300)
            rc, err = r.returncode, r.stderr.decode("utf-8", "replace")
        except subprocess.TimeoutExpired:
            rc, err = None, ""
        os.remove(p)
        return nj[1], rc, err, time.time() - t0
    for (kind, fmt, data, use_stdin, extra, desc), rc, err, dt in cli.pmap(vg, list(enumerate(vjobs))):
        chk.evaluations += 1
        if rc is None:
            chk.inconclusive += 1
            continue
        chk.conclusive += 1
        bad = rc == 77 or "== Conditional jump" in err or "== Invalid" in err or "== Use of uninitialised" in err
        chk.add_cell("valgrind-memcheck|%s" % fmt, 1, 1 if bad else 0, None)
        if bad:
            m = re.search(r"==\d+== (Conditional jump[^\n]*|Invalid [^\n]*|Use of uninit[^\n]*|Syscall param[^\n]*)", err)
            fr = re.search(r"(?:at|by) 0x[0-9A-F]+: ([^\s(]+)", err)
            chk.add_fail("C14:valgrind:%s:%s" % (re.sub(r"[^A-Za-z0-9]+", "-", m.group(1) if m else "error")[:50], fr.group(1)[:50] if fr else "?"), "valgrind memcheck reports an error",
                         dict(kind=kind, format=fmt, input_hex=data[:4096].hex(), valgrind=err[:3000]))
    chk.min_conclusive = nmut // 2
    chk.min_cells = 12
    chk.required_cells = ["mutation|slha|exit-0-or-1", "mutation|thdm|exit-0-or-1", "mutation|gm2calc|exit1-has-diagnostic", "random-bytes|", "command-line|", "fuzz-corpus|", "valgrind-memcheck|", "int-entry-hostile|thdm"]
