"""C07 — MSSM decoupling (DESIGN §5 C07)."""
from lib import simple

HARNESSES = {"c07_decoupling": {}}


def run(chk):
    chk.rule = ("families of 7 models: a random on-shell base point with lightest SUSY mass >= 300 GeV, all dimensionful SUSY parameters "
                "(mu, gaugino and soft masses, trilinears, MA, scale) multiplied by k = 1,2,...,64; scale-aware residual tests of the 1/k^2 law "
                "(DESIGN C07: 1L and fermion/sfermion residual on sum|terms|, tan_beta_cor fixed, k^2 a2L affine in ln k from k>=4, uncertainty "
                "floor and 1/k^2 envelope of its excess); the literal [0.2,0.35] band is enforced only away from zero crossings. "
                "cell = clause x k with worst statistic/limit; distinct_nontrivial = non-empty cells")
    chk.assumptions = ["constants c frozen at >= 10x the worst value observed on >= 1e5 families of the unchanged tree (lib/thresholds.py)",
                       "a family is one evaluation; families where any member is rejected are inconclusive"]
    n = simple.run(chk, "c07_decoupling", 30000, 1000000, HARNESSES["c07_decoupling"])
    chk.min_conclusive = n // 3
    chk.min_cells = 30
    chk.required_cells = ["1L-scaling|k1", "1L-scaling|k32", "2L-total-affine-in-ln-k|k8", "delta2L-excess-envelope|k32", "tan_beta_cor-fixed|k4", "2L-literal-band(reported)"]
