"""C13 — SLHA input is interpreted by content, not by layout (DESIGN §5 C13)."""
import math
import os
import random
import re

from lib import build, cli, slha_model

HARNESSES = {"gen_inputs": dict(cfgs=("plain",)), "api_dump": dict(cfgs=("plain",))}
N_FILES = {"quick": 20, "thorough": 300}      # per format
N_REWRITES = {"quick": 15, "thorough": 25}
BAD_TOKENS = ["abc", "nan", "NaN", "inf", "-inf", "1e400", "-1e400", "1.5abc", "12x", "4.0D+04", "1.0d0", "0x", "1,5", "--1", "1e", "."]

READ_BLOCKS = {
    "slha": ["SMINPUTS", "MASS", "NMIX", "SMUMIX", "HMIX", "AE", "AU", "AD", "MSOFT", "GM2CALCINPUT"],
    "gm2calc": ["SMINPUTS", "GM2CALCINPUT"],
    "thdm": ["SMINPUTS", "MASS", "GM2CALCINPUT", "VCKMIN", "MINPAR", "GM2CALCTHDMDELTAUINPUT", "GM2CALCTHDMDELTADINPUT", "GM2CALCTHDMDELTALINPUT",
             "GM2CALCTHDMPIUINPUT", "GM2CALCTHDMPIDINPUT", "GM2CALCTHDMPILINPUT"],
}
MATRIX_BLOCKS = {"NMIX", "SMUMIX", "AE", "AU", "AD", "GM2CALCTHDMDELTAUINPUT", "GM2CALCTHDMDELTADINPUT", "GM2CALCTHDMDELTALINPUT", "GM2CALCTHDMPIUINPUT",
                 "GM2CALCTHDMPIDINPUT", "GM2CALCTHDMPILINPUT"}
BLANK = {"slha": "Block HMIX Q= 1\n", "gm2calc": "Block FOO\n", "thdm": "Block FOO\n"}


def split_blocks(text):
    blocks, cur = [], None
    for line in text.split("\n"):
        if not line.strip():
            continue
        if line.split()[0].lower() == "block":
            cur = [line]
            blocks.append(cur)
        elif cur is not None:
            cur.append(line)
    return blocks


def respell(tok, rnd):
    """another spelling of the same double"""
    try:
        v = float(tok)
    except ValueError:
        return tok
    if not math.isfinite(v):
        return tok
    k = rnd.randrange(6)
    if k == 0: s = "%.17e" % v
    elif k == 1: s = ("%.17e" % v).upper()
    elif k == 2: s = "%.17g" % v
    elif k == 3: s = ("+" if v >= 0 else "") + "%.17g" % v
    elif k == 4: s = repr(v)
    else:
        s = "%.17g" % v
        if re.fullmatch(r"-?\d+\.\d+", s): s = s + "000"
        if re.fullmatch(r"\d.*", s): s = "00" + s
    return s if float(s) == v else tok


def shuffle_keeping_equal_keys(lines, nkey, rnd):
    """a random order of the lines of one block in which lines assigning the same key keep their relative order (the later one still wins);
    blank and comment lines travel as they are"""
    def key(l):
        t = l.split("#")[0].split()
        return tuple(t[:nkey]) if len(t) > nkey else None
    idx = list(range(len(lines)))
    rnd.shuffle(idx)
    groups = {}
    for i in idx:
        groups.setdefault(key(lines[i]), []).append(i)
    for k, g in groups.items():
        if k is not None:
            for slot, i in zip(sorted(idx.index(j) for j in g), sorted(g)):
                idx[slot] = i
    return [lines[i] for i in idx]


def rewrite(text, fmt, rnd):
    """a layout-preserving rewrite: same set of effective (block, key) -> value assignments"""
    blocks = split_blocks(text)
    ops = []
    # permutation of blocks preserving the relative order of equal-named blocks
    names = [b[0].split()[1].upper() for b in blocks]
    order = list(range(len(blocks)))
    rnd.shuffle(order)
    pos = {}
    for n in set(names):
        idx = sorted(i for i in order if names[i] == n)   # slots keep, content in original order
        slots = sorted(order.index(i) for i in idx)
        for s, i in zip(slots, idx):
            pos[s] = i
    blocks = [blocks[pos[s]] for s in range(len(blocks))]
    ops.append("permute-blocks")
    out = []
    for b in blocks:
        head = b[0].split()
        name = head[1].upper()
        # case changes in 'Block' and in the name
        kw = rnd.choice(["Block", "BLOCK", "block", "bLoCk"])
        nm = rnd.choice([head[1], head[1].upper(), head[1].lower()])
        if len(head) > 3 and head[2].upper() == "Q=" and rnd.random() < 0.5:
            head = head[:3] + [respell(head[3], rnd)] + head[4:]
        rest = " ".join(head[2:])
        lines = [(rnd.choice(["", " ", "   "]) if False else "") + kw + " " + nm + ((" " + rest) if rest else "") + rnd.choice(["", "   # comment", " #Block fake"])]
        data = b[1:]
        ismat = name in MATRIX_BLOCKS
        # an earlier duplicate of an entry with another value (later assignment wins)
        if data and rnd.random() < 0.5:
            t = rnd.choice(data).split("#")[0].split()
            nkey = 2 if ismat else 1
            if len(t) > nkey:
                # a well-formed earlier value of the same kind (the Yukawa type MINPAR[24] must be an integer 1..6)
                dupval = str(rnd.randrange(1, 7)) if (name == "MINPAR" and t[0] == "24") else "%.17g" % rnd.uniform(-1000, 1000)
                lines.append("  " + "  ".join(t[:nkey]) + "   " + dupval + "   # overwritten below")
        # unknown key: far from the documented ones or next to them (0, small integers), anywhere in the block - also after the documented entries.
        # (whether a key is undocumented for this block and format is decided by the reader model: run() discards a rewrite whose predicted parameters differ)
        extra = []
        if not ismat and rnd.random() < 0.5 and name != "GM2CALCCONFIG":
            uk = rnd.choice([77, 9999, 123456, 0, 0, rnd.randrange(0, 100), rnd.randrange(0, 100)])
            if name == "MINPAR" and uk == 24:
                uk = 77   # (the Yukawa type is validated at every assignment, also an overwritten one)
            extra.append("   %d   %s   # unknown key" % (uk, "%.17g" % rnd.uniform(-10, 10)))
        if ismat and rnd.random() < 0.3:
            extra.append(rnd.choice(["   9  9   1.5   # index outside the matrix", "   0  0   1.5   # index outside the matrix", "   4  1   1.5   # index outside the matrix"]))
        for d in data:
            body = d.split("#")[0]
            t = body.split()
            nkey = 2 if ismat else 1
            if len(t) > nkey and rnd.random() < 0.7:
                t[nkey] = respell(t[nkey], rnd)
            ind = rnd.choice(["", " ", "    ", "\t", "          "])
            sep = rnd.choice(["  ", " ", "\t", "      "])
            lines.append(ind + sep.join(t) + rnd.choice(["", "   # c", " #", "\t# 1 2 3"]))
            if rnd.random() < 0.15:
                lines.append(rnd.choice(["", "# a comment line", "   ", "#"]))
        for e in extra:
            lines.insert(rnd.randrange(1, len(lines) + 1), e)
        lines = [lines[0]] + shuffle_keeping_equal_keys(lines[1:], 2 if ismat else 1, rnd)
        out.append(lines)
    # foreign blocks
    for _ in range(rnd.randrange(3)):
        fb = ["Block " + rnd.choice(["FOREIGN", "SPINFO_X", "DCINFO", "EXTPAR", "YU", "UMIX"]), "   1   2.5", "   1  1   abc   # not read", "   2   nan"]
        out.insert(rnd.randrange(len(out) + 1), fb)
    # foreign blocks whose names merely resemble the names of the blocks that are read (an extension, a truncation, a prefixed or suffixed variant), with the
    # entries of the real block and other values - a name lookup that is not an exact comparison picks them up
    for _ in range(rnd.randrange(3)):
        b = rnd.choice(blocks)
        h = b[0].split()
        if len(h) < 2:
            continue
        name = h[1]
        variant = rnd.choice([name + "IN", name + "2", name + "OLD", name + "_", name + "Backup", name[:-1], "X" + name, name[1:], name + name])
        if not variant or variant.upper() in [bb[0].split()[1].upper() for bb in blocks if len(bb[0].split()) > 1]:
            continue
        fb = [" ".join([h[0], variant] + h[2:])]
        for line in b[1:]:
            body = line.split("#")[0].split()
            if not body:
                continue
            try:
                body[-1] = "%.17g" % (float(body[-1]) * 1.37 + 0.1)
            except ValueError:
                pass
            fb.append("   " + "   ".join(body) + "   # resembling block")
        out.insert(rnd.randrange(len(out) + 1), fb)
    # repeated scale-dependent blocks at other scales, placed before the effective ones
    if fmt == "slha":
        q_eff = None
        for b in blocks:
            h = b[0].split()
            if h[1].upper() == "HMIX" and len(h) > 3:
                q_eff = float(h[3])
        if q_eff:
            # far scales, and scales that are close to but not at the effective one (the documented match is |Q - Q_HMIX| < 0.01;
            # a near scale here is off by >= 0.1 absolute and >= 3e-4 relative, so that a tighter or a relative reading of "matches"
            # that still separates scales a spectrum generator would print differently stays silent)
            near = rnd.choice([1, -1]) * (0.1 + abs(q_eff) * rnd.choice([3e-4, 1e-3, 3e-3, 8e-3]))
            qo = rnd.choice([q_eff * 0.5 + 1.0, q_eff * 2.0 + 1.0, q_eff * 1.01 + 1.0, q_eff + near, q_eff + near])
            dup = []
            for nmx in rnd.sample(["MSOFT", "AU", "AD", "AE", "HMIX"], rnd.randrange(1, 4)):
                if nmx == "HMIX":
                    dup.append(["Block HMIX Q= %.17g" % qo, "   1   %.17g" % rnd.uniform(-500, 500), "   2   %.17g" % rnd.uniform(2, 50), "   4   %.17g" % rnd.uniform(1e4, 1e6)])
                elif nmx == "MSOFT":
                    dup.append(["Block MSOFT Q= %.17g" % qo, "   1   %.17g" % rnd.uniform(100, 900), "  32   %.17g" % rnd.uniform(100, 900), "  35   %.17g" % rnd.uniform(100, 900), "  43   777.0"])
                else:
                    dup.append(["Block %s Q= %.17g" % (nmx, qo), "  2  2   %.17g" % rnd.uniform(-900, 900), "  3  3   %.17g" % rnd.uniform(-900, 900)])
            # a repeated HMIX block stays before the last HMIX block (which defines the scale); the others go anywhere, also after
            # the blocks at the effective scale, where reading them would overwrite the effective values
            for d in dup:
                last_hmix = max(i for i, b in enumerate(out) if b[0].split()[1].upper() == "HMIX")
                hi = last_hmix if d[0].split()[1].upper() == "HMIX" else len(out)
                out.insert(rnd.randrange(hi + 1), d)
    # (the last line may lack its newline; trailing blanks after the last token)
    return "\n".join("\n".join(b) for b in out) + rnd.choice(["\n", "\n", "", "\n\n", "   ", "\n   \n"])


def reduce_text(text, rnd):
    """the file with one to three of its data lines (or one whole block) left out: the omitted entries keep their defaults"""
    blocks = split_blocks(text)
    if rnd.random() < 0.3 and len(blocks) > 2:
        del blocks[rnd.randrange(len(blocks))]
    else:
        for _ in range(rnd.randrange(1, 4)):
            b = rnd.choice(blocks)
            if len(b) > 1:
                del b[rnd.randrange(1, len(b))]
    return "\n".join("\n".join(b) for b in blocks) + "\n"


def same_prediction(a, b):
    if a is None or b is None:
        return a is b
    return set(a) == set(b) and all((a[k] == b[k]) or (isinstance(a[k], float) and isinstance(b[k], float) and math.isnan(a[k]) and math.isnan(b[k])) for k in a)


def equal_pred(name, got, exp):
    if got is None or exp is None:
        return got is exp
    if isinstance(exp, float) and math.isnan(exp):
        return math.isnan(got)
    if name == "TB_vu/vd":
        return abs(got - exp) <= 4e-16 * abs(exp)
    return got == exp


def has_physics_output(stdout):
    if re.search(r"(?m)^\s*(-?\d\.\d{8}e[+-]\d+|-?nan|-?inf)\s*$", stdout):
        return True   # a number, or a non-finite result printed as such
    for blk, key in (("GM2CalcOutput", "0"), ("LOWEN", "6"), ("SPhenoLowEnergy", "21")):
        inside = False
        for line in stdout.split("\n"):
            t = line.split()
            if t and t[0].lower() == "block":
                inside = len(t) > 1 and t[1].lower() == blk.lower()
            elif inside and t and t[0] == key:
                return True
    return "amu (1-loop" in stdout


def run(chk):
    chk.rule = ("well-formed inputs of the three formats from seeded random points; (a) the parameters the library's reader fills (harness/api_dump --params) "
                "against a sequential reference model of the reader (last write wins, case-folded block names, scale filter with the last HMIX Q, README key tables); "
                "(b) minimal-format stdout and exit status of the real binary identical between a file and layout-preserving rewrites (block permutation, case, comments, "
                "whitespace, number spellings, earlier duplicates, unknown keys, foreign blocks, repeated blocks at other scales); (c) one key or value token of a block "
                "that is read replaced by a non-numeric/non-finite/partially numeric token, or an invalid GM2CalcConfig value => exit 1, diagnostic, no physics output; "
                "the same token in a block that is not read => no effect. cell = format x clause x kind; distinct_nontrivial = non-empty cells")
    chk.assumptions = ["the reference model is written from README.md, not from slhaea.h", "CKM entries are compared at 1e-14 (own standard parametrisation), everything else exactly",
                       "tokens whose status the property leaves open (hex floats, '18.0' as a key) are not generated"]
    rnd = random.Random(chk.seed * 7919 + 13)
    binary = chk.build(build.cli, "plain")
    sanbin = chk.build(build.cli, "san") if chk.tier == "thorough" else None
    dump = chk.build(build.harness, "plain", "api_dump")
    nfiles = max(1, int(N_FILES[chk.tier] * chk.scale))
    nrew = N_REWRITES[chk.tier]
    predictors = {"slha": slha_model.predict_slha, "gm2calc": slha_model.predict_gm2calc, "thdm": slha_model.predict_thdm}
    for fmt in ("slha", "gm2calc", "thdm"):
        d = os.path.join(chk.workdir, "in_" + fmt)
        texts = cli.gen_inputs(chk, fmt, nfiles, chk.seed, d)
        blank = os.path.join(d, "blank.in")
        open(blank, "w").write(BLANK[fmt])
        defaults = cli.api_dump(dump, fmt, blank, params=True)["P"]
        jobs = []
        for idx, text in enumerate(texts):
            p0 = predictors[fmt](text, defaults)
            rws = []
            for _ in range(nrew):
                for attempt in range(8):
                    rw = rewrite(text, fmt, rnd)
                    if same_prediction(predictors[fmt](rw, defaults), p0):   # the inserted keys are undocumented for their block and format
                        rws.append(("rewrite", rw))
                        break
                else:
                    chk.add_count("rewrite discarded (an inserted key is documented)")
            variants = [("original", text)] + rws + [("reduced", reduce_text(text, rnd)) for _ in range(3)]
            jobs.append((idx, text, variants))

        def do_file(job):
            idx, text, variants = job
            res = []
            for vi, (kind, vt) in enumerate(variants):
                p = os.path.join(d, "v_%d_%d.in" % (idx, vi))
                open(p, "w").write(vt)
                api = cli.api_dump(dump, fmt, p, params=True)
                if kind == "reduced":
                    # the same reader object has read the complete file before: what the reduced file leaves out must come from the defaults, not from that file
                    p0 = os.path.join(d, "v_%d_%d_first.in" % (idx, vi))
                    open(p0, "w").write(text)
                    api["after_other_file"] = cli.api_dump(dump, fmt, p, params=True, preload=p0)
                    os.remove(p0)
                runs = []
                for un in (0, 1):
                    # one configuration per file (loop order, resummation, running couplings vary from file to file); for a rewrite the entries come in another order
                    frnd = random.Random(idx * 7 + 1)
                    cfgl = cli.config_block(0, frnd.randrange(3), frnd.randrange(2), 0, 0, un, frnd.randrange(2)).rstrip("\n").split("\n")
                    if kind == "rewrite":
                        body = cfgl[1:]
                        random.Random(idx * 31 + vi * 7 + un).shuffle(body)
                        cfgl = [cfgl[0]] + body
                    t2 = "\n".join(cfgl) + "\n" + vt
                    via_stdin = kind == "rewrite" and (idx + vi + un) % 3 == 0   # the rewrite through standard input instead of a file: same content, same result
                    runs.append(cli.run_cli(binary, fmt, t2, workdir=d, name="r_%d_%d_%d.in" % (idx, vi, un), use_stdin=via_stdin))
                    if runs[-1]["path"]:
                        os.remove(runs[-1]["path"])
                os.remove(p)
                res.append((kind, vt, api, runs))
            return idx, res
        for idx, res in cli.pmap(do_file, jobs):
            base_runs = res[0][3]
            for kind, vt, api, runs in res:
                chk.evaluations += 1
                chk.conclusive += 1
                # (a) reference model of the reader
                pred = predictors[fmt](vt, defaults)
                bad = []
                if pred is None or "params" in api["E"]:
                    if not (pred is None and "params" in api["E"]):
                        bad.append(("<acceptance>", str(api["E"].get("params")), "rejected" if pred is None else "accepted"))
                else:
                    wolf = pred.pop("_wolfenstein", None)
                    for name, exp in pred.items():
                        if name.startswith("ckm_"):
                            continue
                        got = api["P"].get(name)
                        if not equal_pred(name, got, exp):
                            bad.append((name, got, exp))
                    if wolf is not None and fmt == "thdm":
                        V = slha_model.ckm_from_wolfenstein(*wolf)
                        for i in range(3):
                            for j in range(3):
                                g = complex(api["P"].get("ckm_re(%d,%d)" % (i, j), float("nan")), api["P"].get("ckm_im(%d,%d)" % (i, j), float("nan")))
                                if not abs(g - V[i][j]) <= 1e-14:
                                    bad.append(("ckm(%d,%d)" % (i, j), str(g), str(V[i][j])))
                if "after_other_file" in api:
                    a2 = api["after_other_file"]
                    diff = [k for k in set(api["P"]) | set(a2["P"]) if not equal_pred("", a2["P"].get(k), api["P"].get(k))] + (["<acceptance>"] if ("params" in api["E"]) != ("params" in a2["E"]) else [])
                    chk.add_cell("%s|reader-object-reuse|second file read by the same reader" % fmt, 1, len(diff))
                    if diff:
                        chk.add_fail("C13:reader-object-reuse:%s" % fmt, "parameters filled from a file depend on a file the same reader object read before: %s" % sorted(diff)[:6],
                                     dict(format=fmt, file=vt, first_file=res[0][1], differing=sorted(diff)[:20]))
                chk.add_cell("%s|reader-model|%s" % (fmt, kind), 1, len(bad))
                if bad:
                    chk.add_fail("C13:reader-model:%s:%s" % (fmt, bad[0][0].split("(")[0]), "parameter %s filled as %r, reference model of the reader predicts %r" % bad[0],
                                 dict(format=fmt, input_text=vt, mismatches=[list(map(str, b)) for b in bad[:10]]))
                # (b) layout invariance of the program's result
                if kind == "reduced":
                    # another set of assignments: no invariance demanded; recorded only (a silently non-finite result for an incomplete file belongs to C16)
                    for un in (0, 1):
                        if runs[un]["exit"] == 0 and re.search(r"nan|inf", runs[un]["stdout"]):
                            chk.add_count("reduced file: exit 0 with a non-finite result (%s)" % fmt)
                elif kind != "original":
                    for un in (0, 1):
                        a, b = base_runs[un], runs[un]
                        if a["timeout"] or b["timeout"]:   # twice over the watchdog limit: inconclusive (termination is C14's clause)
                            chk.inconclusive += 1
                            chk.harness_errors.append("gm2calc.x exceeded the watchdog limit twice (%s): inconclusive" % fmt)
                            continue
                        same = a["exit"] == b["exit"] and a["stdout"] == b["stdout"] and not b["signal"] and not b["timeout"]
                        chk.add_cell("%s|layout-invariance|%s" % (fmt, "uncertainty" if un else "amu"), 1, 0 if same else 1)
                        if not same:
                            chk.add_fail("C13:layout-invariance:%s" % fmt, "rewrite changes the result: exit %s/%s stdout %r/%r" % (a["exit"], b["exit"], a["stdout"][:40], b["stdout"][:40]),
                                         dict(format=fmt, original=res[0][1], rewrite=vt, stdout_original=a["stdout"][:500], stdout_rewrite=b["stdout"][:500], stderr_rewrite=b["stderr"][:1500]))
                    if base_runs[0]["exit"] != 0 or not has_physics_output(base_runs[0]["stdout"]):
                        chk.add_count("base-input-without-result")
            chk.add_sample(dict(format=fmt, original_head=res[0][1][:200], rewrite_head=res[1][1][:400] if len(res) > 1 else ""), cap=6)

        # (c) rejection of tokens that are not entirely a finite number
        rej_jobs = []
        for idx, text in enumerate(texts):
            lines = text.split("\n")
            cand = []
            cur = None
            for li, line in enumerate(lines):
                t = line.split("#")[0].split()
                if not t:
                    continue
                if t[0].lower() == "block":
                    cur = t[1].upper()
                    continue
                if cur in READ_BLOCKS[fmt]:
                    nkey = 2 if cur in MATRIX_BLOCKS else 1
                    for pos in range(min(len(t), nkey + 1)):
                        cand.append((li, pos, cur))
            for tok in BAD_TOKENS:
                li, pos, blk = rnd.choice(cand)
                t = lines[li].split("#")[0].split()
                t[pos] = tok
                mod = lines[:li] + ["   " + "   ".join(t)] + lines[li + 1:]
                rej_jobs.append((idx, "read-block:%s" % ("key" if pos < (2 if blk in MATRIX_BLOCKS else 1) else "value"), tok, cli.config_block(0, 2, 1, 0, 0, 0, 1) + "\n".join(mod), True, blk))
                pass
            # keys that overflow the integer type the reader uses (the property's "overflow" for a key token): beyond INT_MAX, and 2^32 + the original key
            # (matrix blocks parse their indices as 64-bit Eigen::Index: an index beyond INT_MAX is there just an index outside the matrix, i.e. an unknown key)
            keycand = [c for c in cand if c[1] < 1 and c[2] not in MATRIX_BLOCKS]
            for mk in ("2147483648", "-2147483649", "99999999999", "18446744073709551617", "wrap"):
                li, pos, blk = rnd.choice(keycand)
                t = lines[li].split("#")[0].split()
                try:
                    tok = str(2 ** 32 + int(t[pos])) if mk == "wrap" else mk
                except ValueError:
                    continue
                t[pos] = tok
                mod = lines[:li] + ["   " + "   ".join(t)] + lines[li + 1:]
                rej_jobs.append((idx, "read-block:key", "integer-overflow(%s)" % ("2^32+key" if mk == "wrap" else mk), cli.config_block(0, 2, 1, 0, 0, 0, 1) + "\n".join(mod), True, blk))
            for tok in BAD_TOKENS:
                # the same token in a block that is not read: no effect
                foreign = text + "Block NOTREAD\n   1   %s\n   %s   2.0\n" % (tok, tok)
                rej_jobs.append((idx, "foreign-block", tok, cli.config_block(0, 2, 1, 0, 0, 0, 1) + foreign, False, "NOTREAD"))
            # invalid GM2CalcConfig values
            for key, val in [(0, "5"), (0, "-1"), (0, "1.5"), (1, "3"), (1, "-1"), (1, "0.5"), (2, "2"), (3, "-1"), (4, "0.5"), (5, "7"), (6, "2"), (0, "abc"), (1, "nan"), (2, "1e400"), (3, "1x"), (0, "1e10")]:
                cfgtxt = "Block GM2CalcConfig\n     %d     %s\n" % (key, val)
                rej_jobs.append((idx, "config-value", "%d:%s" % (key, val), text + cfgtxt, True, "GM2CALCCONFIG"))

        def do_rej(nj):
            n_, j = nj
            idx, kind, tok, t, expect_reject, blk = j
            r = cli.run_cli(binary, fmt, t, workdir=d, name="rej_%d.in" % n_)
            try:
                os.remove(r["path"])
            except OSError:
                pass
            return j, r
        base_out = {}
        for j, r in cli.pmap(do_rej, list(enumerate(rej_jobs))):
            idx, kind, tok, t, expect_reject, blk = j
            chk.evaluations += 1
            chk.conclusive += 1
            case = dict(format=fmt, kind=kind, token=tok, block=blk, input_text=t, exit=r["exit"], signal=r["signal"], stdout=r["stdout"][:1500], stderr=r["stderr"][:1500])
            if expect_reject:
                diag = bool(r["stderr"].strip()) or bool(re.search(r"(?m)^\s*4\s+\S", r["stdout"]))
                ok = r["exit"] == 1 and diag and not has_physics_output(r["stdout"]) and not r["signal"]
                chk.add_cell("%s|rejection|%s" % (fmt, kind), 1, 0 if ok else 1)
                if not ok:
                    chk.add_fail("C13:not-rejected:%s:%s" % (kind, classify(tok)), "token %r in %s of block %s: exit %s, diagnostic %s, physics output %s" % (tok, kind, blk, r["exit"], diag, has_physics_output(r["stdout"])), case)
            else:
                key = (idx,)
                ref = base_out.get(key)
                if ref is None:
                    ref = cli.run_cli(binary, fmt, cli.config_block(0, 2, 1, 0, 0, 0, 1) + texts[idx], workdir=d, name="ref_%d.in" % idx)
                    base_out[key] = ref
                ok = r["exit"] == ref["exit"] and r["stdout"] == ref["stdout"]
                chk.add_cell("%s|no-effect|%s" % (fmt, kind), 1, 0 if ok else 1)
                if not ok:
                    chk.add_fail("C13:token-in-unread-block-has-effect", "token %r in a block that is not read changes the result (exit %s vs %s)" % (tok, r["exit"], ref["exit"]), case)
    chk.min_conclusive = nfiles * 3
    chk.min_cells = 20
    chk.required_cells = ["slha|reader-model|rewrite", "gm2calc|reader-model|original", "thdm|reader-model|rewrite", "slha|layout-invariance|amu", "thdm|layout-invariance|uncertainty",
                          "slha|rejection|read-block:value", "gm2calc|rejection|read-block:key", "thdm|rejection|config-value", "slha|no-effect|foreign-block"]


def classify(tok):
    t = tok.lower()
    if t in ("nan", "inf", "-inf"): return "non-finite"
    if "e400" in t: return "overflow"
    if re.fullmatch(r"-?\d+(\.\d*)?([a-z,].*)", t) or t.endswith("e"): return "trailing-characters"
    return "text"
