"""C16 — unphysical input is rejected or flagged, never silently computed (DESIGN §5 C16)."""
import math
import os
import random
import re

from lib import build, cli, simple

LEVEL = "fault_enumeration"
HARNESSES = {"c16_defects": {}, "gen_inputs": dict(cfgs=("plain",))}
N_BASE = {"quick": 10, "thorough": 200}   # CLI base inputs per format


def set_entry(text, block, key, value):
    """Replace the value of (block, key) in the last block of that name; append the entry if it is absent."""
    lines = text.split("\n")
    start = None
    for i, l in enumerate(lines):
        t = l.split("#")[0].split()
        if t and t[0].lower() == "block" and len(t) > 1 and t[1].upper() == block.upper():
            start = i
    if start is None:
        return text + "Block %s\n   %s   %s\n" % (block, key, value)
    end = start + 1
    while end < len(lines) and not (lines[end].split() and lines[end].split()[0].lower() == "block"):
        end += 1
    keyt = key.split()
    for i in range(start + 1, end):
        t = lines[i].split("#")[0].split()
        if t[:len(keyt)] == keyt and len(t) > len(keyt):
            lines[i] = "   " + "   ".join(keyt) + "   " + value
            return "\n".join(lines)
    lines.insert(end, "   " + "   ".join(keyt) + "   " + value)
    return "\n".join(lines)


def get_entry(text, block, key):
    cur = None
    val = None
    for l in text.split("\n"):
        t = l.split("#")[0].split()
        if not t:
            continue
        if t[0].lower() == "block":
            cur = t[1].upper()
        elif cur == block.upper() and t[0] == key and len(t) > 1:
            val = float(t[1])
    return val


def thdm_tree_m2(lam, tb, m122, v2=246.21965 ** 2):
    """tree-level squared masses (h, H, A, H+) of the CP-conserving 2HDM in the generic basis, independent of the library"""
    b = math.atan(tb); sb, cb = math.sin(b), math.cos(b)
    l1, l2, l3, l4, l5, l6, l7 = lam
    mA = m122 / (sb * cb) - 0.5 * v2 * (2 * l5 + l6 / tb + l7 * tb)
    mHp = mA + 0.5 * v2 * (l5 - l4)
    m11 = mA * sb * sb + v2 * (l1 * cb * cb + 2 * l6 * sb * cb + l5 * sb * sb)
    m22 = mA * cb * cb + v2 * (l2 * sb * sb + 2 * l7 * sb * cb + l5 * cb * cb)
    m12 = -mA * sb * cb + v2 * ((l3 + l4) * sb * cb + l6 * cb * cb + l7 * sb * sb)
    tr, disc = m11 + m22, math.sqrt((m11 - m22) ** 2 + 4 * m12 * m12)
    return 0.5 * (tr - disc), 0.5 * (tr + disc), mA, mHp


def gauge_tachyon(t, pattern):
    """rewrite a gauge-basis THDM input so that its tree-level spectrum is tachyonic in exactly the given way (clear margins: |m^2| > (30 GeV)^2)"""
    tb = get_entry(t, "MINPAR", "3")
    if tb is None or not (tb > 0) or not math.isfinite(tb) or get_entry(t, "MASS", "25") is not None:
        return None
    # v^2 = MW^2 sw^2/(pi alpha_em(MZ)) from the SM inputs of this file (they vary from file to file)
    ainv, mz, mw = get_entry(t, "SMINPUTS", "1"), get_entry(t, "SMINPUTS", "4"), get_entry(t, "SMINPUTS", "9")
    if not ainv or not mz or not mw or not (0 < mw < mz):
        return None
    v2 = mw * mw * (1 - mw * mw / (mz * mz)) * ainv / math.pi
    rnd = random.Random("%s|%r" % (pattern, tb))
    M = 900.0
    for _ in range(200000):
        lam = [rnd.uniform(-4, 4) for _ in range(5)] + [0.0, 0.0]
        m122 = rnd.choice([0.0, rnd.uniform(-1, 1) * 1e5])
        h, H, A, Hp = thdm_tree_m2(lam, tb, m122, v2)
        if min(abs(h), abs(H), abs(A), abs(Hp)) < M:
            continue
        got = ("h>" if (h < 0 and H > 0 and -h > H) else "h<" if (h < 0 and H > 0) else "hH" if h < 0 else "") + ("A" if A < 0 else "") + ("P" if Hp < 0 else "")
        if got == pattern:
            for k, v in enumerate(lam):
                t = set_entry(t, "MINPAR", str(11 + k), repr(v))
            return set_entry(t, "MINPAR", "18", repr(m122))
    return None


def spinfo_entries(stdout):
    """the entries 3 (warning) and 4 (error) of a block SPINFO in the output (not any line that starts with 3 or 4)"""
    res, inside = [], False
    for l in stdout.split("\n"):
        t = l.split()
        if len(t) > 1 and t[0].lower() == "block":   # (a line "Block" without a name is not a block header for the SLHA reader either: it stays a line of the current block)
            inside = t[1].upper() == "SPINFO"
        elif inside and len(t) > 1 and t[0] in ("3", "4"):
            res.append(l)
    return res


# (name, kind, editor, force_cannot_override) ; kind: input | tachyon
def defects_for(fmt):
    D = []
    if fmt == "gm2calc":
        mz = lambda t: get_entry(t, "SMINPUTS", "4")
        D += [("MW>=MZ", "input", lambda t: set_entry(t, "SMINPUTS", "9", repr(mz(t) * 1.01)), False),
              ("MW=0", "input", lambda t: set_entry(t, "SMINPUTS", "9", "0"), True),
              ("MZ=0", "input", lambda t: set_entry(t, "SMINPUTS", "4", "0"), False),
              ("m_mu=0", "input", lambda t: set_entry(t, "SMINPUTS", "13", "0"), False),
              ("mu=0", "input", lambda t: set_entry(t, "GM2CalcInput", "4", "0"), False),
              ("M1=0", "input", lambda t: set_entry(t, "GM2CalcInput", "5", "0"), False),
              ("M2=0", "input", lambda t: set_entry(t, "GM2CalcInput", "6", "0"), False),
              ("tanb=0", "input", lambda t: set_entry(t, "GM2CalcInput", "3", "0"), False),
              ("msq(1,1)^2<0", "input", lambda t: set_entry(t, "GM2CalcInput", "15", "-100"), False),
              ("mse(1,1)^2<0", "input", lambda t: set_entry(t, "GM2CalcInput", "12", "-30"), False),
              ("sneutrino-tachyon(D-term-only)", "tachyon", lambda t: set_entry(t, "GM2CalcInput", "10", "25"), False),   # 0 < msl(2,2)^2 < MZ^2 |cos 2beta| / 2: no negative soft mass
              ("smuon-tachyon", "tachyon", lambda t: set_entry(t, "GM2CalcInput", "13", "-900"), False),
              ("stau-tachyon", "tachyon", lambda t: set_entry(t, "GM2CalcInput", "14", "-900"), False),
              ("stop-tachyon", "tachyon", lambda t: set_entry(t, "GM2CalcInput", "20", "-3000"), False),
              ("sbottom-tachyon", "tachyon", lambda t: set_entry(t, "GM2CalcInput", "23", "-3000"), False)]
    elif fmt == "slha":
        # effective parameters only: MASS[24] overrides SMINPUTS[9]; MSOFT 32/35, HMIX 1, MSOFT 1,2 are only initial guesses
        mz = lambda t: get_entry(t, "SMINPUTS", "4")
        D += [("MW>=MZ", "input", lambda t: set_entry(t, "MASS", "24", repr(mz(t) * 1.01)), False),
              ("MZ=0", "input", lambda t: set_entry(t, "SMINPUTS", "4", "0"), False),
              ("m_mu=0", "input", lambda t: set_entry(t, "SMINPUTS", "13", "0"), False),
              ("tanb=0", "input", lambda t: set_entry(t, "HMIX", "2", "0"), False),
              ("mqL1^2<0", "input", lambda t: set_entry(t, "MSOFT", "41", "-100"), False),
              ("meR^2<0", "input", lambda t: set_entry(t, "MSOFT", "34", "-30"), False),
              ("stau-tachyon", "tachyon", lambda t: set_entry(t, "MSOFT", "36", "-2000"), False),
              ("stop-tachyon", "tachyon", lambda t: set_entry(t, "MSOFT", "46", "-5000"), False),
              ("sbottom-tachyon", "tachyon", lambda t: set_entry(t, "MSOFT", "49", "-5000"), False)]
    else:
        mz = lambda t: get_entry(t, "SMINPUTS", "4")
        def massbasis(t):
            return get_entry(t, "MASS", "25") is not None
        D += [("tanb=0", "input", lambda t: set_entry(t, "MINPAR", "3", "0"), False),
              ("tanb<0", "input", lambda t: set_entry(t, "MINPAR", "3", "-2.5"), False),
              ("MW>=MZ", "input", lambda t: set_entry(t, "SMINPUTS", "9", repr(mz(t) * 1.01)), False),
              ("MW=0", "input", lambda t: set_entry(t, "SMINPUTS", "9", "0"), False),
              ("MZ=0", "input", lambda t: set_entry(t, "SMINPUTS", "4", "0"), False),
              ("m_mu=0", "input", lambda t: set_entry(t, "SMINPUTS", "13", "0"), False),
              ("invalid-yukawa-type(7)", "input", lambda t: set_entry(t, "MINPAR", "24", "7"), True),
              ("invalid-yukawa-type(0)", "input", lambda t: set_entry(t, "MINPAR", "24", "0"), True),
              ("undecidable-basis(both)", "input", lambda t: set_entry(set_entry(set_entry(t, "MINPAR", "11", "0.5"), "MASS", "25", "125"), "MASS", "35", "400"), True),
              # mass-basis file that also gives one single gauge-basis coupling lambda_1..5, of either sign (all the others stay unset)
              ] + [("undecidable-basis(mass basis and lambda_%d=%s)" % (k - 10, v), "input", (lambda t, k=k, v=v: (set_entry(t, "MINPAR", str(k), v) if massbasis(t) else None)), True)
                   for k in (11, 12, 13, 14, 15) for v in ("-0.3", "0.3", "-2")] + [
              ("undecidable-basis(mass basis and lambda_4=-0.4 and lambda_5=-0.3)", "input", lambda t: (set_entry(set_entry(t, "MINPAR", "14", "-0.4"), "MINPAR", "15", "-0.3") if massbasis(t) else None), True),
              ("mh>mH", "input", lambda t: (set_entry(set_entry(t, "MASS", "25", "600"), "MASS", "35", "300") if massbasis(t) else None), False),
              ("|sba|>1", "input", lambda t: (set_entry(t, "MINPAR", "20", "1.5") if massbasis(t) else None), False),
              ("|sba|>1(by 1 ulp)", "input", lambda t: (set_entry(t, "MINPAR", "20", "1.0000000000000002") if massbasis(t) else None), False),
              ("|sba|>1(by 1e-12)", "input", lambda t: (set_entry(t, "MINPAR", "20", "-1.000000000001") if massbasis(t) else None), False),
              ("|sba|>1(by 1e-9)", "input", lambda t: (set_entry(t, "MINPAR", "20", "1.000000001") if massbasis(t) else None), False),
              ("mA<0", "input", lambda t: (set_entry(t, "MASS", "36", "-300") if massbasis(t) else None), False),
              ("mHp<0", "input", lambda t: (set_entry(t, "MASS", "37", "-300") if massbasis(t) else None), False),
              ("mh<0", "input", lambda t: (set_entry(t, "MASS", "25", "-125") if massbasis(t) else None), False),
              ("tachyon(m12^2<<0)", "tachyon", lambda t: (set_entry(t, "MINPAR", "18", "-1e6") if not massbasis(t) else None), False),
              ("tachyon(h only, |mh^2|>mH^2)", "tachyon", lambda t: gauge_tachyon(t, "h>"), False),
              ("tachyon(h only, |mh^2|<mH^2)", "tachyon", lambda t: gauge_tachyon(t, "h<"), False),
              ("tachyon(A only)", "tachyon", lambda t: gauge_tachyon(t, "A"), False),
              ("tachyon(H+ only)", "tachyon", lambda t: gauge_tachyon(t, "P"), False)]
    return D


def run(chk):
    chk.rule = ("documented untreatable inputs (MSSM: MW>=MZ, MW=0, MZ=0, m_mu=0, mu=0, M1=0, M2=0, tan b=0, tan b=inf, negative soft masses^2, tachyon in each "
                "monitored sector; THDM: tan b<=0, mh>mH, |sba|>1, negative masses, MW>=MZ, MW=0, MZ=0, m_mu=0, invalid Yukawa type, undecidable basis, tachyon) "
                "applied to valid random points alone and in pairs x force-output on/off x {C++ API, C API, real CLI in each input format}; defects are injected "
                "into parameters that are effective in the given format. Oracle: decision table from the property. cell = model x interface x defect x force; "
                "the documented defect list is enumerated completely, base points are sampled; distinct_nontrivial = non-empty cells")
    chk.assumptions = ["the MSSM C interface has no force-output setter: C entry points are exercised without force only",
                       "'massless lightest chargino' cannot be produced exactly through decimal input (|MCha(0)| < 2.2e-16 is required): not injected, counted",
                       "SLHA format: mu, M1, M2, MSOFT 32/35 are only initial guesses of the conversion, so mu=0, M1=0, M2=0 are not injectable there"]
    n = simple.run(chk, "c16_defects", 2400, 60000, HARNESSES["c16_defects"])
    # ---- CLI part
    rnd = random.Random(chk.seed * 104729 + 7)
    binary = chk.build(build.cli, "plain")
    nb = max(1, int(N_BASE[chk.tier] * chk.scale))
    for fmt in ("gm2calc", "slha", "thdm"):
        d = os.path.join(chk.workdir, "cli_" + fmt)
        texts = cli.gen_inputs(chk, fmt, nb, chk.seed + 1000, d)
        defs = defects_for(fmt)
        jobs = []
        for idx, text in enumerate(texts):
            combos = [(a,) for a in range(len(defs))] + [tuple(rnd.sample(range(len(defs)), 2)) for _ in range(len(defs))]
            for cb in combos:
                t = text
                names, kinds, fco = [], [], False
                for k in cb:
                    nm, kind, ed, f = defs[k]
                    t2 = ed(t)
                    if t2 is None:
                        t = None
                        break
                    t = t2; names.append(nm); kinds.append(kind); fco = fco or f
                if t is None:
                    continue
                for force in (0, 1):
                    for ofmt in (0, 4):
                        jobs.append((idx, "+".join(names), kinds, fco, force, ofmt, cli.config_block(ofmt, 2, 1, force, 0, 0, 1) + t, len(cb)))

        def do(nj):
            n_, j = nj
            r = cli.run_cli(binary, fmt, j[6], workdir=d, name="d_%d.in" % n_)
            try:
                os.remove(r["path"])
            except OSError:
                pass
            return j, r
        from checks.c13 import has_physics_output
        for j, r in cli.pmap(do, list(enumerate(jobs))):
            idx, name, kinds, fco, force, ofmt, t, ncomb = j
            chk.evaluations += 1
            chk.conclusive += 1
            mssm = fmt != "thdm"
            diag = bool(r["stderr"].strip()) or bool(spinfo_entries(r["stdout"]))
            phys = has_physics_output(r["stdout"])
            problem_line = "Problem:" in r["stderr"] or any("roblem" in x for x in spinfo_entries(r["stdout"]))
            case = dict(format=fmt, defect=name, force=force, output_format=ofmt, input_text=t, exit=r["exit"], signal=r["signal"], stdout=r["stdout"][-1500:], stderr=r["stderr"][:1500])
            single = name if ncomb == 1 else "pair"
            cell = "%s|CLI|%s|force%d" % ("MSSM:" + fmt if mssm else "THDM", single, force)
            if r["timeout"]:   # twice over the watchdog limit: inconclusive here (termination is C14's clause), never a verdict
                chk.conclusive -= 1
                chk.inconclusive += 1
                chk.harness_errors.append("gm2calc.x exceeded the watchdog limit twice (%s, %s): inconclusive" % (fmt, name))
                continue
            if r["signal"] or r["exit"] not in (0, 1):
                chk.add_cell(cell, 1, 1)
                chk.add_fail("C16:CLI:abnormal-termination", "%s: exit=%s signal=%s" % (name, r["exit"], r["signal"]), case)
                continue
            if not force:
                ok = r["exit"] == 1 and diag and not phys
                what = "not refused: exit %s, diagnostic %s, physics output %s" % (r["exit"], diag, phys)
                key = "C16:CLI:%s:noforce:%s" % (fmt, single)
            else:
                tach = "tachyon" in kinds
                if mssm:
                    # proceeds with a warning or problem; exit 1 iff a problem (tachyon) is flagged, with output
                    exp_exit = 1 if problem_line else 0
                    ok = phys and diag and r["exit"] == exp_exit and (not tach or problem_line or "input" in kinds)
                else:
                    ok = phys and diag and r["exit"] == 0
                what = "force-output: exit %s, warning/problem emitted %s, result produced %s" % (r["exit"], diag, phys)
                key = "C16:CLI:%s:force:%s" % (fmt, single)
                if not ok and fco and not phys:
                    which = [n for n in name.split("+") if any(n == dd[0] and dd[3] for dd in defs)]
                    key = "C16:force-does-not-override:" + re.sub(r"\(.*\)", "", which[0])
                if not ok and not phys and "vd = 0" in (r["stderr"] + r["stdout"]) and any(n in ("MW=0", "MW=MZ") for n in name.split("+")):
                    key = "C16:force-does-not-override:" + [n for n in name.split("+") if n in ("MW=0", "MW=MZ")][0]
            chk.add_cell(cell, 1, 0 if ok else 1)
            if not ok:
                chk.add_fail(key, "%s (%s input, force=%d): %s" % (name, fmt, force, what), case)
            # exit status non-zero <=> refused or (MSSM) problem flagged; a result without error, problem or warning is finite
            if phys and not diag and re.search(r"nan|inf", r["stdout"].lower().replace("info", "")):
                chk.add_fail("C16:CLI:silent-nonfinite-result", "%s: non-finite result printed without error, problem or warning" % name, case)
            if r["exit"] == 1 and phys and not (mssm and problem_line):
                chk.add_fail("C16:CLI:exit-1-with-result-but-no-problem", "%s: exit status 1 although a result was produced and no problem was flagged" % name, case)
            if r["exit"] == 0 and not phys:
                chk.add_fail("C16:CLI:exit-0-without-result", "%s: exit status 0 but no result" % name, case)
        chk.add_sample(dict(format=fmt, defects=[dd[0] for dd in defs]), cap=8)
    chk.add_count("massless-lightest-chargino:not-injectable")
    chk.min_conclusive = n // 2
    chk.min_cells = 80
    chk.required_cells = ["MSSM|C++|MW>=MZ|force0", "MSSM|C++|stau-tachyon|force1", "MSSM|C|mu=0|code-matches", "THDM|C++|mh>mH|force0", "THDM|C|tanb=0|force1",
                          "MSSM:gm2calc|CLI|M1=0|force0", "MSSM:slha|CLI|MW>=MZ|force1", "THDM|CLI|MW>=MZ|force0", "THDM|CLI|tachyon(m12^2<<0)|force0"]
