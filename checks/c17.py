"""C17 — the C interface mirrors the C++ interface (DESIGN §5 C17)."""
from lib import simple

HARNESSES = {"c17_c_api": {}}


def run(chk):
    chk.rule = ("random histories of up to 40 C-API calls on an MSSM handle (17+3+8 setters with finite and non-finite values, all getters incl. complex mixing "
                "elements with and without the imaginary-part pointer, calculate_masses/convert_to_onshell(_params) with error codes, 15 amu/uncertainty functions, "
                "the uncertainty overloads, both string getters with exact-size heap buffers of length 0..64, print, free, free(NULL)); ~30% start on a fresh handle; "
                "every call mirrored on a C++ object.  Every 4th history: THDM handle from a random mass/gauge basis incl. non-finite values and Yukawa types 0 and 7, "
                "SM/config defaults.  The ASan+UBSan build is the memory oracle. cell = model x clause x function; distinct_nontrivial = non-empty cells")
    chk.assumptions = ["indices passed to indexed setters/getters are always valid (out-of-range indices are not in the property)",
                       "enum values outside the representable range of the C enum in C++ (e.g. 1000) would be UB of the harness and are not generated; 0 and 7 are"]
    n = simple.run(chk, "c17_c_api", 48000, 2000000, HARNESSES["c17_c_api"], crash_key=None)
    chk.min_conclusive = n // 2
    chk.min_cells = 120
    chk.required_cells = ["MSSM|value|get_MChi", "MSSM|set-then-get|Ae", "MSSM|error-code|InvalidInput", "MSSM|error-code|NoError", "MSSM|NaN-when-C++-throws|", "MSSM|string-getter|len0",
                          "THDM|error-code|NoError", "THDM|error-code|UnknownError|enum-out-of-range", "THDM|value|thdm_calculate_amu_2loop", "SM|defaults"]
