"""C02 — multi-variable loop functions (DESIGN §5 C02)."""
from lib import simple

HARNESSES = {"c02_multivar": dict(with_mpref=True)}


def run(chk):
    chk.rule = ("argument tuples with pairwise ratios in [1e-6,1e6]: generic, 2 or 3 arguments equal within 1e-12..1e-1 and exactly, near 1, "
                "near and around the threshold sqrt x + sqrt y = sqrt z, both signs of lambda^2, around the (10 eps)^(1/4) switches, random "
                "permutations; difference quotients exactly equal or >= 1e-3 apart incl. x near 1/4, 1e2, 1e3; FCWu/FCWd/f_CSu/f_CSd on the nine "
                "physical quark pairs x mH+ in [50,5000] GeV; oracle: 200-digit defining expressions, permutation symmetry, homogeneity (k=2^n "
                "bit-exact, random k), documented zero limits. cell = function x clause/mode x closeness/decade; distinct_nontrivial = non-empty cells")
    chk.assumptions = ["absolute floor 1e-3*F_typ (Phi: z_max, lambda_2: z_max^2, Iabc: 1/c_max^2, Fa/Fb/FPZ/FSZ/FCWl: value at (1,1)) as the property allows",
                       "Phi with |lambda^2|/z^2 < 1e-13 is skipped (returns 0 by design; consequences are C11)",
                       "FCWl is checked for arguments <= 1e3 only (f_CSl large-argument finding of C01)"]
    n = simple.run(chk, "c02_multivar", 80000, 800000, HARNESSES["c02_multivar"])
    chk.min_conclusive = n // 2
    chk.min_cells = 300
    chk.required_cells = ["Phi|acc|near-threshold", "Phi|acc|lambda2-negative-region", "Iabc|acc|three-near-equal", "Fa|acc|equal", "FSZ|acc|exactly-equal",
                          "FCWu|acc|tb", "zero-limit|", "Phi|homogeneity-pow2", "Iabc|symmetry"]
