"""C11 — finiteness and continuity across removable singularities (DESIGN §5 C11)."""
import os
from lib import simple

HARNESSES = {"c11_continuity": {}}


def run(chk):
    chk.rule = ("one evaluation = one base point with all its paths. THDM: for each of mh, mH, mA, mH+ every target m0 in {m_j, 2m_j, m_j/2, m_j+-MW, m_j+-MZ, "
                "MW-m_j, m_j+m_k, |m_j-m_k|, MZ, MW, 2MW, 2MZ, mhSM, 2 m_f, m_f, and for H+ the quark thresholds m_u+-m_d} in [10,1e4] GeV; MSSM: ten input "
                "parameters x ~60 spectrum/parameter coincidences located by bisection to 1 ulp (chi0=smuon, x=1/4, chi+-=snu, 2 chi+- = MA/mH/mh, "
                "2 sfermion = mH/mh, |M1|=|mu|, ...). Per path 23 values (d = 0, +-1e-13..+-1e-4, +-1e-3) of every contribution, sub-part, sum "
                "and uncertainty; sums are judged on the sum of absolute parts. cell = model x quantity x class; distinct_nontrivial = non-empty cells")
    chk.assumptions = ["magnitude of a sum = sum of absolute values of its parts (DESIGN 4.1): a sub-percent jump of one part cannot fail a cancelling sum",
                       "paths whose end points differ by more than 20% of the magnitude are inconclusive, as the property says",
                       "failures within 3e-3 of the listed singular configurations (Kaellen(S,H+,W)=0, mH+=MW, mh=2MW, quark thresholds) carry the key of that known finding"]
    quick = chk.tier == "quick"
    n = simple.run(chk, "c11_continuity", 480, 6000, HARNESSES["c11_continuity"], args=((["--maxclasses", "160", "--maxpaths", "120"] if quick else []) + (["--literal", "1"] if os.environ.get("C11_LITERAL") else [])), timeout=7200)
    chk.min_conclusive = n // 3
    chk.min_cells = 500
    chk.required_cells = ["THDM|2LB|mA=mHp+MW", "THDM|2LF_charged|mHp=m_u2", "THDM|1L|mH=mA", "MSSM|1Lchi0|mchi0=msmu", "MSSM|2LaCha|2mcha", "MSSM|1Lchipm|mcha0=msnu"]
