"""C20 — SM layer (DESIGN §5 C20)."""
from lib import simple

HARNESSES = {"c20_sm_layer": {}}


def run(chk):
    chk.rule = ("Wolfenstein parameters in [-1,1]^4 with concentration at |lambda|,|A| -> 1, exactly on and outside the boundary; angles/phases anywhere; "
                "random MW < MZ, alpha_em; running top/bottom/tau masses over Q in [1,1e6] for alpha_s(MZ) in [0.05,0.3], mt in [100,300], mb in [2,6] "
                "against a long-double re-evaluation of Eqs. (5), (9) of hep-ph/0207126 with own bisection for Lambda_QCD; THDM Yukawas with running "
                "on/off under a change of alpha_s. cell = clause x class; distinct_nontrivial = non-empty cells")
    chk.assumptions = ["the reference's own bracket test on [0.001,10] decides whether a Lambda_QCD warning is expected",
                       "m_b running with reference Lambda_QCD >= mb/2 (Landau pole) is a listed known finding"]
    n = simple.run(chk, "c20_sm_layer", 400000, 8000000, HARNESSES["c20_sm_layer"])
    chk.min_conclusive = n // 2
    chk.min_cells = 25
    chk.required_cells = ["CKM:unitarity||lambda|->1", "CKM:out-of-range-rejected|outside", "CKM:unitarity-from-angles|", "EW:v=2mw/g2", "running:mb(mt)|bracketed",
                          "running:fallback-warning-iff-not-bracketed|", "running-bypass|off"]
