"""C09 — equivalent THDM Yukawa parametrisations (DESIGN §5 C09)."""
from lib import simple

HARNESSES = {"c09_thdm_param": {}}


def run(chk):
    chk.rule = ("pairs of THDM models on the same random mass-basis point (as C08; unit/real/complex CKM): (a) type I/II/X/Y vs aligned with the zeta_f of "
                "Table 1, running on and off, all a_mu parts, uncertainties and the twelve Yukawa getters; (b) running off, aligned(zeta_f in [-100,100], "
                "Delta_f in [-1,1]^9) vs general with Pi_f encoding the same couplings; (c) parameters documented as ignored changed at random => "
                "bit-identical results. cell = relation x quantity x type/running; distinct_nontrivial = non-empty cells")
    chk.assumptions = ["differences are measured on the sum of absolute terms re-assembled from the model's getters and fuS..flHp (DESIGN 4.1)",
                       "Delta_f in types I..Y is not documented as ignored (it enters rho_f) and is set to zero in relation (a)"]
    n = simple.run(chk, "c09_thdm_param", 150000, 3000000, HARNESSES["c09_thdm_param"])
    chk.min_conclusive = n // 2
    chk.min_cells = 100
    chk.required_cells = ["type-vs-aligned|amu2L_fermionic|type1|run", "type-vs-aligned|amu2L_bosonic|type4|norun", "type-vs-aligned|yuHp|type2",
                          "aligned-vs-general|amu1L", "aligned-vs-general|amu2L_fermionic", "ignored-parameters|zeta,Pi-in-type1..Y", "ignored-parameters|Pi-in-aligned",
                          "ignored-parameters|zeta,Delta-in-general"]
