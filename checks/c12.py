"""C12 — matrix decompositions (DESIGN §5 C12)."""
from lib import build

HARNESSES = {"c12_linalg": dict(parts=14)}
N = {"quick": 60000, "thorough": 6000000}


def run(chk):
    chk.rule = ("hostile real/complex matrices (uniform, 12 decades, near-diagonal, exactly repeated eigen/singular values "
                "as diagonal and as Q D Q^T, rank-deficient, zero rows, +-pairs, permuted ordered diagonals, zero) through every "
                "decomposition routine and overload of gm2_linalg.hpp for N=2,3,4; a cell is (routine, matrix class, contract clause); "
                "distinct_nontrivial = number of non-empty cells")
    chk.assumptions = ["long-double cyclic Jacobi (2N real embedding) is the reference for eigen/singular values",
                       "hermitian/Takagi 3x3 go through Eigen's closed-form computeDirect and are held to 1e-6 only (no model instantiates them)",
                       "complex symmetric Takagi is not instantiated by any model: statistics only"]
    cfgs = ["san"] if chk.tier == "quick" else ["san", "plain"]
    n = int(N[chk.tier] * chk.scale)
    for cfg in cfgs:
        b = chk.build(build.harness, cfg, "c12_linalg", **HARNESSES["c12_linalg"])
        chk.run_workers(b, [], n if cfg == "san" or chk.tier == "quick" else n, cfg=cfg, tag=cfg)
    chk.min_conclusive = n // 2
    chk.min_cells = 200
    chk.required_cells = ["fs_diagonalize_hermitian<real,2>", "fs_diagonalize_symmetric<real,4>", "fs_svd<real->complex,2>",
                          "fs_svd<complex,3>"]
