"""C01 — one-variable loop and special functions (DESIGN §5 C01)."""
from lib import simple

HARNESSES = {"c01_onevar": dict(with_mpref=True)}


def run(chk):
    chk.rule = ("each case draws one of 20 real functions or the complex dilogarithm and an argument from a mixture: log-uniform [1e-14,1e12]; "
                "1 +- 10^u; both sides of the relative-closeness windows 0.01..0.08; 1/4 (1 +- 10^u); 1e2 and 1e3 (1 +- 10^u); [1e-16,1e-13]; "
                "ladders of adjacent doubles across 23 nominal regime boundaries; negatives; exact points 0, 1/4, 1; dilog over +-[1e-300,1e300] and "
                "its reduction boundaries; Cl2 on and beyond the principal period; complex z on |z|=1, Re z=1/2, Im z=+-0, near 1, |z|<=1e8. "
                "Oracle: 200-digit closed form (cross-checked against mpmath at setup). cell = function x nominal regime x decade; "
                "distinct_nontrivial = non-empty cells")
    chk.assumptions = ["reference = published closed forms evaluated with 200 digits (self-test: mpmath polylog/clsin, quadrature of f_PS, f_S, Phi)",
                       "near an isolated zero the error is measured on 1e-2*max(|f(x/2)|,|f(2x)|) (DESIGN 4.1)",
                       "arguments in (0,1e-14) are outside the stated domain: reported, no verdict"]
    n = simple.run(chk, "c01_onevar", 120000, 1000000, HARNESSES["c01_onevar"])
    chk.min_conclusive = n // 2
    chk.min_cells = 300
    chk.required_cells = ["F1C|window-edge", "f_PS|near1/4", "f_S|near1e2", "F3|near1e2", "dilog|near1", "Cl2|principal-period",
                          "cdilog|unit-circle", "F2N|negative", "F1C|exact-point", "f_CSl|adjacent-doubles"]
