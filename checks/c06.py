"""C06 — invariance under the joint sign flip of mu, M1, M2, M3, A_f (DESIGN §5 C06)."""
from lib import simple

HARNESSES = {"c06_signflip": {}}


def run(chk):
    chk.rule = ("pairs (point, sign-flipped point) of on-shell MSSM points: tan beta 1.5..80, independent random signs of mu, M1, M2, M3 and all A_f, "
                "three independent generations, light/heavy squarks, large third-generation mixing; ~75 named quantities per pair (all public a_mu "
                "functions, approximations, Delta corrections, tan_beta_cor, two-loop helper logs, coupling arrays, every mass); cell = quantity x "
                "sign pattern; distinct_nontrivial = non-empty cells")
    chk.assumptions = ["relative 1e-9 with denominator max(|a|,|b|,S): S = sum|1L terms| for one-loop and photonic sums, 1e-3 of it for other a_mu pieces, 1e-6 for dimensionless corrections (DESIGN 4.1)",
                       "points whose spectrum calculation fails or flags a problem are regenerated and counted as inconclusive"]
    n = simple.run(chk, "c06_signflip", 100000, 3000000, HARNESSES["c06_signflip"])
    chk.min_conclusive = n // 3
    chk.min_cells = 300
    chk.required_cells = ["amu_2loop|sgn++++", "amu_2loop|sgn----", "delta_bottom_correction|sgn+-+-", "amu2LaSferm|", "MChi|", "BBN|"]
