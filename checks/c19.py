"""C19 — purity, determinism, thread safety (DESIGN §5 C19)."""
import json
import os
import random
import re
import subprocess

from lib import build, cli, core

HARNESSES = {"c19_purity": dict(threads=True, cfgs=("san", "tsan"))}


def static_storage(chk):
    """diagnostic: writable static-storage symbols that come from library objects"""
    lib, _ = chk.build(build.library, "plain")
    r = subprocess.run(["nm", "-S", "-C", "--defined-only", lib], capture_output=True, text=True)
    syms = []
    for line in r.stdout.splitlines():
        t = line.split(None, 3)
        if len(t) == 4 and t[2] in ("b", "B", "d", "D"):
            syms.append(t[3])
    return sorted(set(syms))


def run(chk):
    chk.rule = ("(1) single thread: for random valid MSSM (incl. converted) and THDM models, a byte-wise state digest (all getters + streamed print) before and after each of "
                "18/7 calculation functions, the value on a repeated call and on a copy, and the results of 5 points evaluated in two different orders interleaved with "
                "other models; (2) ThreadSanitizer build: 2,3,4,8,16 threads each constructing models (calculate_masses, convert_to_onshell, THDM constructor) and running "
                "the full set of evaluations on their own models and on shared const models, with random sched_yield, compared bit-exactly with a sequential run; any "
                "TSan report is a violation. cell = model x function x clause / thread count x clause; distinct_nontrivial = non-empty cells; distinct completion orders "
                "of (thread, iteration) are counted as interleavings")
    chk.assumptions = ["TSan's happens-before analysis reports an unsynchronised access independently of timing, but only on code the threads executed",
                       "library warnings go to fd 2 in the threaded harness (no rdbuf swapping); points are chosen so that no warnings are produced"]
    quick = chk.tier == "quick"
    n_single = int((4000 if quick else 300000) * chk.scale)
    n_thr = int((160 if quick else 6000) * chk.scale)
    for cfg in (["san"] if quick else ["san", "plain"]):
        b = chk.build(build.harness, cfg, "c19_purity", threads=True)
        res = chk.run_workers(b, ["--mode", "single"], n_single, cfg=cfg, tag="s" + cfg)
        # a sample of the cases again, each in a process of its own: same digest as in the bulk process that had computed other points before
        keys = sorted(k for k in chk.digests if k[0] == cfg and k[2] is not None and k[2] >= 1)
        rnd = random.Random(chk.seed * 31 + 7)
        rnd.shuffle(keys)
        sample = keys[:int((64 if quick else 1500) * chk.scale) or 1]
        wargs = {}
        for w, args, rc, out, err, dt in res:
            wargs[w] = args
        def fresh(key):
            _, w, i = key
            a = list(wargs[w])
            o = os.path.join(chk.workdir, "fresh_%s_%d_%d.jsonl" % (cfg, w, i))
            a[a.index("--out") + 1] = o
            r = subprocess.run(a + ["--only", str(i)], stdout=subprocess.DEVNULL, stderr=subprocess.DEVNULL, timeout=600, env=dict(os.environ, **core.SAN_ENV))
            h = None
            try:
                for line in open(o):
                    if '"t":"digest"' in line:
                        h = json.loads(line)["h"]
                os.remove(o)
            except OSError:
                pass
            return key, h, r.returncode
        for key, h, rc in cli.pmap(fresh, sample):
            if h is None:
                chk.harness_errors.append("fresh-process run of case %r gave no digest (exit %s)" % (key, rc))
                continue
            same = h == chk.digests[key]
            chk.add_cell("fresh-process|same results as in the bulk process|%s" % cfg, 1, 0 if same else 1)
            if not same:
                chk.add_fail("C19:history-dependence:bulk-process-differs-from-fresh-process", "the results of a point computed in a process that evaluated other points before differ from those of a process of its own",
                             dict(cfg=cfg, worker=key[1], case=key[2], digest_bulk=chk.digests[key], digest_fresh=h, replay_args=wargs[key[1]][1:] + ["--only", str(key[2])]))
    bt = chk.build(build.harness, "tsan", "c19_purity", threads=True)
    errf = os.path.join(chk.workdir, "tsan-stderr")
    nproc = 4 if quick else 4
    chk.run_workers(bt, ["--mode", "threads", "--iters", "6"], n_thr, nworkers=nproc, cfg="tsan", tag="t", timeout=7200,
                    env={"TSAN_OPTIONS": "halt_on_error=0:exitcode=97:report_signal_unsafe=0:second_deadlock_stack=1"})
    if not quick:
        # vary the number of CPUs the threads can run on: other interleavings
        for cpus in ("0", "0-1", "0-3"):
            wrapper = os.path.join(chk.workdir, "taskset_%s.sh" % cpus.replace("-", "_"))
            open(wrapper, "w").write("#!/bin/sh\nexec taskset -c %s %s \"$@\"\n" % (cpus, bt))
            os.chmod(wrapper, 0o755)
            chk.run_workers(wrapper, ["--mode", "threads", "--iters", "4"], n_thr // 4, nworkers=2, cfg="tsan", tag="c" + cpus.replace("-", "_"), timeout=7200,
                            env={"TSAN_OPTIONS": "halt_on_error=0:exitcode=97:report_signal_unsafe=0"})
    inter = [k for k in chk.counts if k.startswith("interleaving:")]
    chk.extra["distinct_interleavings_observed"] = len(inter)
    for k in inter:
        del chk.counts[k]
    try:
        syms = static_storage(chk)
        chk.extra["writable_static_symbols_in_library"] = syms[:60]
        chk.extra["writable_static_symbols_count"] = len(syms)
    except Exception as e:  # diagnostic only
        chk.notes.append("static storage monitor failed: %r" % (e,))
    chk.min_conclusive = (n_single + n_thr) // 3
    chk.min_cells = 60
    chk.required_cells = ["MSSM|calculate_amu_2loop|argument-unchanged", "THDM|calculate_amu_2loop_bosonic|repeat-bit-identical", "history|evaluation-order-independence",
                          "threads2|own-models", "threads16|shared-const-model", "threads8|own-models"]
