"""C10 — THDM SM limit and decoupling (DESIGN §5 C10)."""
from lib import simple

HARNESSES = {"c10_thdm_limits": {}}


def run(chk):
    chk.rule = ("(1) mass-basis points with sin(beta-alpha) = +-1, running off, mh = m_hSM = m for two random m in [10,190] GeV: a1L and fermionic a2L "
                "must not depend on m, relative to max(|a|, size of the light-Higgs term measured on the same model); (2) gauge-basis families with "
                "|lambda_i| <= 2, tan beta 0.3..50, all six types, running off, m12^2 = M^2 sb cb, m_hSM = the model's own mh: "
                "K = |a| M^2/(1+ln^2(M/MZ)) on 5 points in [1,3.16] TeV and 5 in [10,31.6] TeV, R = max_high K/max_low K bounded per component; "
                "(3) the same on exactly aligned families (gauge basis: lambda_1 = lambda_2 = lambda_345, lambda_6,7 = 0; mass basis: sin(beta-alpha) = +-1, "
                "mX^2 = M^2 + c_X v^2, lambda_6,7 free) with tighter ratio limits and, for the bosonic part, a bound on K itself in the high band. "
                "cell = clause x Yukawa type; a family / pair is one evaluation; distinct_nontrivial = non-empty cells")
    chk.assumptions = ["the literal per-step criterion |a(M sqrt10)| <= 0.45 |a(M)| is falsified by correct code at zero crossings: reported as counts only (DESIGN C10)",
                       "band-ratio limits 10 / 70 / 2000 (1L / fermionic / bosonic) = >= 10x the worst value observed on the unchanged tree; exactly aligned families: 3 / 6 / 2000 "
                       "and K_high(bosonic) <= 1e-6 (gauge construction) / 2e-3 GeV^2 (mass construction), 10x the saturating maxima observed over 5e5 families each",
                       "families that touch a known singular configuration of the bosonic part (C11 findings, within 3e-3 MW) are not judged for the bosonic part (counted)"]
    n = simple.run(chk, "c10_thdm_limits", 60000, 2000000, HARNESSES["c10_thdm_limits"])
    chk.min_conclusive = n // 4
    chk.min_cells = 100
    chk.required_cells = ["SM-limit:1L-exact-cancellation(helper-level)|type1", "SM-limit:2LF-exact-cancellation(helper-level)|type6", "SM-limit:2LF-independent-of-common-higgs-mass|type2", "decoupling:1L:band-maxima-ratio|type5",
                          "decoupling:2LF:band-maxima-ratio|type2", "decoupling:2LB:band-maxima-ratio|type3",
                          "aligned-decoupling(gauge):2LB:K-high-band|type2", "aligned-decoupling(mass):2LB:K-high-band|type5|sba=-1", "aligned-decoupling(gauge):1L:band-maxima-ratio|type6",
                          "aligned-decoupling(mass):2LF:band-maxima-ratio|type1|sba=+1"]
