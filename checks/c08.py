"""C08 — a constructed THDM reproduces its inputs (DESIGN §5 C08)."""
from lib import simple

HARNESSES = {"c08_thdm_roundtrip": {}}


def run(chk):
    chk.rule = ("mass-basis inputs with 0 <= mh <= mH, mA, mH+ in [10,1e4] GeV (plus mh = 0, mh = mH, nearly degenerate and fully degenerate "
                "choices), sin(beta-alpha) uniform on [-1,1] plus +-1, 0 and the alignment region, tan beta 0.05..200, lambda6,7 in [-3,3], m12^2 of "
                "either sign, all six Yukawa types, unit/real/complex CKM, random zeta/Delta/Pi, random MW<MZ; getters compared with the inputs, then "
                "gauge-basis rebuild and back. cell = clause x Yukawa type / angle class; distinct_nontrivial = non-empty cells")
    chk.assumptions = ["mass tolerances 1e-12 m_max^2/m^2 (scaled with the ratio of largest to smallest squared mass, as the property allows)",
                       "sin(beta-alpha) tolerance 1e-9 + 1e-13 m_max^2/(mH^2-mh^2); exactly degenerate mh = mH is exempt; at |sba| = 1 both signs are accepted"]
    n = simple.run(chk, "c08_thdm_roundtrip", 300000, 6000000, HARNESSES["c08_thdm_roundtrip"])
    chk.min_conclusive = n // 2
    chk.min_cells = 60
    chk.required_cells = ["sin(beta-alpha)|generic", "sin(beta-alpha)||sba|=1", "sin(beta-alpha)|sba=0", "CKM-Jarlskog|type6|ckm3", "gauge-basis-rebuild:masses|type5",
                          "accepted|mh=0", "mass:mh|type1"]
