"""C04 — MSSM tree-level spectrum (DESIGN §5 C04)."""
from lib import simple

HARNESSES = {"c04_spectrum": {}}


def run(chk):
    chk.rule = ("random real Lagrangian parameter sets (tan beta 0.5..200, mu, B mu, gaugino masses of either sign, soft masses^2 of either sign "
                "with ~half of the points steered into tachyons, hierarchical and degenerate choices) set through the public setters; after "
                "calculate_DRbar_masses every sector is compared with mass matrices written independently in the harness. cell = sector x clause, "
                "plus tachyon-flag and generation-exchange cells; distinct_nontrivial = non-empty cells")
    chk.assumptions = ["the harness's own tree-level mass matrices (sfermion F-, D-, A-terms; Higgs with mA^2 = B mu/(sb cb); neutralino; chargino) are the specification",
                       "tachyon clause is inconclusive when |lambda_min| < 1e-9 ||M||", "Higgs-sector tolerances are relative to ||M|| + mu^2 (the library eliminates mHd2, mHu2 and adds mu^2 back)"]
    n = simple.run(chk, "c04_spectrum", 100000, 5000000, HARNESSES["c04_spectrum"])
    chk.min_conclusive = n // 2
    chk.min_cells = 60
    chk.required_cells = ["Sm|reconstruction", "Chi|reconstruction", "Cha|determinant-identity", "hh|reconstruction", "identity|mHp2", "tachyon-flags|Sm",
                          "tachyon-flags|Stau", "tachyon-flags|St", "tachyon-flags|Sb", "tachyon-flags|SvmL", "tachyon-flags|hh", "tachyon-flags|Ah",
                          "tachyon-flags|Hpm", "generation-exchange|"]
