"""C03 — one-loop a_mu against an independent evaluation (DESIGN §5 C03)."""
from lib import simple

HARNESSES = {"c03_oneloop": dict(with_mpref=True)}


def run(chk):
    chk.rule = ("MSSM on-shell points (tan beta 1..100, |mu|,|M1|,|M2| in [50,1e4] with independent signs, slepton masses [80,1e4], A_mu in "
                "[-1e4,1e4]) via calculate_masses and 25% additionally via convert_to_onshell; THDM mass- and gauge-basis points, all six Yukawa "
                "types, non-diagonal Delta/Pi, running on/off. Oracle: Eqs. (2.11a,b) of 1311.1775 / flavour-summed 1607.06292 expression evaluated "
                "from the model's getters with own long-double Jacobi diagonalisation and 200-digit loop functions; tolerance 1e-8 of sum|terms|. "
                "cell = model x quantity x path x sign pattern x tan-beta decade; distinct_nontrivial = non-empty cells")
    chk.assumptions = ["the reference shares the papers' formulas with the library but not its mixing-matrix conventions (real orthogonal neutralino mixing with signed masses)",
                       "models with reported problems are skipped and counted"]
    n = simple.run(chk, "c03_oneloop", 60000, 1500000, HARNESSES["c03_oneloop"])
    chk.min_conclusive = n // 3
    chk.min_cells = 40
    chk.required_cells = ["MSSM|chi0|onshell-input|sgn---", "MSSM|chi0|onshell-input|sgn+++", "MSSM|chipm|after-convert_to_onshell", "MSSM|non-tan-beta-resummed-sum",
                          "THDM|1loop|mass|type5", "THDM|1loop|gauge|type6", "THDM|1loop|mass|type1"]
