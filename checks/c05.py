"""C05 — DR-bar -> on-shell conversion (DESIGN §5 C05)."""
from lib import simple

HARNESSES = {"c05_conversion": {}}


def run(chk):
    chk.rule = ("on-shell points (tan beta 2..60, either sign of mu, M1, M2, slepton masses 100..3000 GeV); a second model receives the pole spectrum "
                "and guesses of mu, M1, M2, ml2(1,1), me2(1,1) perturbed by up to 5%, then convert_to_onshell(precision in [1e-10,1e-4], 1000). "
                "Oracle: no exception; if no warning, both charginos, the bino-like neutralino, the muon sneutrino and the right-like smuon reproduce "
                "their pole masses within the precision; on the well-conditioned subset the original parameters and a_mu are recovered. "
                "cell = clause x mass ordering x precision decade; distinct_nontrivial = non-empty cells")
    chk.assumptions = ["bino-like state = largest bino component of the pole / fitted mixing matrix; right-like smuon from the fitted mixing, target = sorted pole mass at that index",
                       "well-conditioned = left/right smuon parameters > 10% apart, smuon mixing angle < 0.05, and |mu|,|M1|,|M2| pairwise > 15% apart (unique inverse within the perturbation)",
                       "recovery tolerance 1e-6 + 100 precision/m_min (the conversion is only asked to reach 'precision')"]
    n = simple.run(chk, "c05_conversion", 100000, 2000000, HARNESSES["c05_conversion"])
    chk.min_conclusive = n // 2
    chk.min_cells = 60
    chk.required_cells = ["pole:charginos|R-lighter", "pole:right-smuon|R-heavier", "pole:bino-like-neutralino|", "recovery:parameters|well-conditioned", "warned|"]
